#!/venv/bin/python
"""Confirm seeded changes produced by independent sub-agents and copy the
confirmed ones to /verif/seeded/<id>-<X>/.

For each /tmp/seed/Cnn/SEED/<X>/{patch.diff,demo.py,meta.json}:
  in a scratch worktree of /repo HEAD (outside /repo and /verif):
    1. demo.py exits 0 on the clean tree
    2. patch applies; package byte-compiles
    3. demo.py exits non-zero with the patch
    4. the pinned test suite still passes (baseline_check)
  keep only if all four hold; meta.json gets a "confirmed" block.

usage: harvest_seeds.py [Cnn ...]
"""
import glob
import json
import os
import shutil
import subprocess
import sys

SEEDROOT = "/tmp/seed"
OUT = "/verif/seeded"
WT = "/tmp/seedcheck_wt"


def sh(cmd, cwd=None, env=None, timeout=300):
    p = subprocess.run(cmd, cwd=cwd, env=env, shell=isinstance(cmd, str), stdout=subprocess.PIPE,
                       stderr=subprocess.STDOUT, text=True, timeout=timeout)
    return p.returncode, p.stdout


def one(d, want, head):
    pid = d.split("/")[3]
    x = os.path.basename(d)
    if want and pid not in want:
        return
    name = "{}-{}{}".format(pid, os.environ.get("SEED_TAG", ""), x)
    patch = os.path.join(d, "patch.diff")
    demo = os.path.join(d, "demo.py")
    if not (os.path.exists(patch) and os.path.exists(demo)):
        print(name, "INCOMPLETE")
        return
    if os.path.exists(os.path.join(OUT, name)):
        print(name, "already harvested")
        return
    wt = WT + "_" + name
    if os.path.exists(wt):
        sh("git -C /repo worktree remove --force " + wt)
    rc, out = sh("git -C /repo worktree add --detach {} HEAD".format(wt))
    assert rc == 0, out
    env = dict(os.environ, PYTHONPATH=wt + "/src")
    try:
        rc_clean, o1 = sh(["/venv/bin/python", demo], cwd=wt, env=env, timeout=180)
        rc_apply, o2 = sh(["git", "apply", patch], cwd=wt)
        if rc_apply != 0:
            rc_apply, o2 = sh(["git", "apply", "-3", patch], cwd=wt)
        if rc_apply != 0:
            print(name, "PATCH DOES NOT APPLY on", head, o2[-300:])
            return
        rc_comp, o3 = sh(["/venv/bin/python", "-m", "compileall", "-q", "src"], cwd=wt)
        rc_pat, o4 = sh(["/venv/bin/python", demo], cwd=wt, env=env, timeout=180)
        rc_base, o5 = sh(["/venv/bin/python", "/verif/tools/baseline_check.py", wt], timeout=900)
        ok = rc_clean == 0 and rc_comp == 0 and rc_pat != 0 and rc_base == 0
        print(name, "clean=%d patched=%d compile=%d baseline=%d -> %s" % (
            rc_clean, rc_pat, rc_comp, rc_base, "CONFIRMED" if ok else "REJECTED"), flush=True)
        if not ok:
            if rc_clean != 0:
                print("   clean demo output:", o1[-400:])
            if rc_base != 0:
                print("   baseline:", o5[-400:])
            return
        dst = os.path.join(OUT, name)
        os.makedirs(dst, exist_ok=True)
        # regenerate the patch against HEAD so that it applies cleanly to /repo
        _, diff = sh("git diff HEAD -- src", cwd=wt)
        open(os.path.join(dst, "patch.diff"), "w").write(diff)
        shutil.copy(demo, os.path.join(dst, "demo.py"))
        try:
            meta = json.load(open(os.path.join(d, "meta.json")))
        except Exception:  # noqa: BLE001
            meta = {}
        meta["property"] = pid
        meta["confirmed"] = {
            "against_repo_commit": head,
            "ran": [
                "scratch worktree of /repo HEAD under /tmp (removed afterwards)",
                "demo.py on clean tree -> exit 0",
                "git apply patch.diff; python -m compileall src -> ok",
                "demo.py with patch -> exit %d" % rc_pat,
                "tools/baseline_check.py -> 729 stable tests pass, 0 regressed",
            ],
            "patched_demo_output_tail": o4[-600:],
        }
        json.dump(meta, open(os.path.join(dst, "meta.json"), "w"), indent=1, ensure_ascii=False)
    finally:
        sh("git -C /repo worktree remove --force " + wt)


def main():
    import concurrent.futures as cf
    want = sys.argv[1:]
    head = sh("git -C /repo rev-parse --short HEAD")[1].strip()
    dirs = sorted(glob.glob(SEEDROOT + "/C*/SEED/*"))
    with cf.ThreadPoolExecutor(max_workers=8) as ex:
        list(ex.map(lambda d: one(d, want, head), dirs))


main()
