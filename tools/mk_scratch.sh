#!/bin/sh
# usage: mk_scratch.sh <benign-or-seed patch dir> -> prints scratch repo path (under /tmp/bt/<name>)
set -e
name=$(basename "$1")
d=/tmp/bt/$name
rm -rf "$d"; mkdir -p "$d"
rsync -a --exclude .git --exclude __pycache__ --exclude .pytest_cache /repo/ "$d/"
(cd "$d" && (git apply --unsafe-paths "$1/patch.diff" 2>/dev/null || patch -p1 -s -F3 --no-backup-if-mismatch -i "$1/patch.diff"))
echo "$d"
