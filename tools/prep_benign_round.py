#!/venv/bin/python
"""Prepare a round of independent agents that write BEHAVIOUR-PRESERVING refactorings (false-alarm corpus).

One scratch git worktree of /repo HEAD per code area under /tmp/ben/<Bnn> (outside /repo and /verif) and one prompt per area
in /tmp/ben/prompts/<Bnn>.txt.  The prompt names the code area only -- nothing from /verif, no property text.

usage: prep_benign_round.py [first-number] [--set2]   (default 1 -> B01..B10; 11 -> B11..B20; --set2: a second list of code areas)
After the agents finish:  tools/run_benign.py --harvest /tmp/ben ; then remove the worktrees:
  for d in /tmp/ben/B*; do git -C /repo worktree remove --force $d; done
"""
import os
import shutil
import subprocess
import sys

AREAS = [
    "src/wikitextprocessor/core.py: Wtp.expand and its nested closures expand_recurse / expand_args / expand_parserfn (the template expansion machinery)",
    "src/wikitextprocessor/core.py: the page store and database functions (create_db, backup_db, close_db_conn, add_page, get_page, get_page_resolve_redirect, page_exists, set_template_pre_expand, analyze_templates, namespace_prefixes)",
    "src/wikitextprocessor/core.py: _encode / _save_value / preprocess_text / _finalize_expand / start_page / __init__ and the init_* helpers",
    "src/wikitextprocessor/parser.py: the table, list and heading handlers (table_start_fn, table_row_fn, table_cell_fn, table_hdr_cell_fn, double_vbar_fn, table_caption_fn, list_fn, subtitle_start_fn, subtitle_end_fn, hline_fn, close_begline_lists, check_for_attributes)",
    "src/wikitextprocessor/parser.py: tag_fn, parse_attrs, token_iter, process_text, magic_fn, text_fn, _parser_push/_parser_pop/_parser_merge_str_children, TemplateNode.template_parameters",
    "src/wikitextprocessor/parserfns.py: if_fn, ifeq_fn, switch_fn, expr_fn, plural_fn, formatnum_fn, padleft/padright/pad, explode/sub/pos/rpos, call_parser_function",
    "src/wikitextprocessor/luaexec.py: lua_loader, call_lua_sandbox, make_frame and its nested frame methods, initialize_lua, call_set_functions",
    "src/wikitextprocessor/lua/_sandbox_phase1.lua and _sandbox_phase2.lua (the Lua sandbox: new_require, new_loader, new_loadData, _lua_reset_env, _lua_set_timeout, _lua_invoke, prepare_frame_args, frame_args_index)",
    "src/wikitextprocessor/node_expand.py (to_wikitext, to_html, to_text, to_attrs)",
    "src/wikitextprocessor/dumpparser.py, interwiki.py, wikidata.py (dump ingestion pipeline: parse_dump_xml, process_dump, add_default_templates, analyze_and_overwrite_pages, overwrite_single_page, init_interwiki_map)",
]

AREAS_2 = [
    "src/wikitextprocessor/core.py: message recording and page bookkeeping (error, warning, debug, _fmt_errmsg, to_return, start_page, start_section, start_subsection, parse, parse_encoded, node_to_wikitext/html/text, read_by_title, page_exists, get_page_body, template_override_funcs handling)",
    "src/wikitextprocessor/core.py: reprocess / process / process_input style multiprocessing entry points and helpers (phase1_page_handler, _phase2_page_handler, process, reprocess, make sure worker contexts behave the same), plus Wtp.close_db_conn / __enter__-like lifecycle code",
    "src/wikitextprocessor/core.py: _template_to_body, preprocess_text and its nested substitution functions, _unexpanded_template/_unexpanded_arg/_unexpanded_link/_unexpanded_extlink, _canonicalize_parserfn_name, _canonicalize_template_name",
    "src/wikitextprocessor/parser.py: process_text, token_iter, token_list construction, text_fn, hline_fn, bold_fn, italic_fn, url_fn, colon_fn, pop_until_nth_list, _parser_have, WikiNode/TemplateNode/HTMLNode/LevelNode classes and their find/filter helpers",
    "src/wikitextprocessor/parser.py: tag_fn (start tags, end tags, implicit closing via the ALLOWED_HTML_TAGS relations), parse_attrs, _parser_pop and its unclosed-node fix-ups, print_tree, table_row_check_attrs/table_check_attrs/check_for_attributes",
    "src/wikitextprocessor/parserfns.py: the page-name and url family (fullpagename_fn, pagename_fn, basepagename_fn, rootpagename_fn, subpagename_fn, talkpagename_fn, namespace_fn, fullurl_fn, urlencode_fn, anchorencode_fn, ns_fn, localurl), titleparts_fn, time/date functions (time_fn, currentyear etc.), lc/uc/lcfirst/ucfirst, len/pos/rpos/sub/replace/explode",
    "src/wikitextprocessor/luaexec.py: the Python helpers exposed to Lua (mw_text_decode, mw_text_encode, mw_text_jsondecode, mw_text_jsonencode, get_page_info, get_page_content, fetch_language_name(s), top_lua_stack, get_current_title, mw_language_format_date_python) and set_lua_env_funcs / append_env / top_env",
    "src/wikitextprocessor/lua/*.lua other than the two sandbox files: mw.lua, mw_text.lua, mw_title.lua, mw_language.lua, mw_uri.lua, mw_html.lua, mw_hash.lua, mw_site.lua, mw_message.lua, mw_wikibase.lua (pick any; keep behaviour identical)",
    "src/wikitextprocessor/wikihtml.py, common.py, logging_utils.py, and the way core.py builds allowed_html_tags / extension tags in __init__ (data tables may be re-expressed but must stay value-identical)",
    "src/wikitextprocessor/core.py: analyze_templates, check_template_need_expand, set_template_pre_expand, get_all_pages, build_sql_where_query, template_pre_expand bookkeeping, add_default_templates in dumpparser.py",
]

BASE = '''You are helping to test a static-analysis framework for FALSE ALARMS. You work ONLY inside the scratch git worktree {wt} (a checkout of the open-source project tatuylonen/wikitextprocessor; Python package under src/wikitextprocessor, Lua sandbox sources under src/wikitextprocessor/lua). Do NOT read, list or touch /verif or /repo. The sandbox has no network.

YOUR TASK: produce FOUR independent BEHAVIOUR-PRESERVING refactorings (call them A, B, C, D) of this area of the code:

    {area}

Each must be a change a maintainer could plausibly commit and that provably does NOT change behaviour for any input, option combination, history or schedule: e.g. extracting a helper function or closure, inlining one, renaming locals/parameters, replacing a loop by a comprehension (or vice versa), restructuring if/elif chains or early returns without changing any condition's meaning, precompiling regexes into module constants (same pattern, same flags, same match/search method), table-driven dispatch replacing an if-chain, replacing manual push/pop or acquire/release pairs by a try/finally or a context manager that does exactly the same on every path, splitting a long function, moving a nested function to module or class level (or the reverse), merging sibling branches that do the same thing, reordering INDEPENDENT statements, adding type annotations, replacing string concatenation by f-strings/format (same text), using equivalent standard-library idioms (dict.get vs `in`+index, str.partition vs index+slice when really equivalent, dataclasses.replace vs constructing a copy). Make them NON-TRIVIAL (each should restructure at least ~10 lines; be as bold as a real clean-up pull request) and DIFFERENT from each other in kind. Do not fix bugs, do not change any observable behaviour (including exceptions raised, order of side effects, messages recorded, database writes/commits), do not add caches or memoisation, do not change regex semantics.

For each refactoring:
 (a) the package must import and byte-compile;
 (b) every test of the pinned suite that passes on the unmodified tree must still pass:  /venv/bin/python /tmp/ben/baseline_check.py {wt}   must report "0 regressed" (about 20 s). When you run Python against your worktree set PYTHONPATH={wt}/src ;
 (c) write a short equivalence argument (why behaviour is unchanged on every path).
Each is a separate patch against the CLEAN tree (not stacked).

DELIVERABLES (create the directory {wt}/BENIGN):
  {wt}/BENIGN/A/patch.diff  -- `git diff` of the change (src/ only), applicable to the clean tree with `git apply`
  {wt}/BENIGN/A/meta.json   -- {{"area": "...", "summary": "...", "equivalence_argument": "...", "files_changed": [...]}}
  and the same under B/, C/, D/.
Do not use `git stash`. When finished leave the worktree's src CLEAN (git -C {wt} checkout -- src) with only the untracked BENIGN/ directory added. Do not commit anything.

Your final message: one line per refactoring saying what it restructures.'''


def main():
    first = int(sys.argv[1]) if len(sys.argv) > 1 else 1
    areas = AREAS_2 if "--set2" in sys.argv else AREAS
    os.makedirs("/tmp/ben/prompts", exist_ok=True)
    shutil.copy("/verif/tools/baseline_check.py", "/tmp/ben/baseline_check.py")
    for i, area in enumerate(areas):
        k = "B%02d" % (first + i)
        wt = "/tmp/ben/" + k
        if not os.path.exists(wt):
            subprocess.run(["git", "-C", "/repo", "worktree", "add", "--detach", "-q", wt, "HEAD"], check=True)
        open("/tmp/ben/prompts/%s.txt" % k, "w").write(BASE.format(wt=wt, area=area))
    print("prepared", len(areas), "prompts from B%02d" % first)


main()
