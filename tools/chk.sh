#!/bin/sh
# usage: chk.sh <scratch repo> [Cnn ...]  -- run quick checks against a scratch tree, evidence to /tmp/bt/ev
repo=$1; shift
props=${@:-C01 C02 C03 C04 C05 C06 C07 C08 C09 C10 C11 C12 C13 C14 C15 C16 C17 C18 C19 C20}
mkdir -p /tmp/bt/ev
for p in $props; do
  out=$(cd /verif && VERIF_REPO=$repo VERIF_EVIDENCE_DIR=/tmp/bt/ev /venv/bin/python -m sa.check $p 2>&1); rc=$?
  [ $rc -ne 0 ] && echo "== $p rc=$rc" && echo "$out" | grep -v "^OK\|conda" | cut -c1-400 | head -12
done
echo done
