#!/venv/bin/python
"""Behaviour-preserving refactorings vs. the checks (false-alarm regression).

/verif/benign/<id>/{patch.diff,meta.json} are refactorings written by independent
sub-agents (prompt: "restructure this area without changing behaviour"), kept only
when the patched tree compiles and the 729 pinned tests still pass.  Each is
applied to a scratch copy of /repo under /tmp (removed afterwards) and all 20
quick checks are run against it through VERIF_REPO.

A VIOLATION on such a tree is a false alarm of the rule (unless reading the patch
shows it is not behaviour-preserving after all, in which case the entry moves to
benign/rejected/ with the reason); an ANALYSIS-ERROR is an "inconclusive" -- not an
alarm, but listed, because a refactoring should ideally not blind a rule.

usage: run_benign.py [--harvest /tmp/ben] [name-filter ...]
  --harvest DIR   first import DIR/<Bxx>/BENIGN/<X>/ as benign/<Bxx>-<X> (after confirming them)
writes /verif/benign/RESULTS.md
"""
import concurrent.futures as cf
import glob
import json
import os
import re
import shutil
import subprocess
import sys
import tempfile

VERIF = "/verif"
OUT = os.path.join(VERIF, "benign")
PROPS = ["C%02d" % i for i in range(1, 21)]
if os.environ.get("RUN_PROPS"):  # restrict the checks that are run (quick re-runs after a rule change)
    PROPS = [p for p in PROPS if p in os.environ["RUN_PROPS"].split(",")]


def sh(cmd, cwd=None, env=None, timeout=900):
    p = subprocess.run(cmd, cwd=cwd, env=env, shell=isinstance(cmd, str), stdout=subprocess.PIPE,
                       stderr=subprocess.STDOUT, text=True, timeout=timeout)
    return p.returncode, p.stdout


def scratch_with_patch(patch):
    work = tempfile.mkdtemp(prefix="benign_")
    repo = os.path.join(work, "repo")
    shutil.copytree("/repo", repo, ignore=shutil.ignore_patterns(".git", "__pycache__", "*.pyc", ".pytest_cache"))
    rc, out = sh(["git", "apply", "--unsafe-paths", "--directory=" + repo, patch], cwd=work)
    if rc != 0:
        rc, out = sh(["patch", "-p1", "-s", "-F3", "--no-backup-if-mismatch", "-d", repo, "-i", patch])
    return work, repo, rc, out


def harvest(src):
    os.makedirs(OUT, exist_ok=True)
    for d in sorted(glob.glob(os.path.join(src, "B*", "BENIGN", "*"))):
        bid = d.split("/")[-3]
        name = "{}-{}".format(bid, os.path.basename(d))
        patch = os.path.join(d, "patch.diff")
        if not os.path.exists(patch) or os.path.exists(os.path.join(OUT, name)):
            continue
        work, repo, rc, out = scratch_with_patch(patch)
        try:
            if rc != 0:
                print(name, "patch does not apply")
                continue
            rc_c, _ = sh(["/venv/bin/python", "-m", "compileall", "-q", os.path.join(repo, "src")])
            rc_b, ob = sh(["/venv/bin/python", os.path.join(VERIF, "tools/baseline_check.py"), repo])
            if rc_c != 0 or rc_b != 0:
                print(name, "REJECTED (does not compile / regresses tests):", ob.strip().split("\n")[-1][:100])
                continue
            os.makedirs(os.path.join(OUT, name))
            shutil.copy(patch, os.path.join(OUT, name, "patch.diff"))
            mp = os.path.join(d, "meta.json")
            try:
                meta = json.load(open(mp))
            except Exception:  # noqa: BLE001
                meta = {}
            meta["confirmed"] = "applies to /repo HEAD {}; byte-compiles; 729 pinned tests pass".format(
                sh("git -C /repo rev-parse --short HEAD")[1].strip())
            json.dump(meta, open(os.path.join(OUT, name, "meta.json"), "w"), indent=1, ensure_ascii=False)
            print(name, "kept")
        finally:
            shutil.rmtree(work, ignore_errors=True)


def run_one(d):
    name = os.path.basename(d)
    work, repo, rc, out = scratch_with_patch(os.path.join(d, "patch.diff"))
    try:
        if rc != 0:
            return name, {"error": "patch does not apply"}
        env = dict(os.environ, VERIF_REPO=repo, VERIF_EVIDENCE_DIR=os.path.join(work, "ev"))
        res = {}
        for pid in PROPS:
            q = subprocess.run(["/venv/bin/python", "-m", "sa.check", pid], cwd=VERIF, env=env, stdout=subprocess.PIPE,
                               stderr=subprocess.STDOUT, text=True)
            if q.returncode == 1:
                res[pid] = ("VIOLATION", [m.group(0).strip()[:160] for m in re.finditer(r"^\s+C\d\d\.R\d+\w* .*$", q.stdout, re.M)][:4])
            elif q.returncode != 0:
                res[pid] = ("ANALYSIS-ERROR", [l[:160] for l in q.stdout.splitlines() if "ANALYSIS-ERROR" in l][:1])
        return name, res
    finally:
        shutil.rmtree(work, ignore_errors=True)


def main():
    args = sys.argv[1:]
    if "--harvest" in args:
        i = args.index("--harvest")
        harvest(args[i + 1])
        del args[i:i + 2]
    dirs = sorted(d for d in glob.glob(os.path.join(OUT, "B*")) if os.path.isdir(d))
    if args:
        dirs = [d for d in dirs if any(a in os.path.basename(d) for a in args)]
    out = {}
    with cf.ThreadPoolExecutor(max_workers=14) as ex:
        for name, res in ex.map(run_one, dirs):
            out[name] = res
    lines = ["# Behaviour-preserving refactorings vs. checks", "",
             "| refactoring | alarms (false alarms unless the patch is not benign) | inconclusive |", "|---|---|---|"]
    n_alarm = n_inc = 0
    for name in sorted(out):
        res = out[name]
        if "error" in res:
            lines.append("| {} | {} | |".format(name, res["error"]))
            continue
        al = "; ".join("{}: {}".format(p, " / ".join(v[1])) for p, v in sorted(res.items()) if v[0] == "VIOLATION")
        inc = "; ".join("{}: {}".format(p, " / ".join(v[1])) for p, v in sorted(res.items()) if v[0] == "ANALYSIS-ERROR")
        n_alarm += 1 if al else 0
        n_inc += 1 if inc else 0
        lines.append("| {} | {} | {} |".format(name, al.replace("|", "\\|"), inc.replace("|", "\\|")))
    lines += ["", "{} refactorings; {} with an alarm, {} with an inconclusive check.".format(len(out), n_alarm, n_inc)]
    open(os.path.join(OUT, os.environ.get("RESULTS_OUT") or "RESULTS.md"), "w").write("\n".join(lines) + "\n")
    print("\n".join(lines))


main()
