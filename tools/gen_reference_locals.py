#!/venv/bin/python
"""Regenerate /verif/sa/reference_locals.json from /repo's current working tree (run after fix: commits that add or rename locals)."""
import json, os, sys
sys.path.insert(0, "/verif")
from sa.core.alpha import make_reference, REF_PATH
ref = make_reference(os.path.join(os.environ.get("VERIF_REPO", "/repo"), "src/wikitextprocessor"))
json.dump(ref, open(REF_PATH, "w"), indent=0, ensure_ascii=False)
print("functions:", sum(len(v) for v in ref.values()), "->", REF_PATH)

from sa.core import canon
ref2 = canon.make_reference(os.path.join(os.environ.get("VERIF_REPO", "/repo"), "src/wikitextprocessor"))
json.dump(ref2, open(canon.REF_PATH, "w"), indent=0, ensure_ascii=False)
print("names:", sum(len(v["functions"]) for v in ref2.values()), "functions,", sum(len(v["constants"]) for v in ref2.values()), "module constants ->", canon.REF_PATH)

from sa.core import lua as L
luadir = os.path.join(os.environ.get("VERIF_REPO", "/repo"), "src/wikitextprocessor/lua")
ref3 = {}
for fn in sorted(os.listdir(luadir)):
    if fn.endswith(".lua"):
        ch = L.parse(open(os.path.join(luadir, fn), encoding="utf-8").read(), fn)
        ref3[fn] = {"functions": L.function_names(ch), "locals": L.chunk_locals(ch)}
json.dump(ref3, open(L.LUA_REF_PATH, "w"), indent=0, ensure_ascii=False)
print("lua functions:", sum(len(v["functions"]) for v in ref3.values()), "->", L.LUA_REF_PATH)
