#!/venv/bin/python
"""Run the registered quick checks against every confirmed seeded change.

Each seed is applied to a scratch copy of /repo's working tree (outside /repo
and /verif, removed afterwards); the checks read it through VERIF_REPO and write
their evidence to a scratch directory, so /verif/evidence is not touched.

usage: run_seeds.py [--tier quick|thorough] [name-filter ...]
writes /verif/seeded/RESULTS.md and prints a summary.

CHECKERS_HOME=<dir> runs the checkers from another checkout of /verif (e.g. a
scratch git worktree of a tag) -- used to evaluate a round of seeds against
checks frozen before the round; the result is then written to
seeded/RESULTS-frozen.md instead.
"""
import concurrent.futures as cf
import glob
import json
import os
import re
import shutil
import subprocess
import sys
import tempfile

VERIF = "/verif"
CHECKERS = os.environ.get("CHECKERS_HOME", VERIF)


def props_available():
    man = json.load(open(os.path.join(CHECKERS, "MANIFEST.json")))
    props = [c["property_id"] for c in man["checks"]]
    if os.environ.get("RUN_PROPS"):  # restrict the checks that are run (quick re-runs after a rule change)
        props = [p for p in props if p in os.environ["RUN_PROPS"].split(",")]
    return props


def run_one(seed_dir, tier, props):
    name = os.path.basename(seed_dir)
    work = tempfile.mkdtemp(prefix="seedrun_")
    try:
        repo = os.path.join(work, "repo")
        shutil.copytree(os.environ.get("SEED_BASE_REPO", "/repo"), repo, ignore=shutil.ignore_patterns(".git", "__pycache__", "*.pyc", ".pytest_cache"))
        p = subprocess.run(["git", "apply", "--unsafe-paths", "--directory=" + repo, os.path.join(seed_dir, "patch.diff")],
                           cwd=work, stdout=subprocess.PIPE, stderr=subprocess.STDOUT, text=True)
        if p.returncode != 0:
            p = subprocess.run(["patch", "-p1", "-d", repo, "-i", os.path.join(seed_dir, "patch.diff")],
                               stdout=subprocess.PIPE, stderr=subprocess.STDOUT, text=True)
            if p.returncode != 0:
                return name, {"error": "patch does not apply: " + p.stdout[-200:]}
        env = dict(os.environ, VERIF_REPO=repo, VERIF_EVIDENCE_DIR=os.path.join(work, "ev"))
        res = {}
        for pid in props:
            q = subprocess.run(["/venv/bin/python", "-m", "sa.check", pid, "--tier", tier], cwd=CHECKERS, env=env,
                               stdout=subprocess.PIPE, stderr=subprocess.STDOUT, text=True)
            rules = sorted(set(re.findall(r"^\s+(C\d\d\.R\d+\w*) ", q.stdout, re.M)))
            if q.returncode == 1:
                res[pid] = {"rc": 1, "rules": rules}
            elif q.returncode != 0:
                res[pid] = {"rc": q.returncode, "msg": [l for l in q.stdout.splitlines() if "ANALYSIS-ERROR" in l][:2]}
        return name, res
    finally:
        shutil.rmtree(work, ignore_errors=True)


def main():
    args = sys.argv[1:]
    tier = "quick"
    if "--tier" in args:
        i = args.index("--tier")
        tier = args[i + 1]
        del args[i:i + 2]
    seeds = sorted(d for d in glob.glob(os.path.join(VERIF, "seeded", "C*")) if os.path.isdir(d))
    if args:
        seeds = [s for s in seeds if any(a in os.path.basename(s) for a in args)]
    props = props_available()
    out = {}
    with cf.ThreadPoolExecutor(max_workers=14) as ex:
        for name, res in ex.map(lambda s: run_one(s, tier, props), seeds):
            out[name] = res
    lines = ["# Seeded changes vs. checks (tier: {})".format(tier), "",
             "Checks available at this run: " + ", ".join(props), "",
             "| seed | target property | caught by target | fired (property: rules) | inconclusive |", "|---|---|---|---|---|"]
    caught = 0
    for name in sorted(out):
        res = out[name]
        target = name.split("-")[0]
        if "error" in res:
            lines.append("| {} | {} | n/a | {} | |".format(name, target, res["error"]))
            continue
        fired = "; ".join("{}: {}".format(p, ",".join(r.get("rules", []))) for p, r in sorted(res.items()) if r["rc"] == 1)
        inc = "; ".join("{} ({})".format(p, " ".join(r.get("msg", []))[:80]) for p, r in sorted(res.items()) if r["rc"] not in (0, 1))
        hit = target in res and res[target]["rc"] == 1
        anyhit = any(r["rc"] == 1 for r in res.values())
        caught += 1 if anyhit else 0
        lines.append("| {} | {} | {} | {} | {} |".format(name, target, "yes" if hit else ("other" if anyhit else ("n/b" if target not in props else "NO")), fired, inc))
    lines.append("")
    lines.append("{} of {} seeded changes raise a VIOLATION in at least one check.".format(caught, len(out)))
    open(os.path.join(VERIF, "seeded", os.environ.get("RESULTS_OUT") or ("RESULTS.md" if CHECKERS == VERIF else "RESULTS-frozen.md")), "w").write("\n".join(lines) + "\n")
    print("\n".join(lines))


main()
