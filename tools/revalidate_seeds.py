#!/venv/bin/python
"""Re-confirm every seeded change in /verif/seeded against /repo's current HEAD
(after fix: commits the breakage a seed relies on may have been repaired).

For each seed, in a scratch worktree of HEAD under /tmp (removed afterwards):
  demo on clean tree -> exit 0 ; patch applies ; demo with patch -> non-zero ;
  pinned test suite still passes.
Seeds that no longer satisfy this are moved to /verif/seeded/obsolete/ with the
reason appended to obsolete/README.md.  meta.json["confirmed"] is refreshed.

usage: revalidate_seeds.py [name-filter ...]
"""
import concurrent.futures as cf
import glob
import json
import os
import shutil
import subprocess
import sys
import threading

SEEDED = "/verif/seeded"
lock = threading.Lock()


def sh(cmd, cwd=None, env=None, timeout=600):
    p = subprocess.run(cmd, cwd=cwd, env=env, shell=isinstance(cmd, str), stdout=subprocess.PIPE,
                       stderr=subprocess.STDOUT, text=True, timeout=timeout)
    return p.returncode, p.stdout


def check(seed_dir, wt, head):
    name = os.path.basename(seed_dir)
    env = dict(os.environ, PYTHONPATH=wt + "/src")
    sh("git checkout -q -- . && git clean -fdq", cwd=wt)
    demo = os.path.join(seed_dir, "demo.py")
    patch = os.path.join(seed_dir, "patch.diff")
    rc_clean, o1 = sh(["/venv/bin/python", demo], cwd=wt, env=env, timeout=300)
    rc_apply, o2 = sh(["git", "apply", patch], cwd=wt)
    rebased = False
    if rc_apply != 0:
        # context lines may have moved because of a fix: commit; retry with fuzz and, if every hunk
        # goes in, keep the regenerated diff (the change itself is unaltered)
        sh("git checkout -q -- . && git clean -fdq", cwd=wt)
        rc_fuzz, o2 = sh("patch -p1 -s -F3 --no-backup-if-mismatch < " + patch, cwd=wt)
        sh("find . -name '*.orig' -delete; find . -name '*.rej' -delete", cwd=wt)
        if rc_fuzz != 0:
            sh("git checkout -q -- . && git clean -fdq", cwd=wt)
            return name, False, "patch no longer applies to HEAD " + head
        rebased = True
        _, newdiff = sh("git diff HEAD -- src", cwd=wt)
    rc_comp, _ = sh(["/venv/bin/python", "-m", "compileall", "-q", "src"], cwd=wt)
    rc_pat, o4 = sh(["/venv/bin/python", demo], cwd=wt, env=env, timeout=300)
    rc_base, o5 = sh(["/venv/bin/python", "/verif/tools/baseline_check.py", wt], timeout=900)
    sh("git checkout -q -- . && git clean -fdq", cwd=wt)
    if rc_clean != 0:
        return name, False, "demo fails on the clean HEAD " + head + ": " + o1[-200:].replace("\n", " ")
    if rc_pat == 0:
        return name, False, "demo passes on HEAD {} even with the patch (the defect it relied on was repaired)".format(head)
    if rc_comp != 0 or rc_base != 0:
        return name, False, "patched tree does not compile / regresses the pinned suite"
    mp = os.path.join(seed_dir, "meta.json")
    try:
        meta = json.load(open(mp))
    except Exception:  # noqa: BLE001
        meta = {}
    c = meta.setdefault("confirmed", {})
    if rebased:
        open(patch, "w").write(newdiff)
        c["rebased_onto"] = head + " (context lines only, applied with fuzz)"
    c["against_repo_commit"] = head
    c["revalidated"] = "clean demo exit 0; patched demo exit {}; compileall ok; baseline 0 regressed".format(rc_pat)
    json.dump(meta, open(mp, "w"), indent=1, ensure_ascii=False)
    return name, True, ""


def main():
    filt = sys.argv[1:]
    head = sh("git -C /repo rev-parse --short HEAD")[1].strip()
    seeds = sorted(d for d in glob.glob(SEEDED + "/C*") if os.path.isdir(d))
    if filt:
        seeds = [s for s in seeds if any(f in os.path.basename(s) for f in filt)]
    n = 4
    wts = []
    for i in range(n):
        wt = "/tmp/reval_wt{}".format(i)
        if os.path.exists(wt):
            sh("git -C /repo worktree remove --force " + wt)
        rc, out = sh("git -C /repo worktree add --detach {} HEAD".format(wt))
        assert rc == 0, out
        wts.append(wt)
    pool = list(wts)
    results = []

    def job(sd):
        with lock:
            wt = pool.pop()
        try:
            return check(sd, wt, head)
        finally:
            with lock:
                pool.append(wt)

    try:
        with cf.ThreadPoolExecutor(max_workers=n) as ex:
            for r in ex.map(job, seeds):
                results.append(r)
                print("{:8s} {}".format(r[0], "ok" if r[1] else "OBSOLETE: " + r[2]))
    finally:
        for wt in wts:
            sh("git -C /repo worktree remove --force " + wt)
    os.makedirs(SEEDED + "/obsolete", exist_ok=True)
    for name, ok, why in results:
        if not ok:
            dst = os.path.join(SEEDED, "obsolete", name)
            if os.path.exists(dst):
                shutil.rmtree(dst)
            shutil.move(os.path.join(SEEDED, name), dst)
            with open(SEEDED + "/obsolete/README.md", "a") as f:
                f.write("* {}  {}\n".format(name, why))
    print("{} ok, {} obsolete".format(sum(1 for r in results if r[1]), sum(1 for r in results if not r[1])))


main()
