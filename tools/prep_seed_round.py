#!/venv/bin/python
"""Prepare a round of independent seeding agents.

Creates one scratch git worktree of /repo HEAD per property under /tmp/seed/Cnn
(outside /repo and /verif), copies the baseline runner next to them and writes
one prompt per property to /tmp/seed/prompts/Cnn.txt.  The prompt contains the
property record and environment facts only -- nothing from /verif.

usage: prep_seed_round.py [--focus TEXT]
After the agents finish:  SEED_TAG=<round> tools/harvest_seeds.py ; then remove
the worktrees:  for d in /tmp/seed/C*; do git -C /repo worktree remove --force $d; done
"""
import json
import os
import shutil
import subprocess
import sys

BASE = '''You are producing *seeded defects* to test an independent verification framework. You work ONLY inside the scratch git worktree {wt} (a checkout of the open-source project tatuylonen/wikitextprocessor; the Python package is under src/wikitextprocessor, Lua sandbox sources under src/wikitextprocessor/lua). Do NOT read, list or touch /verif or /repo, and do not look for other people's analyses on this machine; your work must be independent. The sandbox has no network.

The property under test (one record of a fixed property list):

{prop}

YOUR TASK: produce TWO independent seeded changes (call them A and B), each a small source change to the package (files under src/ only -- never tests) that BREAKS this property, such that:
 (a) the package still imports and byte-compiles;
 (b) every test of the pinned suite that passes on the unmodified tree still passes with the change. Check with:  /venv/bin/python /tmp/seed/baseline_check.py {wt}   -- it must report "0 regressed" (about 20 s). NOTE: the installed package normally resolves to another checkout, so whenever you run Python against your worktree you MUST set PYTHONPATH={wt}/src ;
 (c) the breakage needs something SPECIFIC to manifest -- a particular interleaving, a crash or fault at a particular point, a multi-step sequence of operations, an unusual input, a particular configuration/option combination, or two cooperating sites that each look fine alone -- NOT something ordinary use would expose at once;
 (d) it looks like something a maintainer could plausibly commit: a refactoring, optimisation, "clean-up", or well-meant bug fix that is subtly wrong. No comments announcing the defect, no dead code, no special-casing of magic values.
A and B must use different mechanisms / different sites. Each is a separate patch against the CLEAN tree (not stacked).
{focus}
Environment facts: use /venv/bin/python (3.12; has the project's dependencies, pytest, lupa). All Lua-executing tests fail offline because the Scribunto 'ustring' library is absent; if your demonstration needs to run a Lua module, add to the page store a page titled "Module:ustring:ustring" (namespace id 828, model "Scribunto") with body `local s=string return {{upper=s.upper, lower=s.lower, find=s.find, gsub=s.gsub, match=s.match, sub=s.sub, len=s.len, gmatch=s.gmatch, format=s.format, rep=s.rep, byte=s.byte, char=s.char}}` before the first #invoke -- then the sandbox works end to end. Typical usage: `from wikitextprocessor import Wtp; ctx = Wtp(); ctx.start_page("Tt"); ctx.add_page("Template:foo", 10, "body"); ctx.expand("{{{{foo}}}}"); ctx.parse("...")`; ctx.add_page("Module:m", 828, "local p={{}} function p.f(frame) return 'x' end return p", model="Scribunto").

DELIVERABLES (create the directory {wt}/SEED):
  {wt}/SEED/A/patch.diff   -- `git diff` of the change (src/ only), applicable to the clean tree with `git apply`
  {wt}/SEED/A/demo.py      -- a small self-contained program, run as `PYTHONPATH=<checkout>/src /venv/bin/python demo.py`; it must exit 0 (and print OK) on the UNMODIFIED code and exit non-zero, printing what went wrong, WITH the patch applied. Deterministic, finishes within 60 s, writes only under a fresh tempfile.mkdtemp() directory that it removes.
  {wt}/SEED/A/meta.json    -- {{"property": "{pid}", "summary": "...", "files_changed": [...], "needs_to_manifest": "...", "how_verified": "..."}}
  and the same three files under {wt}/SEED/B/.
VERIFY BOTH WAYS YOURSELF for each seed: on the clean tree (git -C {wt} checkout -- src) demo.py exits 0; with the patch applied demo.py exits non-zero and baseline_check reports 0 regressed. Do not use `git stash` (the repository is shared between worktrees). When finished, leave the worktree's src CLEAN with only the untracked SEED/ directory added. Do not commit anything.

Your final message: for A and for B one short paragraph each -- what you changed, what is needed to manifest it, and the verification results.'''


def main():
    focus = ""
    if "--focus" in sys.argv:
        focus = "\n" + sys.argv[sys.argv.index("--focus") + 1] + "\n"
    os.makedirs("/tmp/seed/prompts", exist_ok=True)
    shutil.copy("/verif/tools/baseline_check.py", "/tmp/seed/baseline_check.py")
    for line in open("/verif/properties.jsonl"):
        p = json.loads(line)
        pid = p["id"]
        wt = "/tmp/seed/" + pid
        if not os.path.exists(wt):
            subprocess.run(["git", "-C", "/repo", "worktree", "add", "--detach", "-q", wt, "HEAD"], check=True)
        with open("/tmp/seed/prompts/{}.txt".format(pid), "w") as f:
            f.write(BASE.format(wt=wt, pid=pid, prop=json.dumps(p, indent=1, ensure_ascii=False), focus=focus))
    print("prepared", len(os.listdir("/tmp/seed/prompts")), "prompts")


main()
