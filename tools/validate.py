#!/usr/bin/env python3-vt
"""Validate MANIFEST.json and every evidence/*.json against the harness schemas (run with python3-vt)."""
import glob, json, sys
import jsonschema
ok = True
man = json.load(open("/verif/MANIFEST.json"))
try:
    jsonschema.validate(man, json.load(open("/root/.vp/MANIFEST.schema.json")))
    print("MANIFEST ok: %d checks, %d n/a" % (len(man["checks"]), len(man.get("not_applicable", []))))
except jsonschema.ValidationError as e:
    ok = False; print("MANIFEST INVALID:", e.message)
es = json.load(open("/root/.vp/EVIDENCE.schema.json"))
for p in sorted(glob.glob("/verif/evidence/*.json")):
    try:
        jsonschema.validate(json.load(open(p)), es)
    except jsonschema.ValidationError as e:
        ok = False; print("EVIDENCE INVALID", p, e.message)
print("evidence files checked:", len(glob.glob("/verif/evidence/*.json")))
sys.exit(0 if ok else 1)
