#!/venv/bin/python
"""Regenerates /verif/MANIFEST.json from the table below and validates it
against /root/.vp/MANIFEST.schema.json.  Properties whose checker module does
not exist yet are listed under not_applicable ("not built yet")."""
import json
import os
import sys

HERE = os.path.dirname(os.path.dirname(os.path.abspath(__file__)))
PY = "/venv/bin/python"

# property -> (technique, level text, level note, design ref)
CHECKS = {
    "C01": (
        "regex language inclusion (tokenizer vs tag handler) + typestate/flow walk over parser handlers",
        "Decides eleven necessary conditions of parse() totality and tree well-formedness for all inputs: every tokenizer tag token is accepted by tag_fn's regexes (language inclusion), no token alternative is nullable, heading tables agree, numeric conversions on the parse path are soundly guarded, children and attribute text are finalised before they are moved into argument fields, raw stack pops are paired with removal from the parent, parser state is reset per parse, row/cell/caption/list-item pushes happen only with the required parent on top (set-valued typestate), no loop around _parser_pop can pop ROOT, entries of the parameter defaultdict stay lists, constant indexes into a node's largs/children are guarded, cookie finalisation iterates to a fixed point and the parser never resets the cookie table. Does not decide totality in general. Token handlers close begin-of-line lists before they open a node (inferred from 13 conforming handlers, frozen with three reasoned exceptions). No memoised function returns per-page encoded text; the serialiser the parser calls is only handed fields that are set. The link-trail pattern cannot consume a placeholder character (language inclusion); every namespace prefix ends with its separator. int() after isdecimal() needs a length bound (CPython's 4300-digit limit; one recorded site).",
        "Trusts Python's re semantics as modelled by the regex toolkit; handlers reached only through tokenops/process_text dispatch.",
        "DESIGN.md §3 C01",
    ),
    "C02": (
        "decision-skeleton evaluation over NodeKind x level",
        "Evaluates the extracted stop predicates of subtitle_start_fn (loop condition included) and hline_fn over all 27 node kinds x 6 levels against the nesting rule of the statement, plus same-line/same-kind matching of heading ends, marker provenance in list_fn, closing of all open lists by non-list content at the beginning of a line, the universal (every position) form of the open-marker comparison, and per-parse reset / balanced management of the beginning-of-line state. Thin: 'exactly one node per line' and marker values are not decided. The list-closing pop count is not taken from a top-down first-match scan; the marker-prefix test admits every shorter prefix.",
        "The statement's nesting rule is the oracle; tables are recovered by constant folding, not by importing the package.",
        "DESIGN.md §3 C02",
    ),
    "C03": (
        "typestate on parser stack + table/registry agreement",
        "Placement typestate shared with C01 (rows only under tables, cells only under rows), allowed-tag table consumable by the tokenizer, cookie-kind exhaustiveness across producers and consumers, full-match inclusion of the attribute grammar over the URL-safe alphabet, agreement of the sibling arms of magic_fn, attribute names/values stored as written, || continuing the kind of the row's last cell, derived tag tables computed after the last update of the allowed-tag table, beginning-of-line state counted and reset. Thin: r x c shape, cell content and valueless attributes are not decided. The kind of the cell opened by || is not decided from the whole parser stack.",
        "As C01.",
        "DESIGN.md §3 C03",
    ),
    "C04": (
        "must-pass-through and def-use on the template expansion path",
        "Decides seven narrow clauses: automatic newline not bypassed, includable part computed at ingestion, positional values untrimmed / named trimmed / later duplicates win, body pipeline order stored body->preprocess->encode->substitute->expand with the new parent frame, conditional functions trim their results, missing template -> link and undefined parameter -> literal, #switch fall-through flags are latches and every keyed entry reaches the match test, shortcuts in front of the includable-part pipeline are implied by the step patterns (regex inclusion). Thin: equality with MediaWiki output is not decidable statically. The argument map is filled in one pass over the call's arguments in the order written. Argument names reach the argument map and the lookup in one normal form (white space collapsed and stripped, or an integer index) on every path. The noinclude removal matches exactly a <noinclude>..</noinclude> section (inclusion); the onlyinclude bodies are all joined (read structurally). The loop detector answers True only under a repetition test.",
        "Def-use is intra-procedural over the anchored closures.",
        "DESIGN.md §3 C04",
    ),
    "C05": (
        "may-raise analysis over the parser-function registry + recursion-guard dominance",
        "For every registered parser function and the expansion closure: constant argument indexes are guarded, numeric conversions are soundly guarded, #expr arithmetic applications are under handlers covering the operator tables' exceptions, data-table subscripts are guarded or present in every shipped data file, tables read by SQL exist, recursion/loop guards dominate the recursive calls with a bounded depth constant, input-sized work is clamped, every call-graph cycle on the expansion path is depth-guarded or an enumerated structural recursion (frame-hungry ones under a RecursionError handler), constructor helpers assign the same context attributes on every path. Does not decide termination in general. The template-loop detector enumerates candidate periods; new recursive groups are accepted only with a size-change argument (every cycle descends into a part of a parameter). The expansion path the recursion guards read is never rebound during a page. No negative verdict is returned from inside the enumeration of periods on a content-dependent test. File-system calls on paths made from page text are under an OSError handler; Optional datetime results are dereferenced only after a None test; isdecimal()-guarded int() needs a length bound (eleven recorded sites).",
        "Frozen exception table for math/builtin callables; network-backed functions excluded by name.",
        "DESIGN.md §3 C05",
    ),
    "C06": (
        "capability reachability on Lua AST + bridge-object kinds on Python AST",
        "Static object-graph reachability from the module environment: origins of every env key, module cache contents reachable through require, sandbox-defined functions forwarding caller data to denied primitives, loader path confinement, kinds of Python objects handed across the bridge, LuaRuntime options, no missing context attribute (AttributeError.obj would expose the context). Replaces the live object graph by the static one the host hands in. The loader's sanitiser is interpreted step by step including str.translate tables (a deletion voids the facts established before it). A Python container converted for Lua without recursive=True holds no live Python container (value kinds from displays, stores, comprehensions and return annotations).",
        "Lua 5.1 preloaded library names and lupa attribute semantics are frozen knowledge; values created by Lua code at run time are outside the static graph.",
        "DESIGN.md §3 C06",
    ),
    "C07": (
        "capability reachability (hook control, error-catching primitives) + cross-language constants",
        "Decides whether a module can defeat the time limit: hook-control functions not reachable from the environment, error-catching primitives re-raise the timeout marker, the limit is armed before both pcall sites, the Python side tests the same marker string and leaves the context usable, the limit is bounded and freshly armed, the module cache receives only results of completed initialisation chunks (nothing a timeout could leave behind), the limit of an invocation is the parameter of the enclosing expand() call, never stored state, the timeout marker is probed position-independently in the whole error text, and a nested invocation neither removes nor restarts the hook of the enclosing one. Does not bound wall time. The stacks the Lua side holds by identity are never rebound. On the Python side of a nested invocation the Lua stacks are cut back to their entry length and the time-limit error is passed on to the enclosing invocation; the stacks are emptied only by the per-page reset.",
        "Timeout is delivered by error() from a count hook as in the shipped sources.",
        "DESIGN.md §3 C07",
    ),
    "C08": (
        "cross-language layout agreement + def-use provenance",
        "Tuple layout (value, is_named) built in make_frame agrees with the indexes read by frame_args_index; provenance of the four frames of reference in call_lua_sandbox, including that preprocess/expandTemplate only return constants, the heading strip-marker form or the result of expansion in the calling page context; named-argument detection and positional numbering agree with the expander; expandTemplate/callParserFunction pass arguments structurally; absence of an argument is tested with `is None`; frame and environment stacks are popped after every invocation. Thin: the metamorphic equivalences themselves are not decided. make_frame fills the argument table in one pass in call order; expandTemplate's vector is the title followed by key=value texts. The frame methods expand on every call, never from a table of earlier results (shared with C13.R9).",
        "Lua front end resolves locals/upvalues of the shipped sandbox files only.",
        "DESIGN.md §3 C08",
    ),
    "C09": (
        "effect/alias analysis over context attributes and module-level mutables; Lua cache reachability",
        "Every context attribute mutated on the expand/parse path is re-initialised per page or per parse; no module-level or default-argument mutable object is mutated through an instance, including inner objects reached through one-level copies; class-body mutables are not mutated through instances; attributes whose object the Lua runtime captured are never rebound; Lua-side caches are emptied by a reset function; memoised functions have no per-page effects; Lua reset and clone are on the invocation path; what survives the Lua reset and what shared tables are writable from a module. Decides which state can carry over, not equality of results.",
        "Attribute effects are collected syntactically over the package with receivers named self/ctx/wtp.",
        "DESIGN.md §3 C09",
    ),
    "C10": (
        "SQL fact extraction + flow walk (memo invalidation after writers)",
        "Memoised readers of table pages are invalidated after every writer on every normal path, the upsert updates every non-key column from excluded.* unconditionally, column lists align with bound tuples and with Page(...) construction, every lookup helper goes through get_page, commits precede close/backup, writer and reader agree on the stored key form, no case-altering call on titles beyond the first letter, the namespace tables are indexed with keys of their own key space (canonical vs local names, checked against the shipped data), objects handed out by the memoised lookup are never modified, writer and reader apply the same normalising operations, every writer of the table maintains the same in-memory mirrors, closing a context deletes no shared file, every memoised function that reaches a SELECT on pages is invalidated by every writer, namespace prefixes are lower-cased when asked, and `_` is replaced before the title meets a prefix test or the lookup. Does not decide the title-spelling matrix. Context attributes filled from looked-up pages are invalidated by every writer of the table. add_page skips the write only when every upserted column is compared as unchanged. No shipped namespace name or alias contains an underscore; every prefix namespace_prefixes returns ends with its separator.",
        "SQL is recovered from string constants reaching execute/executescript.",
        "DESIGN.md §3 C10",
    ),
    "C11": (
        "file-protocol typestate on symbolic paths",
        "Publication protocol of the database files: the backup becomes visible under its final name only by an atomic rename of a finished copy, restore removes the old -wal/-shm before the backup is renamed into place and before opening, the backup is never deleted before it is moved, backup precedes overwrite on both override arms, commit precedes copy and the copy goes through SQLite (the database is in WAL mode). A kill at any point leaves exactly the files whose creating call started, so the protocol decides crash-safety up to SQLite's own atomic commit. The side files the restore removes cover the journal mode the schema script selects; the backup's name is pure path arithmetic.",
        "SQLite's atomic commit and os.replace atomicity are trusted.",
        "DESIGN.md §3 C11",
    ),
    "C12": (
        "decision-skeleton of the ingestion filter + def-use + SQL alignment",
        "The two skip conditions of parse_dump_xml evaluated over all valuations of their atoms against the statement, no transformation of title/text/model/redirect on the way to add_page, insert alignment, complete unconditional replacement of a re-added title, the four default templates added only when absent (absence = no row), the includable-part pipeline of stored templates, no rollback scope between ingestion and the first commit, no state in objects shared between contexts.",
        "Redirects of other content models are reported but not judged (statement is silent).",
        "DESIGN.md §3 C12",
    ),
    "C13": (
        "truth-table evaluation of the selection function + writer/reader agreement",
        "check_template_need_expand evaluated on all consistent valuations against the statement; every exit of the template branch is an expansion, an error element or a re-emission of the call with all its arguments in order, and the re-emitting exits are stack-balanced; hook call discipline; formatter delimiters agree with the encoder's bracket regexes; flags written earlier are visible to the selection function (memo invalidation); re-emitted parser-function calls keep the name as written. No expansion entry point is memoised (decorator or hand-written result table): hooks see every expanded call. Name canonicalisation never maps a template name onto a registered magic variable.",
        "Character-level identity of re-emitted text is not decided.",
        "DESIGN.md §3 C13",
    ),
    "C14": (
        "sibling agreement of three argument-map builders + Lua AST shape of the key chain",
        "Integer-key predicate, notion of 'named' (regex class algebra over a stated plain-text alphabet), trimming and stepping of the positional counter (by one, on the positional path only) agree between TemplateNode.template_parameters, the expander and make_frame; on the Lua side a key is looked up as given before its numeric form and the iteration chain holds every delivered key exactly once. frame:preprocess hands its text to the expander unaltered.",
        "Stated plain-text alphabet; values are not compared.",
        "DESIGN.md §3 C14",
    ),
    "C15": (
        "event order (protect before encode) + constant evaluation of the entity table",
        "preprocess_text precedes _encode at every encode site, N cookies are inert in every consumer and quoted exactly once, the nowiki entity table round-trips through html.unescape, preprocess patterns and order, the cookie table is append-only between start_page calls, no memoised function allocates cookies, cookies are decoded only by the final consumers, and no cookie-bearing text is stored into objects owned by the page-lookup memo.",
        "Does not decide that no other consumer re-interprets protected text.",
        "DESIGN.md §3 C15",
    ),
    "C16": (
        "path-sensitive push/pop balance (structured flow walk)",
        "For every function that pushes or pops the expansion path, on every path to every return and around every loop iteration the net change is zero (closures summarised, snapshot/restore idiom modelled, every except handler around a call that reaches a push treated as a catch boundary that must restore the path); only __init__/start_page assign the path; the five recorders build complete ErrorMessageData records from self and start_page resets the lists; counters incremented and decremented in one function are balanced on every path (package-wide lint with a built-in positive example). Holds for all inputs and option combinations because it is a statement about all syntactic paths. A handler that swallows an exception from a user hook (which may re-enter expand()) is a catch boundary as well.",
        "User callbacks do not touch expand_stack; exceptions escaping expand()/parse() are outside the property.",
        "DESIGN.md §3 C16",
    ),
    "C17": (
        "dominance on the work-list loop + SQL facts",
        "Every push onto the analysis work list is dominated by a fresh read, the need_pre_expand skip test and the marking write (termination on cycles); propagation direction of included_map; both redirect UPDATEs present and committed; memo invalidation of the writes; the marking UPDATE selects by key columns only; in-memory mirrors of the marking are maintained by every writer; the lookup finds every stored title. The classifier loop scans get_all_pages restricted by nothing but the namespace and skips no page. The redirect-propagation statements carry no filter beyond join, namespace, marked and not-yet-marked. No expression reaching the need_pre_expand column can be None. The marking statement marks the page it was asked to mark.",
        "Exactness of the marked closure is graph-shaped runtime data and is not decided.",
        "DESIGN.md §3 C17",
    ),
    "C18": (
        "table agreement with the documented precedence ladder + mypy comparison-overlap + data cross-check",
        "The #expr ladder and the table used at each level agree with the documented precedence, left folding; no str/int comparison in registered functions (quick: annotation-driven AST rule; thorough: mypy strict equality); formatnum and formatnum|R are inverse by statement order for every shipped locale, and the locale data is used as loaded. Values of the string functions are not decided. #explode resolves a negative position against a piece count that depends on the limit (information flow). Slice bounds computed from signed arguments are provably non-negative (path-sensitive integer bounds); the name:argument text is only stripped of modifiers before the split. No truthiness default replaces a localisation value that a shipped locale defines as empty on purpose (decided from data/*/localization.json). Every #expr comparison operator applies exactly the comparison its key names (no tolerance). wikiurlencode returns only quoted text.",
        "Documented precedence table frozen in the checker; values of string functions not decided.",
        "DESIGN.md §3 C18",
    ),
    "C19": (
        "exhaustiveness + writer/reader delimiter agreement + flow walk over emitter arms",
        "to_wikitext handles every NodeKind; each opening literal it writes is a token that opens that kind in the parser; heading tables are inverse; [[ and ]] are both protected; attribute values are quoted; a parser function keeps its colon whenever it has an argument list; on every path through every emitter the node's content field (children / largs) is written out whenever it may be non-empty; every attribute line the emitter can write is accepted by the table parser (regex inclusion); serialiser counters are balanced; `<tag />` closes the element in the parser; the text between a cell's attributes and its content is the token table_cell_fn splits at; serialised content is written out unaltered. Bare start tags are written only for tags the parser closes by itself (constant folder over the tag table); Optional fields are serialised only when set; content fields the parser fills besides children/largs are written out. For every tag the emitter writes as `<tag />`, the parser's closing test folds to true with the trailing-slash flag set. Emitters written in the return-per-arm form are read through an accumulator-form normalisation. node_to_wikitext passes every input on to to_wikitext.",
        "Tree equivalence after re-parse is not decided.",
        "DESIGN.md §3 C19",
    ),
    "C20": (
        "effect analysis on the worker path (guarded/committed writes, transaction scopes, file deletions) + check-then-act pattern",
        "Statements reachable from worker entry points that write table pages are guarded by an effective absence test of the same key and committed on every path; no unlocked check-then-act on a shared path at start-up; no transaction scope spans a read and a later write; schema creation is idempotent; database files are deleted only for private temp-dir databases; the busy timeout is never lowered. Thin: interleavings are not enumerated. add_page writes with one atomic upsert (shared with C10.R2).",
        "Worker entry points are the constructor, start_page, expand, parse, node_to_*.",
        "DESIGN.md §3 C20",
    ),
}



# clauses added after seeding round 10 (appended to the level text)
ROUND10 = {
    "C01": " Also: the placeholder allocation is preceded by an exit for every index >= MAX_MAGICS (limit test folded at the boundary).",
    "C02": " Also: line-start handling is re-enabled only when the outermost disable scope ends (counter test folded for 0..3); a single-index marker comparison is a violation.",
    "C04": " Also: the store of an argument and the lookup of a reference use the same integer-key predicate.",
    "C05": " Also: the loop detector skips a candidate period only on account of one fixed position, never under a test quantifying over the whole candidate.",
    "C06": " Also: inside _bind the bound values (taint closure) are used only as arguments of the wrapped call, so no exception object can carry the context to Lua.",
    "C08": " Also: no iteration of make_frame's argument loop is abandoned before its store (duplicate keys: last wins, as in the template call).",
    "C09": " Also: both Lua stacks are cut back to their entry length after every invocation, failed ones included (shared with C07.R10a).",
    "C14": " The integer-key predicate is also extracted from the inline try/int() form.",
    "C15": " Also: a fast-path guard in front of a substitution step must occur in every match of the step's pattern under the pattern's case rules.",
    "C18": " Also: a try with a fall-through handler converts at most one argument (optional numeric arguments default independently).",
    "C19": " Also: a colon guard that looks at argument content is a violation; the re-parse starts from a reset parser state (shared with C01.R7).",
}

def main():
    props = [json.loads(l) for l in open(os.path.join(HERE, "properties.jsonl"))]
    checks = []
    na = []
    for p in props:
        pid = p["id"]
        modpath = os.path.join(HERE, "sa", "props", pid.lower() + ".py")
        if not os.path.exists(modpath):
            na.append({"property_id": pid, "reason": "checker not built yet (planned, see DESIGN.md §3)"})
            continue
        tech, text, note, ref = CHECKS[pid]
        text = text + ROUND10.get(pid, "")
        checks.append(
            {
                "property_id": pid,
                "quick_cmd": "{} -m sa.check {} --tier quick".format(PY, pid),
                "thorough_cmd": "{} -m sa.check {} --tier thorough".format(PY, pid),
                "evidence_file": "/verif/evidence/{}.json".format(pid),
                "replay_cmd_template": PY + " -m sa.check --replay {path}",
                "engine": "sa",
                "level_claimed": {"category": "other", "text": text, "design_ref": ref},
                "level_note": note,
                "technique": "static analysis: " + tech,
            }
        )
    man = {
        "version": 1,
        "setup_cmd": PY + " -m compileall -q sa",
        "hooks": {
            "guard": "WIKITEXTPROCESSOR_VERIF",
            "enable": "no hooks: the checks are static and read /repo's working tree; the guard variable is read by nothing",
            "baseline_off_cmd": "cd /repo && /venv/bin/python -m pytest -ra -q -p no:cacheprovider --timeout=900 --continue-on-collection-errors",
            "source_commits": [],
            "add_only": True,
        },
        "engines": [
            {
                "name": "sa",
                "path": "/verif/sa",
                "serves_properties": [c["property_id"] for c in checks],
                "kind_free_text": "repository-specific static analysis: Python ast flow walker, constant folder, SQL/regex fact extraction, hand-written Lua 5.1 front end, mypy as a library",
            }
        ],
        "checks": checks,
        "notes": "All checks are static analyses of /repo's current working tree (VERIF_REPO overrides the root for self-tests). Exit 0 = obligations discharged (KNOWN-FINDING lines for recorded defects), 1 = VIOLATION, 2 = ANALYSIS-ERROR (inconclusive, fail closed). Known findings: /verif/known_findings.json.",
        "not_applicable": na,
    }
    out = os.path.join(HERE, "MANIFEST.json")
    with open(out, "w") as f:
        json.dump(man, f, indent=1)
        f.write("\n")
    try:
        sys.path.insert(0, "/opt/veriftools/pyvenv/lib/python3.11/site-packages")
        import jsonschema

        jsonschema.validate(man, json.load(open("/root/.vp/MANIFEST.schema.json")))
        print("MANIFEST.json valid; {} checks, {} not_applicable".format(len(checks), len(na)))
    except ImportError:
        print("jsonschema not importable; wrote MANIFEST.json unvalidated")


main()
