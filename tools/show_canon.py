#!/venv/bin/python
"""Debug aid: print a function of the (scratch) tree as the rules see it after canonicalisation.
usage: VERIF_REPO=/tmp/bt/X tools/show_canon.py core.Wtp.expand.expand_recurse"""
import ast, os, sys
sys.path.insert(0, os.path.join(os.path.dirname(os.path.abspath(__file__)), ".."))
from sa.core.index import Index
ix = Index(os.environ.get("VERIF_REPO"))
for q in sys.argv[1:]:
    print("#", q)
    print(ast.unparse(ix.func(q)))
