#!/usr/bin/env python3
"""Print the seed -> rule rows of DESIGN.md 6.3 from seeded/RESULTS.md (full run).
Usage: tools/seed_rule_table.py [-7 -8 ...]   (round suffix filters)"""
import re, sys, pathlib
rows = []
flt = [a for a in sys.argv[1:]]
for line in pathlib.Path(__file__).resolve().parent.parent.joinpath("seeded/RESULTS.md").read_text().splitlines():
    m = re.match(r"\| (C\d\d-\w+) \| (C\d\d) \| (\w+) \| (.*?) \| (.*?) \|$", line)
    if not m:
        continue
    seed, prop, caught, fired, inc = m.groups()
    if flt and not any(re.search(re.escape(f) + r"[AB]$", seed) for f in flt):
        continue
    rules = dict(p.split(": ") for p in fired.split("; ") if ": " in p)
    if caught == "yes":
        cell = "/".join(r if i == 0 else r.split(".")[1] for i, r in enumerate(rules[prop].split(",")))
    elif rules:
        k = sorted(rules)[0]
        cell = "(" + rules[k].split(",")[0] + ")"
    elif prop in inc:
        cell = "*exit 2*"
    else:
        cell = "*miss*"
    rows.append((seed, cell))
def key(s):
    m = re.match(r"C(\d\d)-(\d*)([AB])", s[0])
    return (int(m.group(2) or 1), int(m.group(1)), m.group(3))
rows.sort(key=key)
for i in range(0, len(rows), 3):
    chunk = rows[i:i+3] + [("", "")] * (3 - len(rows[i:i+3]))
    print("| " + " | ".join(f"{s} | {c}" for s, c in chunk) + " |")
