#!/venv/bin/python
"""Run the repository's pinned test suite in a given checkout and compare with
/root/.vp/BASELINE.json: every test listed in stable_pass must still pass.

usage: baseline_check.py [checkout_dir]     (default /repo)
exit 0 = all stable_pass tests passed; exit 1 otherwise (prints the regressions)
"""
import json, os, subprocess, sys, tempfile
import xml.etree.ElementTree as ET

def main():
    d = os.path.abspath(sys.argv[1] if len(sys.argv) > 1 else "/repo")
    base = json.load(open("/root/.vp/BASELINE.json"))
    want = set(base["stable_pass"])
    fd, xml = tempfile.mkstemp(suffix=".xml"); os.close(fd)
    env = dict(os.environ)
    env["PYTHONPATH"] = os.path.join(d, "src")
    env.pop("WIKITEXTPROCESSOR_VERIF", None)
    p = subprocess.run(
        ["/venv/bin/python", "-m", "pytest", "-q", "-p", "no:cacheprovider",
         "--timeout=900", "--continue-on-collection-errors", "-n", "8",
         "--junitxml=" + xml],
        cwd=d, env=env, stdout=subprocess.PIPE, stderr=subprocess.STDOUT, text=True)
    passed = set()
    try:
        for tc in ET.parse(xml).getroot().iter("testcase"):
            bad = any(ch.tag in ("failure", "error", "skipped") for ch in tc)
            if not bad:
                passed.add(tc.get("classname") + "::" + tc.get("name"))
    finally:
        os.unlink(xml)
    missing = sorted(want - passed)
    print(f"baseline: {len(want)} stable tests, {len(want & passed)} passed, {len(missing)} regressed (checkout {d})")
    for m in missing[:40]:
        print("  REGRESSED", m)
    if missing and len(passed) == 0:
        print(p.stdout[-3000:])
    sys.exit(1 if missing else 0)

main()
