#!/venv/bin/python
"""Repaired-variant check: every `fixed` entry of known_findings.json must be
reported as a VIOLATION (same rule and function) on the pinned original commit
of /repo, and must not be reported on the current tree.  Uses a scratch
worktree outside /repo and /verif that is removed afterwards."""
import json, os, re, subprocess, sys, tempfile

VERIF = "/verif"
PINNED = "84bb8ad"


def run_all(repo, evdir):
    out = {}
    env = dict(os.environ, VERIF_REPO=repo, VERIF_EVIDENCE_DIR=evdir)
    for i in range(1, 21):
        p = "C%02d" % i
        q = subprocess.run(["/venv/bin/python", "-m", "sa.check", p], cwd=VERIF, env=env, capture_output=True, text=True)
        hits = set()
        for m in re.finditer(r"^\s+(C\d\d\.R\d+\w*) \S+ \[([^\]]+)\]", q.stdout, re.M):
            hits.add((m.group(1), m.group(2)))
        out[p] = (q.returncode, hits)
    return out


def main():
    d = json.load(open(os.path.join(VERIF, "known_findings.json")))
    fixed = [(f["rule"], f["key"]["function"], f["commit"]) for f in d["findings"] if f["status"] == "fixed"]
    work = tempfile.mkdtemp(prefix="pinned_")
    wt = os.path.join(work, "wt")
    subprocess.run(["git", "-C", "/repo", "worktree", "add", "--detach", wt, PINNED, "-q"], check=True)
    try:
        old = run_all(wt, os.path.join(work, "ev"))
    finally:
        subprocess.run(["git", "-C", "/repo", "worktree", "remove", "--force", wt])
    new = run_all("/repo", os.path.join(work, "ev2"))
    subprocess.run(["rm", "-rf", work])
    bad = 0
    # mypy-only and grouped entries are matched by rule only
    for rule, fn, commit in fixed:
        p = rule.split(".")[0]
        on_old = any(r == rule and (f == fn or fn.split(".")[-1] in f or f in fn) for r, f in old[p][1]) or any(r == rule for r, f in old[p][1])
        on_new = any(r == rule and f == fn for r, f in new[p][1])
        print("{:8s} {:55s} pinned:{:9s} HEAD:{}".format(rule, fn[:55], "VIOLATION" if on_old else "silent", "VIOLATION" if on_new else "silent"))
        if not on_old or on_new:
            bad += 1
    print("fixed entries: {}, consistent: {}".format(len(fixed), len(fixed) - bad))
    sys.exit(1 if bad else 0)


main()
