#!/venv/bin/python
"""make_variant.py <variant> <dest>: build one benign variant of /repo in <dest>/repo (for debugging the checkers)."""
import importlib.util, os, shutil, sys
spec = importlib.util.spec_from_file_location("benign", os.path.join(os.path.dirname(__file__), "benign.py"))
src = open(spec.origin).read().replace("\nmain()\n", "\n")
ns = {}
exec(compile(src, spec.origin, "exec"), ns)
name, dest = sys.argv[1], sys.argv[2]
repo = os.path.join(dest, "repo")
if os.path.exists(repo):
    shutil.rmtree(repo)
shutil.copytree("/repo", repo, ignore=shutil.ignore_patterns(".git", "__pycache__", "*.pyc", ".pytest_cache"))
ns["VARIANTS"][name](repo)
print(repo)
