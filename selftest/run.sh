#!/bin/sh
# Self-validation of the checkers (never part of a property verdict).
#   1. all 20 quick checks on /repo must exit 0
#   2. benign variants must stay silent (and, with --with-tests, keep the 729 tests green)
#   3. every `fixed` known finding fires on the pinned commit and is silent on HEAD
#   4. seeded changes: table of which rule catches which seed (seeded/RESULTS.md)
# Scratch copies live under /tmp and are removed by each tool.
cd /verif || exit 2
rc=0
for i in 01 02 03 04 05 06 07 08 09 10 11 12 13 14 15 16 17 18 19 20; do
  VERIF_EVIDENCE_DIR=/tmp/selftest_ev /venv/bin/python -m sa.check C$i --tier quick >/dev/null 2>&1 || { echo "C$i does not pass on /repo"; rc=1; }
done
rm -rf /tmp/selftest_ev
/venv/bin/python selftest/benign.py "$@" || rc=1
/venv/bin/python selftest/pinned.py | tail -1 || rc=1
/venv/bin/python tools/run_seeds.py | tail -1
exit $rc
