#!/venv/bin/python
"""Benign variants: behaviour-preserving rewrites of the whole package on which
every check must stay silent (no VIOLATION other than a re-keyed known finding,
no ANALYSIS-ERROR).

  reformat   every .py file is replaced by ast.unparse(ast.parse(src)): comments
             gone, formatting normalised, all line numbers shifted
  rename     every function-local variable (not parameters, globals, nonlocals or
             names that also exist at module level) gets the suffix _rn
  lua_ws     every .lua file: comment-only lines removed, indentation halved,
             a header comment added (line numbers shift)
  reorder    module-level dict displays (PARSER_FUNCTIONS, tokenops, ...) and
             ALLOWED_HTML_TAGS keep content but entries are reversed

Each variant is built in a scratch copy outside /repo and /verif, optionally
validated with the pinned test suite (--with-tests), checked with all 20 quick
checks, and removed.  Never part of a property check's verdict.

usage: benign.py [--with-tests] [variant ...]
"""
import ast
import json
import os
import re
import shutil
import subprocess
import sys
import tempfile

VERIF = "/verif"
PKG = "src/wikitextprocessor"


class Renamer(ast.NodeTransformer):
    def __init__(self, module_names):
        self.module_names = module_names
        self.stack = []

    def _locals_of(self, fn):
        params, stores, declared = set(), set(), set()
        for n in ast.walk(fn):
            if isinstance(n, (ast.FunctionDef, ast.AsyncFunctionDef, ast.Lambda)):
                a = n.args
                for x in a.posonlyargs + a.args + a.kwonlyargs:
                    params.add(x.arg)
                if a.vararg:
                    params.add(a.vararg.arg)
                if a.kwarg:
                    params.add(a.kwarg.arg)
                if not isinstance(n, ast.Lambda) and n is not fn:
                    declared.add(n.name)  # nested def names stay
            elif isinstance(n, (ast.Global, ast.Nonlocal)):
                declared.update(n.names)
            elif isinstance(n, ast.Name) and isinstance(n.ctx, (ast.Store, ast.Del)):
                stores.add(n.id)
            elif isinstance(n, ast.ExceptHandler) and n.name:
                declared.add(n.name)
            elif isinstance(n, (ast.Import, ast.ImportFrom)):
                for al in n.names:
                    declared.add((al.asname or al.name).split(".")[0])
            elif isinstance(n, ast.ClassDef):
                declared.add(n.name)
        return stores - params - declared - self.module_names - {"_", "self", "cls"}

    def visit_FunctionDef(self, node):
        if self.stack:  # nested: handled by the outermost function
            self.generic_visit(node)
            return node
        names = self._locals_of(node)
        self.stack.append(names)
        self.generic_visit(node)
        self.stack.pop()
        return node

    visit_AsyncFunctionDef = visit_FunctionDef

    def visit_Name(self, node):
        if self.stack and node.id in self.stack[0]:
            node.id = node.id + "_rn"
        return node


def variant_reformat(root):
    for dp, dn, fn in os.walk(os.path.join(root, PKG)):
        for f in fn:
            if f.endswith(".py"):
                p = os.path.join(dp, f)
                src = open(p, encoding="utf-8").read()
                open(p, "w", encoding="utf-8").write(ast.unparse(ast.parse(src)) + "\n")


def variant_rename(root):
    for dp, dn, fn in os.walk(os.path.join(root, PKG)):
        for f in fn:
            if f.endswith(".py"):
                p = os.path.join(dp, f)
                tree = ast.parse(open(p, encoding="utf-8").read())
                modnames = set()
                for st in tree.body:
                    for n in ast.walk(st) if not isinstance(st, (ast.FunctionDef, ast.ClassDef)) else [st]:
                        if isinstance(n, ast.Name) and isinstance(n.ctx, ast.Store):
                            modnames.add(n.id)
                        elif isinstance(n, (ast.FunctionDef, ast.ClassDef)):
                            modnames.add(n.name)
                        elif isinstance(n, (ast.Import, ast.ImportFrom)):
                            for al in n.names:
                                modnames.add((al.asname or al.name).split(".")[0])
                tree = Renamer(modnames).visit(tree)
                ast.fix_missing_locations(tree)
                open(p, "w", encoding="utf-8").write(ast.unparse(tree) + "\n")


def variant_lua_ws(root):
    d = os.path.join(root, PKG, "lua")
    for f in os.listdir(d):
        if f.endswith(".lua"):
            p = os.path.join(d, f)
            out = ["-- benign variant: whitespace and comments changed", ""]
            in_long = False
            for line in open(p, encoding="utf-8").read().split("\n"):
                s = line.strip()
                if "--[[" in s or "[[" in s and "]]" not in s:
                    in_long = True
                if in_long:
                    out.append(line)
                    if "]]" in s:
                        in_long = False
                    continue
                if s.startswith("--") and not s.startswith("--[["):
                    continue
                ind = len(line) - len(line.lstrip(" "))
                out.append(" " * (ind // 2) + line.lstrip(" "))
            open(p, "w", encoding="utf-8").write("\n".join(out))


def variant_reorder(root):
    class Rev(ast.NodeTransformer):
        def visit_Module(self, node):
            for st in node.body:
                v = getattr(st, "value", None)
                if isinstance(st, (ast.Assign, ast.AnnAssign)) and isinstance(v, ast.Dict) and len(v.keys) > 3 \
                        and all(isinstance(k, ast.Constant) for k in v.keys):
                    v.keys.reverse()
                    v.values.reverse()
            return node

    for f in ("parserfns.py", "wikihtml.py", "parser.py", "common.py"):
        p = os.path.join(root, PKG, f)
        tree = Rev().visit(ast.parse(open(p, encoding="utf-8").read()))
        open(p, "w", encoding="utf-8").write(ast.unparse(tree) + "\n")


def _edit(root, rel, old, new, count=1):
    p = os.path.join(root, rel)
    s = open(p, encoding="utf-8").read()
    assert s.count(old) >= 1, (rel, old[:40])
    open(p, "w", encoding="utf-8").write(s.replace(old, new, count))


def variant_edits(root):
    """a handful of behaviour-preserving hand edits of the kinds a maintainer makes"""
    pf = PKG + "/parserfns.py"
    # equivalent length guard
    _edit(root, pf, 'arg0: str = args[0] if args else ""\n    arg1: str = args[1] if len(args) >= 2 else ""\n    arg2: str = args[2] if len(args) >= 3 else ""\n    v: str',
          'arg0: str = args[0] if len(args) >= 1 else ""\n    arg1: str = args[1] if len(args) > 1 else ""\n    arg2: str = args[2] if 3 <= len(args) else ""\n    v: str')
    # a new registered parser function written in the accepted idioms
    _edit(root, pf, "# This list should include names of predefined parser functions and",
          'def reverse_fn(\n    ctx: "Wtp", fn_name: str, args: list[str], expander: Callable[[str], str]\n) -> str:\n'
          '    """Implements a hypothetical #reverse parser function."""\n    v = expander(args[0]).strip() if args else ""\n'
          '    w = expander(args[1]).strip() if len(args) > 1 else ""\n'
          '    try:\n        n = int(w)\n    except ValueError:\n        n = 0\n'
          '    return v[::-1] if n == 0 else v\n\n\n# This list should include names of predefined parser functions and')
    _edit(root, pf, '    "#isbn": isbn_fn,\n}', '    "#isbn": isbn_fn,\n    "#reverse": reverse_fn,\n}')
    # a new safe key in the sandbox environment
    _edit(root, PKG + "/lua/_sandbox_phase1.lua", '    env["select"] = _orig_select\n', '    env["select"] = _orig_select\n    env["_orig_select"] = _orig_select\n')
    # push/pop pair of the link branch extracted into a helper closure
    _edit(root, PKG + "/core.py",
          '                        self.expand_stack.append("[[link]]")\n                        new_args = tuple(\n                            expand_recurse(x, parent, expand_all) for x in args\n                        )\n                        self.expand_stack.pop()\n',
          '                        new_args = expand_link_args(args)\n')
    _edit(root, PKG + "/core.py",
          '            # Main code of expand_recurse()\n',
          '            def expand_link_args(largs: Sequence[str]) -> tuple[str, ...]:\n                self.expand_stack.append("[[link]]")\n'
          '                res = tuple(expand_recurse(x, parent, expand_all) for x in largs)\n                self.expand_stack.pop()\n                return res\n\n'
          '            # Main code of expand_recurse()\n')
    # a sound fast path in front of the includable-part pipeline (every step pattern needs a "<")
    _edit(root, PKG + "/core.py",
          '        # Remove all comments\n        text = re.sub(r"(?s)<!--.*?-->", "", text)\n',
          '        if "<" not in text:\n            return text\n        # Remove all comments\n        text = re.sub(r"(?s)<!--.*?-->", "", text)\n')
    # comments, blank lines and a docstring added (line numbers shift)
    _edit(root, PKG + "/parser.py", "def _parser_pop(ctx: \"Wtp\", warn_unclosed: bool) -> None:\n", "\n\n# moved\n\ndef _parser_pop(ctx: \"Wtp\", warn_unclosed: bool) -> None:\n")
    # Lua locals renamed
    p2 = os.path.join(root, PKG, "lua/_sandbox_phase2.lua")
    t = open(p2, encoding="utf-8").read()
    for a, b in (("is_named", "named_flag"), ("mod_env", "menv"), ("initfn", "init_function"), ("nkey", "next_k")):
        t = re.sub(r"\b%s\b" % a, b, t)
    open(p2, "w", encoding="utf-8").write(t)
    p1 = os.path.join(root, PKG, "lua/_sandbox_phase1.lua")
    t = open(p1, encoding="utf-8").read()
    for a, b in (("start_time", "t_start"), ("cached_mod", "cm"), ("json_str", "js")):
        t = re.sub(r"\b%s\b" % a, b, t)
    open(p1, "w", encoding="utf-8").write(t)


def variant_refactor(root):
    """behaviour-preserving restructurings of the kind the seeding agents used as camouflage"""
    # (a) table-driven emitters for the three brace-delimited kinds
    p = os.path.join(root, PKG, "node_expand.py")
    s = open(p, encoding="utf-8").read()
    old = s[s.index("        elif kind == NodeKind.TEMPLATE:\n"):s.index("        elif kind == NodeKind.URL:\n")]
    new = (
        "        elif kind in CALL_BRACES:\n"
        "            start, end = CALL_BRACES[kind]\n"
        "            args = node.largs\n"
        "            parts.append(start)\n"
        "            if kind == NodeKind.PARSER_FN:\n"
        "                parts.append(recurse(args[0]))\n"
        "                if len(args) > 1:\n"
        "                    parts.append(\":\")\n"
        "                args = args[1:]\n"
        "            parts.append(\"|\".join(map(recurse, args)))\n"
        "            parts.append(end)\n"
    )
    s = s.replace(old, new)
    s = s.replace("def to_attrs(node: WikiNode) -> str:",
                  "CALL_BRACES: dict[NodeKind, tuple[str, str]] = {\n    NodeKind.TEMPLATE: (\"{{\", \"}}\"),\n"
                  "    NodeKind.TEMPLATE_ARG: (\"{{{\", \"}}}\"),\n    NodeKind.PARSER_FN: (\"{{\", \"}}\"),\n}\n\n\n"
                  "def to_attrs(node: WikiNode) -> str:", 1)
    open(p, "w", encoding="utf-8").write(s)
    # (b) table-driven path sanitiser, same order of steps
    _edit(root, PKG + "/luaexec.py",
          '        path = re.sub(r"//+", "/", path)  # Replace multiple slashes by one\n'
          '        path = re.sub(r"\\.\\.+", ".", path)  # Replace .. and longer by .\n'
          '        path = re.sub(r"^/+", "", path)  # Remove initial slashes\n',
          '        for pattern, repl in MODULE_PATH_CLEANUPS:\n            path = pattern.sub(repl, path)\n')
    _edit(root, PKG + "/luaexec.py", "def _bind(fn: Callable, *bound: Any) -> Callable:",
          'MODULE_PATH_CLEANUPS: list[tuple[re.Pattern, str]] = [\n    (re.compile(r"//+"), "/"),\n    (re.compile(r"\\.\\.+"), "."),\n'
          '    (re.compile(r"^/+"), ""),\n]\n\n\ndef _bind(fn: Callable, *bound: Any) -> Callable:')
    # (c) the chained form of two replacements
    _edit(root, PKG + "/luaexec.py", '        path = path.replace(":", "/")\n        path = path.replace(" ", "_")\n',
          '        path = path.replace(":", "/").replace(" ", "_")\n')
    # (e) a push/pop pair of the expansion path turned into an exception-safe context manager
    _edit(root, PKG + "/luaexec.py",
          '                ctx.expand_stack.append("frame:preprocess()")\n                ret = expand_all_templates(v)\n                ctx.expand_stack.pop()\n                return ret\n',
          '                with expansion_frame(ctx, "frame:preprocess()"):\n                    ret = expand_all_templates(v)\n                return ret\n')
    _edit(root, PKG + "/luaexec.py", "def _bind(fn: Callable, *bound: Any) -> Callable:",
          '@contextmanager\ndef expansion_frame(ctx: "Wtp", label: str) -> Iterator[None]:\n    ctx.expand_stack.append(label)\n    try:\n        yield\n'
          '    finally:\n        ctx.expand_stack.pop()\n\n\ndef _bind(fn: Callable, *bound: Any) -> Callable:')
    _edit(root, PKG + "/luaexec.py", "from collections import deque\n", "from collections import deque\nfrom collections.abc import Iterator\nfrom contextlib import contextmanager\n")
    # (d) marking statement written with named placeholders is still keyed by title only
    _edit(root, PKG + "/core.py", '"UPDATE pages SET need_pre_expand = 1 WHERE title = ?", (name,)',
          '"UPDATE pages SET need_pre_expand = 1 WHERE title = ?",\n            (name,),')


VARIANTS = {"reformat": variant_reformat, "rename": variant_rename, "lua_ws": variant_lua_ws, "reorder": variant_reorder, "refactor": variant_refactor,
            "edits": variant_edits}


def known_pairs():
    d = json.load(open(os.path.join(VERIF, "known_findings.json")))
    return {(f["rule"], f["key"]["function"]) for f in d["findings"] if f["status"] == "known"}


def main():
    args = sys.argv[1:]
    with_tests = "--with-tests" in args
    names = [a for a in args if not a.startswith("--")] or list(VARIANTS)
    kp = known_pairs()
    props = ["C%02d" % i for i in range(1, 21)]
    overall = 0
    for name in names:
        work = tempfile.mkdtemp(prefix="benign_")
        try:
            repo = os.path.join(work, "repo")
            shutil.copytree("/repo", repo, ignore=shutil.ignore_patterns(".git", "__pycache__", "*.pyc", ".pytest_cache"))
            VARIANTS[name](repo)
            r = subprocess.run(["/venv/bin/python", "-m", "compileall", "-q", os.path.join(repo, "src")], capture_output=True, text=True)
            status = []
            if r.returncode != 0:
                print(name, "DOES NOT COMPILE", r.stdout[-300:])
                overall = 1
                continue
            if with_tests:
                t = subprocess.run(["/venv/bin/python", os.path.join(VERIF, "tools/baseline_check.py"), repo], capture_output=True, text=True)
                status.append("tests: " + t.stdout.strip().split("\n")[0])
                if t.returncode != 0:
                    print(name, "VARIANT IS NOT BENIGN (tests regress):", t.stdout[-400:])
                    overall = 1
                    continue
            env = dict(os.environ, VERIF_REPO=repo, VERIF_EVIDENCE_DIR=os.path.join(work, "ev"))
            bad = []
            for p in props:
                q = subprocess.run(["/venv/bin/python", "-m", "sa.check", p], cwd=VERIF, env=env, capture_output=True, text=True)
                if q.returncode == 2:
                    bad.append((p, "ANALYSIS-ERROR", [l for l in q.stdout.splitlines() if "ANALYSIS-ERROR" in l][:2]))
                elif q.returncode == 1:
                    alarms = []
                    for m in re.finditer(r"^\s+(C\d\d\.R\d+\w*) \S+ \[([^\]]+)\] (.*)$", q.stdout, re.M):
                        if (m.group(1), m.group(2)) not in kp:
                            alarms.append("{} [{}] {}".format(m.group(1), m.group(2), m.group(3)[:110]))
                    if alarms:
                        bad.append((p, "FALSE ALARM", alarms[:6]))
            print("variant {:9s} {} -> {}".format(name, "; ".join(status), "SILENT" if not bad else "NOT SILENT"))
            for b in bad:
                overall = 1
                print("   ", b[0], b[1])
                for l in b[2]:
                    print("        ", l)
        finally:
            shutil.rmtree(work, ignore_errors=True)
    sys.exit(overall)


if __name__ == "__main__":
    main()
