from wikitextprocessor import Wtp
ctx = Wtp(quiet=True, quiet_output=True)
ctx.add_page("Module:ustring:ustring", 828, "return {upper=string.upper, lower=string.lower}", model="Scribunto")
ctx.add_page("Module:victim", 828, "local e = {}\nfunction e.f(frame) return 'genuine' end\nreturn e", model="Scribunto")
ctx.add_page("Module:attacker", 828, r'''
local e = {}
function e.poison(frame)
  _save_mod("mw_text", setmetatable({POISONED=true}, {__index=function(t,k) return function() return "POISONED-mw.text." .. tostring(k) end end}))
  return "done"
end
function e.check(frame) return tostring(require("mw_text").POISONED) end
return e
''', model="Scribunto")
def run(title, text):
    ctx.start_page(title); return ctx.expand(text)
print("before:", run("A", "{{#invoke:attacker|check}}"))
print("poison:", run("B", "{{#invoke:attacker|poison}}"))
print("next page sees:", run("C", "{{#invoke:attacker|check}}"))
