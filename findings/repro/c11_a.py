# Scenario A: unclean exit after overwrite (WAL left behind), then reopen -> restore from backup
import os, sys, sqlite3
from pathlib import Path
from wikitextprocessor import Wtp
db = Path("/tmp/wtp_repro/c11/a.db")
step = sys.argv[1]
if step == "1":
    ctx = Wtp(db_path=db, quiet=True, quiet_output=True)
    for i in range(300):
        ctx.add_page(f"P{i}", 0, "original %d " % i + "x"*2000)
    ctx.db_conn.commit()
    ctx.backup_db()
    for i in range(300):
        ctx.add_page(f"P{i}", 0, "OVERWRITTEN %d " % i + "y"*2000)
    ctx.add_page("NEW", 0, "post-backup page")
    ctx.db_conn.commit()
    print("files before kill:", sorted(p.name for p in db.parent.iterdir()))
    os._exit(0)   # unclean: no close, WAL not checkpointed
else:
    print("files at reopen:", sorted((p.name, p.stat().st_size) for p in db.parent.iterdir()))
    ctx = Wtp(db_path=db, quiet=True, quiet_output=True)
    try:
        print("integrity:", ctx.db_conn.execute("PRAGMA integrity_check").fetchall()[:3])
        pages = {p.title: p.body[:14] for p in ctx.get_all_pages([0])}
        print("n pages:", len(pages), "P0:", pages.get("P0"), "P299:", pages.get("P299"), "NEW:", pages.get("NEW"))
        print("overwritten survivors:", sum(1 for b in pages.values() if b.startswith("OVERWRITTEN")))
    except Exception as e:
        print("EXC", type(e).__name__, e)
