from wikitextprocessor import Wtp
from wikitextprocessor.core import Page
import re
for lang in ["en","de","fr","hi"]:
    ctx = Wtp(lang_code=lang, quiet=True, quiet_output=True)
    ctx.start_page("Tt")
    for n in ["1234567.891", "1234", "0.5", "1234567"]:
        f = ctx.expand("{{formatnum:%s}}" % n)
        r = ctx.expand("{{formatnum:%s|R}}" % f)
        print(lang, n, "->", repr(f), "-R->", repr(r), "OK" if r == n else "MISMATCH")
    ctx.close_db_conn()

# C12: Main: merge
ctx = Wtp(quiet=True, quiet_output=True)
ctx.add_page("x", 0, "plain x"); ctx.add_page("Main:x", 0, "main-prefixed x")
print("C12:", [(p.title, p.body) for p in ctx.get_all_pages([0])])
# unknown ns id
ctx.add_page("Weird:y", 12345, "b")
print("C12 unknown ns:", [(p.title, p.namespace_id) for p in ctx.get_all_pages([12345])])

# C17: lower-case initial in inclusion
ctx.add_page("Template:Leaf", 10, "==x==")
ctx.add_page("Template:Mid", 10, "{{leaf}}")
ctx.add_page("Template:Top", 10, "{{Mid}}")
ctx.add_page("Template:Top2", 10, "{{Template:Mid}}")
ctx.add_page("Template:Sp", 10, "{{Top_2}}")
def classifier(wtp, page):
    used = set(m.group(1).strip() for m in re.finditer(r"\{\{([^|{}]+)", page.body or ""))
    return used, "==" in (page.body or "")
ctx.analyze_templates(classifier)
print("C17:", sorted((p.title, p.need_pre_expand) for p in ctx.get_all_pages([10])))
# stale memo after analyze
ctx.start_page("Tt")
print("C17 memo: get_page(Top).need_pre_expand =", ctx.get_page("Top", 10).need_pre_expand)
ctx.close_db_conn()
