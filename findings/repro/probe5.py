import sys, time, resource
resource.setrlimit(resource.RLIMIT_AS, (2*1024**3, 2*1024**3))
from wikitextprocessor import Wtp
ctx = Wtp(quiet=True, quiet_output=True)
ctx.start_page("Tt")
t=time.time()
try:
    r = ctx.expand(sys.argv[1])
    print("OK", len(r), round(time.time()-t,2))
except BaseException as e:
    print("EXC", type(e).__name__, str(e)[:80], round(time.time()-t,2))
