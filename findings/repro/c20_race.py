# Two workers open the same db while a backup file is present.  Worker B is delayed
# between `backup_db_path.exists()` and the unlink/rename (a legal schedule).
import os, sys, time, subprocess, sqlite3
from pathlib import Path
base = Path("/tmp/wtp_repro/c20"); db = base / "w.db"
role = sys.argv[1]
if role == "prep":
    for p in base.glob("w*"): p.unlink()
    from wikitextprocessor import Wtp
    ctx = Wtp(db_path=db, quiet=True, quiet_output=True)
    for i in range(50): ctx.add_page(f"P{i}", 0, "orig")
    ctx.db_conn.commit(); ctx.backup_db(); ctx.close_db_conn()
    print("prepared:", sorted(p.name for p in base.iterdir()))
elif role in ("A", "B"):
    if role == "B":
        orig_exists = Path.exists
        def slow_exists(self, *a, **k):
            r = orig_exists(self, *a, **k)
            if self.name.endswith("_backup.db") and r:
                time.sleep(1.5)      # schedule point: B loses the CPU here
            return r
        Path.exists = slow_exists
    from wikitextprocessor import Wtp
    try:
        ctx = Wtp(db_path=db, quiet=True, quiet_output=True)
        n = ctx.saved_page_nums()
        print(role, "opened, pages:", n, flush=True)
        time.sleep(2.5)
        print(role, "later sees pages:", ctx.saved_page_nums(), "P0:", ctx.get_page("P0", 0) is not None, flush=True)
    except BaseException as e:
        print(role, "EXC", type(e).__name__, e, flush=True)
else:
    subprocess.run([sys.executable, __file__, "prep"])
    b = subprocess.Popen([sys.executable, __file__, "B"]); time.sleep(0.7)
    a = subprocess.Popen([sys.executable, __file__, "A"])
    a.wait(); b.wait()
    print("files after:", sorted((p.name, p.stat().st_size) for p in base.iterdir()))
    c = sqlite3.connect(db)
    try: print("fresh open sees pages:", c.execute("select count(*) from pages").fetchone())
    except Exception as e: print("fresh open EXC", e)
