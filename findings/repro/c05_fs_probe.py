"""F28/F29: file-system calls on paths made from page text.
Before cd1d2e8: the first expand raised OSError(36, 'File name too long').
Before 5fb95eb: the second raised ValueError('embedded null byte'); the third gave 'usr/lib/y' on a merged-/usr host."""
from wikitextprocessor import Wtp

ctx = Wtp()
ctx.start_page("Tt")
ctx.add_page("Module:ustring:ustring", 828, "return {}", model="Scribunto")
for t in ["{{#invoke:" + "a" * 5000 + "|f}}", "{{#rel2abs:./a\0b|Help:Foo}}", "{{#rel2abs:../lib/y|Help:Foo}}"]:
    try:
        print(repr(ctx.expand(t))[:90])
    except BaseException as e:  # noqa: BLE001
        print("RAISED", repr(e)[:100])
