import sys, traceback
from wikitextprocessor import Wtp
ctx = Wtp(quiet=True, quiet_output=True)
ctx.add_page("Template:t", 10, "[{{{1}}}]")
def attempt(label, fn):
    try:
        r = fn()
        print(f"OK   {label}: {r!r}"[:200])
    except BaseException as e:
        print(f"EXC  {label}: {type(e).__name__}: {e}"[:200])

# C16: expand_invoke=False leak
ctx.start_page("Tt")
before = list(ctx.expand_stack)
r = ctx.expand("{{#invoke:m|f}}{{#invoke:m|f}}", expand_invoke=False)
print("C16 expand_invoke=False:", r, before, "->", ctx.expand_stack)

# C05 candidates
for t in ["{{#expr: ln 0}}", "{{#expr: exp 1000}}", "{{#expr: 2 round 1.5}}", "{{#expr: 0 ^ -1}}", "{{#expr: acos 2}}",
          "{{#expr: 1e400}}", "{{#expr: ceil(1e400)}}", "{{#expr: 10 ^ 400}}", "{{#rel2abs}}", "{{t|²=x}}", "{{{²}}}",
          "{{padleft:x|²}}", "{{#pos:abc|b|²}}", "{{ns:²}}", "{{#categorytree:x}}", "{{TALKPAGENAME}}", "{{TALKSPACE:Talk:x}}",
          "{{#expr: 1 mod 0.0}}", "{{#expr: 5 mod 0.5}}", "{{#time:Y|@1e400}}", "{{#time:Y|@99999999999999999}}",
          "{{#titleparts:a/b|99999999999999999999|1}}", "{{#expr:1.}}", "{{#expr: not}}", "{{plural:1|one|many}}", "{{#language}}",
          "{{#language:xx-nope}}", "{{int:}}", "{{#tag}}", "{{#lst}}", "{{fullurl:w:x}}", "{{#property}}", "{{#pad}}", "{{#pad:x|5|}}", "{{#timel}}",
          "{{#dateformat:99999999999}}", "{{#time:Y|99999999999999}}", "{{#expr: trunc 1e400}}", "{{#expr: floor(0/0)}}", "{{#expr: 1e400 - 1e400}}",
          ]:
    ctx.start_page("Talk:Foo" if "TALK" in t else "Tt")
    attempt(t, lambda: ctx.expand(t))

# C01 candidate
ctx.start_page("Tt")
attempt("parse {{PAGENAME|²=x}}", lambda: ctx.parse("{{PAGENAME|²=x}}"))
attempt("parse </pre>", lambda: ctx.parse("a</pre>b<pre>c"))

# C10 stale memo
ctx.start_page("Tt")
print("C10: before add:", ctx.get_page("Template:new", 10))
ctx.add_page("Template:new", 10, "BODY")
print("C10: after add :", ctx.get_page("Template:new", 10), "exists:", ctx.page_exists("Template:new", 10))
print("C10: via other spelling:", ctx.get_page("template:new", 10))
ctx.add_page("Template:t", 10, "v2")
print("C10: overwrite:", ctx.get_page("Template:t", 10))
ctx.close_db_conn()

# C09 ALLOWED_HTML_TAGS aliasing
from wikitextprocessor.wikihtml import ALLOWED_HTML_TAGS
print("C09: 'foo' in table before:", "foo" in ALLOWED_HTML_TAGS)
c1 = Wtp(quiet=True, quiet_output=True, extension_tags={"foo": {"parents": ["phrasing"], "content": ["phrasing"]}})
c1.close_db_conn()
print("C09: 'foo' in table after other ctx:", "foo" in ALLOWED_HTML_TAGS)
c2 = Wtp(quiet=True, quiet_output=True)
c2.start_page("Tt")
print("C09: fresh ctx parse:", c2.parse("<foo>x</foo>"))
c2.close_db_conn()
