import sys
from functools import partial
from collections import deque
from wikitextprocessor import Wtp
from wikitextprocessor import luaexec
import lupa.lua51 as lupa

ctx = Wtp(quiet=True, quiet_output=True)
ctx.start_page("Tt")
# add a hostile module + minimal stand-ins so phase2 can be loaded w/o Scribunto's ustring
ctx.add_page("Module:ustring:ustring", 828, "return {upper=string.upper, lower=string.lower}", model="Scribunto")
ctx.add_page("Module:evil", 828, r'''
local export = {}
function export.req(frame)
  local out = {}
  for _, n in ipairs({"io","os","python","package","_G","coroutine","debug","string","table","math"}) do
    local ok, m = pcall(require, n)
    out[#out+1] = n .. "=" .. tostring(ok and type(m))
  end
  local okio, io = pcall(require, "io")
  if okio and type(io)=="table" then out[#out+1] = "io.open=" .. tostring(io.open) end
  local okos, os2 = pcall(require, "os")
  if okos and type(os2)=="table" then out[#out+1] = "os.execute=" .. tostring(os2.execute) .. " getenv=" .. tostring(os2.getenv and os2.getenv("HOME")) end
  return table.concat(out, " ")
end
function export.py(frame)
  local out = {}
  for _, n in ipairs({"mw_python_get_page_content","mw_jsondecode_python","_python_append_env","_python_top_env","current_frame_python","mw_decode_python"}) do
    local f = _G[n]
    local ok, a = pcall(function() return f.args end)
    out[#out+1] = n .. ":" .. type(f) .. ":args=" .. tostring(ok and a)
    if ok and a then
      local ok2, c = pcall(function() return a[0] end)
      out[#out+1] = " a0=" .. tostring(ok2 and c)
      if ok2 and c then
         local ok3, d = pcall(function() return c.db_conn end)
         out[#out+1] = " db=" .. tostring(ok3 and d)
         local ok4, t = pcall(function() return c.title end)
         out[#out+1] = " title=" .. tostring(ok4 and t)
      end
    end
  end
  return table.concat(out, "\n")
end
function export.hooks(frame)
  return tostring(_lua_clear_timeout_hook) .. " " .. tostring(_lua_set_timeout) .. " " .. tostring(_lua_reset_env) .. " " .. tostring(_lua_set_python_loader) .. " getfenv=" .. tostring(getfenv) .. " load=" .. tostring(load) .. " loadstring=" .. tostring(loadstring)
end
function export.loop_cleared(frame)
  _lua_clear_timeout_hook()
  local t0 = os.time()
  while os.time() < t0 + 4 do end
  return "survived " .. tostring(os.time()-t0) .. "s with limit 1s"
end
function export.loop_pcall(frame)
  local t0 = os.time()
  local n = 0
  while os.time() < t0 + 4 do
    pcall(function() while true do end end)
    n = n + 1
  end
  return "survived " .. tostring(os.time()-t0) .. "s with limit 1s; caught " .. n
end
function export.frameobj(frame)
  local out = {}
  for k, v in pairs(frame) do out[#out+1] = tostring(k) .. ":" .. type(v) end
  return table.concat(out, " ")
end
return export
''', model="Scribunto")
for fn in ["req", "py", "hooks", "frameobj"]:
    try:
        print(fn, "->", ctx.expand("{{#invoke:evil|%s}}" % fn))
    except BaseException as e:
        print(fn, "EXC", type(e).__name__, e)
import time
for fn in ["loop_cleared", "loop_pcall"]:
    t=time.time()
    try:
        print(fn, "->", ctx.expand("{{#invoke:evil|%s}}" % fn, timeout=1), "wall", round(time.time()-t,1))
    except BaseException as e:
        print(fn, "EXC", type(e).__name__, e)
print("errors:", [e["msg"][:100] for e in ctx.errors][:5])
