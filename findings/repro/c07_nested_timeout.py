"""F27: a loop around frame:preprocess("{{#invoke:...}}") was never stopped by the time limit.
Run as  PYTHONPATH=<checkout>/src /venv/bin/python c07_nested_timeout.py  -- prints the wall time and the result.
Before a36d735: ~6.0 s, 'finished n=... bad=1'.  After: ~2.3 s, the 'Lua timeout error' element."""
import time
from wikitextprocessor import Wtp

STUB = "local s=string return {upper=s.upper, lower=s.lower, find=s.find, gsub=s.gsub, match=s.match, sub=s.sub, len=s.len, gmatch=s.gmatch, format=s.format, rep=s.rep, byte=s.byte, char=s.char}"
MOD = r'''
local p = {}
function p.pre(frame)
  local t0 = os.clock()
  local n, bad, last = 0, 0, ""
  while os.clock() - t0 < 6 do
    local r = frame:preprocess("{{#invoke:m|ok}}")
    n = n + 1
    if r ~= "fine" then bad = bad + 1; last = r end
  end
  return "finished n=" .. n .. " bad=" .. bad .. " last=" .. last
end
function p.ok(frame) return "fine" end
return p
'''
ctx = Wtp()
ctx.start_page("Tt")
ctx.add_page("Module:ustring:ustring", 828, STUB, model="Scribunto")
ctx.add_page("Module:m", 828, MOD, model="Scribunto")
t = time.time()
r = ctx.expand("{{#invoke:m|pre}}", timeout=2)
print(round(time.time() - t, 1), r[:200])
ctx.start_page("Next")
print("next page:", ctx.expand("{{#invoke:m|ok}}"))
