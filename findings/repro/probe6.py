import time
from wikitextprocessor import Wtp
ctx = Wtp(quiet=True, quiet_output=True)
ctx.add_page("Module:ustring:ustring", 828, "return {upper=string.upper, lower=string.lower}", model="Scribunto")
ctx.add_page("Module:m", 828, r'''
local export = {}
function export.ok(frame) return "fine" end
function export.host(frame)
  local ok, m = pcall(require, "/tmp/wtp_repro/hostfs/evil")
  if not ok then return "denied: " .. tostring(m) end
  return m.secret()
end
function export.busy(frame) local s = 0; for i = 1, 3000000 do s = s + i end; return "busy-done" end
return export
''', model="Scribunto")
ctx.add_page("Module:bad", 828, "error('load failure')", model="Scribunto")
ctx.start_page("A")
print("host fs:", ctx.expand("{{#invoke:m|host}}"))
# early-return paths that skip _lua_clear_timeout_hook
print("1:", ctx.expand("{{#invoke:m|nonexistent}}", timeout=1))
time.sleep(2.2)
ctx.start_page("B")
try:
    print("2:", ctx.expand("{{#invoke:m|busy}}"))
except BaseException as e:
    print("2: EXC", type(e).__name__, str(e)[:200])
ctx.start_page("C")
try:
    print("3:", ctx.expand("{{#invoke:m|ok}}"), ctx.expand_stack)
except BaseException as e:
    print("3: EXC", type(e).__name__, str(e)[:200])
