#!/venv/bin/python
"""C04 / F30: a named argument's value has to be trimmed after it was expanded.

MediaWiki reads a named argument with trim(expand(value)) (PPTemplateFrame_Hash::getNamedArgument), and `1=...` is a
named argument as well.  Before F30 the value was trimmed only as written (by the named-argument regex), so white space
at the ends of a nested call's expansion reached the parameter.

run:  PYTHONPATH=<checkout>/src /venv/bin/python c04_named_trim.py   -> exit 0 iff the reference values are returned
"""
import sys

from wikitextprocessor import Wtp

ctx = Wtp()
ctx.start_page("Tt")
ctx.add_page("Template:pad", 10, " b ")
ctx.add_page("Template:t", 10, "[{{{x}}}]")
ctx.add_page("Template:u", 10, "[{{{1}}}]")
cases = [
    ("{{t|x={{pad}}}}", "[b]"),       # named: trimmed after expansion
    ("{{t|x= {{pad}} }}", "[b]"),
    ("{{u|1={{pad}}}}", "[b]"),       # explicitly numbered = named
    ("{{u|{{pad}}}}", "[ b ]"),       # positional: verbatim
    ("{{u| {{pad}} }}", "[  b  ]"),
]
bad = 0
for src, want in cases:
    got = ctx.expand(src)
    if got != want:
        bad += 1
        print("MISMATCH {!r}: got {!r}, reference {!r}".format(src, got, want))
ctx.close_db_conn()
print("OK" if not bad else "{} mismatches".format(bad))
sys.exit(1 if bad else 0)
