from wikitextprocessor import Wtp
ctx = Wtp(quiet=True, quiet_output=True)
ctx.add_page("Module:ustring:ustring", 828, "return {upper=string.upper, lower=string.lower}", model="Scribunto")
ctx.add_page("Module:utilities", 828, r'''
local export = {}
local n = 0
function export.count(frame) n = n + 1; return tostring(n) end
return export
''', model="Scribunto")
ctx.add_page("Module:plain", 828, r'''
local export = {}
local n = 0
function export.count(frame) n = n + 1; return tostring(n) end
function export.setg(frame) leaked_global = "G"; string.extra = "S"; return "set" end
function export.getg(frame) return tostring(leaked_global) .. "/" .. tostring(string.extra) end
function export.poison(frame) getmetatable("").__index.upper = function() return "HACKED" end; return "poisoned" end
function export.up(frame) return string.upper("abc") .. "/" .. ("abc"):upper() end
function export.data(frame) local d = mw.loadData("Module:data"); d.x = (d.x or 0) + 1; return tostring(d.x) end
return export
''', model="Scribunto")
ctx.add_page("Module:data", 828, "return {x=0}", model="Scribunto")
def run(title, text):
    ctx.start_page(title)
    return ctx.expand(text)
print("retained Module:utilities counter across pages:", run("A","{{#invoke:utilities|count}}"), run("B","{{#invoke:utilities|count}}"), run("C","{{#invoke:utilities|count}}"))
print("non-retained Module:plain counter across pages:", run("A","{{#invoke:plain|count}}"), run("B","{{#invoke:plain|count}}"))
print("same page two invocations plain:", run("A","{{#invoke:plain|count}}{{#invoke:plain|count}}"))
print("globals/lib leak:", run("A","{{#invoke:plain|setg}}"), run("B","{{#invoke:plain|getg}}"), "| same page:", run("A","{{#invoke:plain|setg}}{{#invoke:plain|getg}}"))
print("string metatable:", run("A","{{#invoke:plain|up}}"), run("B","{{#invoke:plain|poison}}"), run("C","{{#invoke:plain|up}}"))
print("loadData mutation same page:", run("D","{{#invoke:plain|data}}{{#invoke:plain|data}}"), "next page:", run("E","{{#invoke:plain|data}}"))
print([e["msg"][:80] for e in ctx.errors])
