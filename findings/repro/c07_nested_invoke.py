import time, tempfile, shutil, os, sys
from wikitextprocessor import Wtp
d = tempfile.mkdtemp()
ok = True
def check(name, cond, info=""):
    global ok
    print(("ok  " if cond else "FAIL"), name, info)
    ok = ok and cond
try:
    ctx = Wtp(db_path=os.path.join(d, "db"))
    ctx.add_page("Module:ustring:ustring", 828, "local s=string return {upper=s.upper, lower=s.lower, find=s.find, gsub=s.gsub, match=s.match, sub=s.sub, len=s.len, gmatch=s.gmatch, format=s.format, rep=s.rep, byte=s.byte, char=s.char}", model="Scribunto")
    ctx.add_page("Module:inner", 828, """local p={}
function p.f(frame) return 'in' .. (frame.args[1] or '') end
function p.loop(frame) while true do end end
return p""", model="Scribunto")
    ctx.add_page("Module:outer", 828, """local p={}
function p.busy(frame)
  local r = frame:preprocess('{{#invoke:inner|f}}')
  local t0 = os.time()
  while os.time() - t0 < 6 do end
  return 'nest-escaped ' .. r
end
function p.ok(frame)
  return 'A' .. frame:preprocess('{{#invoke:inner|f|1}}') .. 'B' .. frame:preprocess('{{#invoke:inner|f|2}}') .. 'C'
end
function p.innerloop(frame)
  local r = frame:preprocess('{{#invoke:inner|loop}}')
  return 'after:' .. r
end
function p.repeatnested(frame)
  while true do frame:preprocess('{{#invoke:inner|f}}') end
end
return p""", model="Scribunto")
    ctx.db_conn.commit()
    ctx.start_page("Tt")
    r = ctx.expand("{{#invoke:outer|ok}}", timeout=2); check("nested values", r == "Ain1Bin2C", r)
    t = time.time(); r = ctx.expand("{{#invoke:outer|busy}}", timeout=2); dt = time.time()-t
    check("outer loops after nested -> timeout", "Lua timeout error" in r and dt < 4.5, "%.1fs %s" % (dt, r[:60]))
    r = ctx.expand("{{#invoke:outer|ok}}", timeout=2); check("context usable after timeout", r == "Ain1Bin2C", r)
    t = time.time(); r = ctx.expand("{{#invoke:outer|innerloop}}", timeout=2); dt = time.time()-t
    check("nested loops -> stopped", "Lua timeout error" in r and dt < 5, "%.1fs %s" % (dt, r[:90]))
    ctx.start_page("Next")
    r = ctx.expand("x{{#invoke:inner|f|9}}y", timeout=2); check("next page", r == "xin9y", r)
finally:
    shutil.rmtree(d)
sys.exit(0 if ok else 1)
