# Scenario B: process killed while taking the backup
import os, sys, sqlite3, signal, time, subprocess
from pathlib import Path
db = Path("/tmp/wtp_repro/c11/b.db")
step = sys.argv[1]
from wikitextprocessor import Wtp
if step == "1":
    ctx = Wtp(db_path=db, quiet=True, quiet_output=True)
    for i in range(3000):
        ctx.add_page(f"P{i}", 0, "original %d " % i + "x"*20000)
    ctx.close_db_conn()
elif step == "2":
    ctx = Wtp(db_path=db, quiet=True, quiet_output=True)
    print("READY", flush=True)
    ctx.backup_db()
    print("BACKUP-DONE", flush=True)
    time.sleep(60)
else:
    print("files at reopen:", sorted((p.name, p.stat().st_size) for p in db.parent.iterdir() if p.name.startswith("b")))
    try:
        ctx = Wtp(db_path=db, quiet=True, quiet_output=True)
        print("integrity:", ctx.db_conn.execute("PRAGMA integrity_check").fetchall()[:3])
        print("n pages:", ctx.saved_page_nums())
    except Exception as e:
        print("EXC", type(e).__name__, e)
