"""Shared anchors inside core.Wtp.expand for the expansion properties
(C04, C05, C13, C15, C16)."""

from __future__ import annotations

import ast

from ..core.index import unparse, walk_no_nested
from ..core.report import AnalysisError

CORE = "src/wikitextprocessor/core.py"
EXPAND = "core.Wtp.expand"
RECURSE = "core.Wtp.expand.expand_recurse"
ARGS = "core.Wtp.expand.expand_recurse.expand_args"
PARSERFN = "core.Wtp.expand.expand_recurse.expand_parserfn"


def main_loop(fn: ast.FunctionDef) -> ast.For:
    """the `for m in MAGIC_RE_PATTERN.finditer(coded)` loop of a cookie consumer"""
    loops = [n for n in fn.body if isinstance(n, ast.For) and "MAGIC_RE_PATTERN" in unparse(n.iter)]
    if len(loops) != 1:
        raise AnalysisError("{}: cookie loop not found".format(fn.name))
    return loops[0]


def _chain_has_kind_test(n: ast.If) -> bool:
    while True:
        t = n.test
        if isinstance(t, ast.Compare) and isinstance(t.left, ast.Name) and t.left.id == "kind":
            return True
        if isinstance(t, ast.BoolOp) and all(isinstance(v, ast.Compare) and isinstance(v.left, ast.Name) and v.left.id == "kind" for v in t.values):
            return True
        if len(n.orelse) == 1 and isinstance(n.orelse[0], ast.If):
            n = n.orelse[0]
        else:
            return False


def scopes_of(ctx, node: ast.AST) -> list:
    """statement lists of the functions enclosing `node` (innermost first) and of its module"""
    for m in ctx.index.modules.values():
        if node in m.parents or node is m.tree:
            out = []
            n = node
            if isinstance(n, (ast.FunctionDef, ast.AsyncFunctionDef)):
                out.append(n.body)
            while n in m.parents:
                n = m.parents[n]
                if isinstance(n, (ast.FunctionDef, ast.AsyncFunctionDef)):
                    out.append(n.body)
            out.append(m.tree.body)
            return out
    return []


def kind_arms(loop_or_fn: ast.AST, scopes: list = None, ctx=None) -> dict:
    """{'T': [stmts], ...} for `if kind == 'X': ... elif ...` chains and for
    sequences of `if kind == 'X': ...; continue/return` in a body.  An arm shared by several kinds
    (`elif kind in ("L", "E"):`, `elif kind in link_kinds:` with a table defined in an enclosing scope)
    is specialised per kind (core/special.py); `scopes` are the statement lists in which such tables
    are looked up (innermost first)."""
    from ..core.special import find_table, specialise, table_keys

    arms: dict = {}
    scopes = list(scopes or [])
    if not scopes and ctx is not None:
        scopes = scopes_of(ctx, loop_or_fn)

    def test_kinds(t: ast.AST):
        if isinstance(t, ast.BoolOp) and isinstance(t.op, ast.Or):
            # `kind == "L" or kind == "E"` is `kind in ("L", "E")`
            # a disjunct that does not look at the kind (`nowiki or kind == "N"`) only widens the arm: whenever the kind is
            # one of those tested, the arm is entered
            acc = []
            for v in t.values:
                if not any(isinstance(x, ast.Name) and x.id == "kind" for x in ast.walk(v)):
                    continue
                ks, _ = test_kinds(v)
                if ks is None:
                    return None, False
                acc.extend(k for k in ks if k not in acc)
            return (acc, True) if acc else (None, False)
        if isinstance(t, ast.Compare) and len(t.ops) == 1 and isinstance(t.left, ast.Name) and t.left.id == "kind":
            rhs = t.comparators[0]
            if isinstance(t.ops[0], ast.Eq) and isinstance(rhs, ast.Constant) and isinstance(rhs.value, str):
                return [rhs.value], False
            if isinstance(t.ops[0], ast.In):
                tbl = find_table(rhs.id, scopes) if isinstance(rhs, ast.Name) else rhs
                keys = table_keys(tbl) if tbl is not None else None
                if keys and all(isinstance(k, ast.Constant) and isinstance(k.value, str) for k in keys):
                    return [k.value for k in keys], True
        return None, False

    def visit_if(n: ast.If):
        ks, shared = test_kinds(n.test)
        if ks is not None:
            for k in ks:
                body = specialise(n.body, "kind", repr(k), scopes, same_key=lambda x, k=k: isinstance(x, ast.Constant) and x.value == k) \
                    if (shared or len(ks) > 1) else n.body
                arms.setdefault(k, body)
            if len(n.orelse) == 1 and isinstance(n.orelse[0], ast.If):
                visit_if(n.orelse[0])
            elif n.orelse:
                arms.setdefault("%else", n.orelse)
        elif len(n.orelse) == 1 and isinstance(n.orelse[0], ast.If) and _chain_has_kind_test(n.orelse[0]):
            # a guard arm (`if nowiki: ...`) in front of the kind dispatch of one if/elif chain
            visit_if(n.orelse[0])

    from ..core.special import normalise_get_dispatch

    body = normalise_get_dispatch(loop_or_fn.body, "kind", scopes)
    for st in body:
        if isinstance(st, ast.If):
            visit_if(st)
    return arms


def cookie_replacer(ctx) -> tuple:
    """(dotted name, function node) of the callable that `_finalize_expand` passes to MAGIC_RE_PATTERN.sub(...) -- a
    nested function or a method of the context; found by its role, not by its name"""
    fname = "core.Wtp._finalize_expand"
    fn = ctx.fn(fname)
    subs = [c for c in walk_no_nested(fn) if isinstance(c, ast.Call) and isinstance(c.func, ast.Attribute) and c.func.attr == "sub"
            and "MAGIC_RE" in unparse(c.func.value) and c.args]
    if not subs:
        raise AnalysisError("_finalize_expand: MAGIC_RE_PATTERN.sub(<replacer>, ...) vanished")
    a = subs[0].args[0]
    if isinstance(a, ast.Name):
        dotted = fname + "." + a.id
    elif isinstance(a, ast.Attribute) and isinstance(a.value, ast.Name) and a.value.id == "self":
        dotted = "core.Wtp." + a.attr
    else:
        raise AnalysisError("_finalize_expand: the cookie replacer `{}` is not a nested function or a method".format(unparse(a)))
    return dotted, ctx.fn(dotted)


def expand_shared_arms(node: ast.AST, ctx) -> ast.AST:
    """deep copy of `node` in which every `if/elif kind in TABLE:` arm is replaced by one specialised
    `elif kind == K:` arm per key, so that whole-loop scans see the one-arm-per-kind shape"""
    import copy

    from ..core.special import find_table, specialise, table_keys

    scopes = scopes_of(ctx, node)
    new = copy.deepcopy(node)

    class T(ast.NodeTransformer):
        def visit_If(self, n):
            self.generic_visit(n)
            t = n.test
            if isinstance(t, ast.BoolOp) and isinstance(t.op, ast.Or) and len(t.values) > 1 and all(
                    isinstance(v, ast.Compare) and len(v.ops) == 1 and isinstance(v.ops[0], ast.Eq) and isinstance(v.left, ast.Name)
                    and v.left.id == "kind" and isinstance(v.comparators[0], ast.Constant) for v in t.values):
                t = ast.Compare(left=ast.Name(id="kind", ctx=ast.Load()), ops=[ast.In()],
                                comparators=[ast.Tuple(elts=[v.comparators[0] for v in t.values], ctx=ast.Load())])
            if isinstance(t, ast.Compare) and len(t.ops) == 1 and isinstance(t.ops[0], ast.In) and isinstance(t.left, ast.Name) and t.left.id == "kind":
                rhs = t.comparators[0]
                tbl = find_table(rhs.id, scopes) if isinstance(rhs, ast.Name) else rhs
                keys = table_keys(tbl) if tbl is not None else None
                if keys and all(isinstance(k, ast.Constant) and isinstance(k.value, str) for k in keys):
                    tail = n.orelse
                    for k in reversed(keys):
                        body = specialise(n.body, "kind", repr(k.value), scopes, same_key=lambda x, kv=k.value: isinstance(x, ast.Constant) and x.value == kv)
                        arm = ast.If(test=ast.Compare(left=ast.Name(id="kind", ctx=ast.Load()), ops=[ast.Eq()], comparators=[ast.Constant(value=k.value)]),
                                     body=body or [ast.Pass()], orelse=tail)
                        ast.copy_location(arm, n)
                        ast.fix_missing_locations(arm)
                        tail = [arm]
                    return tail[0]
            return n

    return T().visit(new)


def template_branch(ctx) -> list:
    fn = ctx.fn(RECURSE)
    lp = main_loop(fn)
    arms = kind_arms(lp, ctx=ctx)
    if "T" not in arms:
        raise AnalysisError("expand_recurse: `kind == 'T'` branch not found")
    return arms["T"]


def resolve_name(stmts_before: list, name: str, before_line: int = 10**9):
    """the plain assignment to `name` with the greatest line number below `before_line`
    among the given statements"""
    best = None
    for st in stmts_before:
        for n in ast.walk(st):
            if isinstance(n, ast.Assign) and len(n.targets) == 1 and isinstance(n.targets[0], ast.Name) and n.targets[0].id == name \
                    and n.lineno < before_line:
                if best is None or n.lineno > best.lineno:
                    best = n
    return best.value if best is not None else None


def follow_method_returns(ctx, ret: ast.Return, depth: int = 0) -> list:
    """the return statements that decide the value of `return self.m(a, b)` when m is a method of the context that the
    pinned tree does not have (a helper extracted by a refactoring): m's own returns with its parameters replaced by the
    arguments; otherwise [ret]"""
    import copy

    from ..core import canon

    v = ret.value
    if depth > 2 or not (isinstance(v, ast.Call) and isinstance(v.func, ast.Attribute) and isinstance(v.func.value, ast.Name)
                         and v.func.value.id == "self" and not v.keywords):
        return [ret]
    dotted = "core.Wtp." + v.func.attr
    if not ctx.index.has_func(dotted) or ("Wtp." + v.func.attr) in canon.reference().get("core", {}).get("functions", {}):
        return [ret]
    m = ctx.index.func(dotted)
    params = [a.arg for a in m.args.args[1:]]
    if len(params) != len(v.args):
        return [ret]
    mapping = dict(zip(params, v.args))

    class T(ast.NodeTransformer):
        def visit_Name(self, n):
            if isinstance(n.ctx, ast.Load) and n.id in mapping:
                return copy.deepcopy(mapping[n.id])
            return n

    # single-assignment locals of the helper (`content = args[0]`) are read through
    counts: dict = {}
    for n in walk_no_nested(m):
        if isinstance(n, ast.Name) and isinstance(n.ctx, ast.Store):
            counts[n.id] = counts.get(n.id, 0) + 1
    for n in m.body:
        if isinstance(n, ast.Assign) and len(n.targets) == 1 and isinstance(n.targets[0], ast.Name) and counts.get(n.targets[0].id) == 1 \
                and n.targets[0].id not in mapping:
            mapping[n.targets[0].id] = T().visit(copy.deepcopy(n.value))
    out = []
    for r in walk_no_nested(m):
        if isinstance(r, ast.Return) and r.value is not None:
            r2 = T().visit(copy.deepcopy(r))
            ast.fix_missing_locations(r2)
            out.extend(follow_method_returns(ctx, r2, depth + 1))
    return out or [ret]


def map_fill_sites(scope_nodes: list, map_name: str, parents: dict) -> list:
    """[(store node, enclosing loops innermost first)] for everything that puts entries into the dict `map_name` inside the
    given statements: `m[k] = v`, `m = {k: v for ...}` (the comprehension counts as its own loop), `m.update(...)`,
    `m.setdefault(...)`"""
    out = []
    for root in scope_nodes:
        for n in ast.walk(root):
            store = None
            loops = []
            if isinstance(n, ast.Assign) and any(isinstance(t, ast.Subscript) and isinstance(t.value, ast.Name) and t.value.id == map_name for t in n.targets):
                store = n
            elif isinstance(n, ast.Assign) and any(isinstance(t, ast.Name) and t.id == map_name for t in n.targets) and isinstance(n.value, ast.DictComp):
                store = n
                loops.append(n.value)
            elif isinstance(n, ast.Call) and isinstance(n.func, ast.Attribute) and n.func.attr in ("update", "setdefault") \
                    and isinstance(n.func.value, ast.Name) and n.func.value.id == map_name:
                store = n
            if store is None:
                continue
            x = store
            while x in parents:
                x = parents[x]
                if isinstance(x, (ast.For, ast.While)):
                    loops.append(x)
                if isinstance(x, (ast.FunctionDef, ast.AsyncFunctionDef)):
                    break
            out.append((store, loops))
    return out


def iterates_vector(loop, vector_texts: set) -> bool:
    """does the loop (a `for` statement or a dict comprehension) run over the argument vector itself -- `args[1:]`, possibly
    through map(str, .) / enumerate(.) / list(.) -- rather than over a part or a regrouping of it?"""
    it = loop.iter if isinstance(loop, ast.For) else (loop.generators[0].iter if isinstance(loop, ast.DictComp) and len(loop.generators) == 1 else None)
    while isinstance(it, ast.Call) and isinstance(it.func, ast.Name) and it.func.id in ("map", "enumerate", "list", "tuple", "iter") and it.args:
        it = it.args[1] if it.func.id == "map" and len(it.args) >= 2 else it.args[0]
    return it is not None and unparse(it) in vector_texts


def path_conditions(parents: dict, node: ast.AST) -> list:
    """[(test expression, truth value)] known to hold whenever `node` executes, from the structure around it: enclosing `if`
    arms (test true in the body, false in the else arm; `not x` is unwrapped) and earlier `if T: ...; return/continue/break/
    raise` statements of the enclosing blocks (T false afterwards).  Loops are crossed only for `continue`-style guards of
    the same iteration; the function boundary stops the walk."""
    out = []

    def add(t, truth):
        while isinstance(t, ast.UnaryOp) and isinstance(t.op, ast.Not):
            t, truth = t.operand, not truth
        out.append((t, truth))

    def terminates(block) -> bool:
        return bool(block) and isinstance(block[-1], (ast.Return, ast.Raise, ast.Continue, ast.Break))

    n = node
    while n in parents:
        par = parents[n]
        for fld in ("body", "orelse", "finalbody"):
            blk = getattr(par, fld, None)
            if isinstance(blk, list) and any(x is n for x in blk):
                idx = [i for i, x in enumerate(blk) if x is n][0]
                for st in blk[:idx]:
                    if isinstance(st, ast.If) and not st.orelse and terminates(st.body):
                        add(st.test, False)
                if isinstance(par, ast.If):
                    add(par.test, fld == "body")
        if isinstance(par, (ast.FunctionDef, ast.AsyncFunctionDef)):
            break
        n = par
    return out


def lua_stack_cleanup(fn: ast.FunctionDef, stack: str):
    """How call_lua_sandbox removes its entry from `ctx.<stack>` after the Lua call: ("snapshot", node) for
    `while len(ctx.S) > N: ctx.S.pop()` with N assigned from `len(ctx.S)` before the call (also `del`/slice forms are not
    used by the repository), ("blind", node) for `if len(ctx.S) > 0: ctx.S.pop()` / an unconditional pop, (None, None) when
    there is no clean-up after the last try (or in its finally)."""
    trys = [n for n in fn.body if isinstance(n, ast.Try)]
    if not trys:
        return None, None
    t = trys[-1]
    after = [n for n in fn.body if n.lineno > t.end_lineno] + list(t.finalbody)
    snaps = {}
    for n in walk_no_nested(fn):
        if isinstance(n, ast.Assign) and len(n.targets) == 1 and isinstance(n.targets[0], ast.Name) and n.lineno < t.lineno \
                and unparse(n.value).replace("self.", "ctx.") == "len(ctx.{})".format(stack):
            snaps[n.targets[0].id] = n
    for n in after:
        src = unparse(n)
        if "{}.pop()".format(stack) not in src:
            continue
        if isinstance(n, ast.While) and isinstance(n.test, ast.Compare) and len(n.test.ops) == 1 and isinstance(n.test.ops[0], ast.Gt) \
                and unparse(n.test.left) == "len(ctx.{})".format(stack) and isinstance(n.test.comparators[0], ast.Name) \
                and n.test.comparators[0].id in snaps:
            return "snapshot", n
        return "blind", n
    return None, None
