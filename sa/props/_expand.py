"""Shared anchors inside core.Wtp.expand for the expansion properties
(C04, C05, C13, C15, C16)."""

from __future__ import annotations

import ast

from ..core.index import unparse, walk_no_nested
from ..core.report import AnalysisError

CORE = "src/wikitextprocessor/core.py"
EXPAND = "core.Wtp.expand"
RECURSE = "core.Wtp.expand.expand_recurse"
ARGS = "core.Wtp.expand.expand_recurse.expand_args"
PARSERFN = "core.Wtp.expand.expand_recurse.expand_parserfn"


def main_loop(fn: ast.FunctionDef) -> ast.For:
    """the `for m in MAGIC_RE_PATTERN.finditer(coded)` loop of a cookie consumer"""
    loops = [n for n in fn.body if isinstance(n, ast.For) and "MAGIC_RE_PATTERN" in unparse(n.iter)]
    if len(loops) != 1:
        raise AnalysisError("{}: cookie loop not found".format(fn.name))
    return loops[0]


def kind_arms(loop_or_fn: ast.AST) -> dict:
    """{'T': [stmts], ...} for `if kind == 'X': ... elif ...` chains and for
    sequences of `if kind == 'X': ...; continue/return` in a body"""
    arms: dict = {}

    def test_kind(t: ast.AST):
        if isinstance(t, ast.Compare) and len(t.ops) == 1 and isinstance(t.ops[0], ast.Eq) \
                and isinstance(t.left, ast.Name) and t.left.id == "kind" \
                and isinstance(t.comparators[0], ast.Constant) and isinstance(t.comparators[0].value, str):
            return t.comparators[0].value
        return None

    def visit_if(n: ast.If):
        k = test_kind(n.test)
        if k is not None:
            arms.setdefault(k, n.body)
            if len(n.orelse) == 1 and isinstance(n.orelse[0], ast.If):
                visit_if(n.orelse[0])
            elif n.orelse:
                arms.setdefault("%else", n.orelse)

    body = loop_or_fn.body
    for st in body:
        if isinstance(st, ast.If):
            visit_if(st)
    return arms


def template_branch(ctx) -> list:
    fn = ctx.fn(RECURSE)
    lp = main_loop(fn)
    arms = kind_arms(lp)
    if "T" not in arms:
        raise AnalysisError("expand_recurse: `kind == 'T'` branch not found")
    return arms["T"]


def resolve_name(stmts_before: list, name: str, before_line: int = 10**9):
    """the plain assignment to `name` with the greatest line number below `before_line`
    among the given statements"""
    best = None
    for st in stmts_before:
        for n in ast.walk(st):
            if isinstance(n, ast.Assign) and len(n.targets) == 1 and isinstance(n.targets[0], ast.Name) and n.targets[0].id == name \
                    and n.lineno < before_line:
                if best is None or n.lineno > best.lineno:
                    best = n
    return best.value if best is not None else None
