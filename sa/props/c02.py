"""C02 -- section, list and rule structure follows the nesting model.

R1  section-stop predicate: in subtitle_start_fn the pop loop stops on a section
    kind k for a new heading of level L  iff  level(k) < L  (all 7 x 6 cases,
    evaluated on the recovered tables); ROOT always stops.
R2  rule-stop set: hline_fn's pop loop stops at ROOT and LEVEL2 and pops
    LEVEL3..LEVEL6.
R3  a heading end is matched against open nodes of the same line only and
    against the kind of its own marker.
R4  marker provenance: the LIST and the LIST_ITEM created for a list line both
    carry the line's token; exactly one LIST_ITEM is pushed per call.
R5  close_begline_lists closes *all* open lists (its closing loop runs while
    any LIST is on the stack).
R6  the "open item's marker is a prefix of the new marker" test quantifies over
    all positions of the open marker (for/else, all(), startswith), never over
    some position (any()).
"""

from __future__ import annotations

import ast
import re

from ..core.index import unparse, walk_no_nested
from ..core.report import AnalysisError, Finding, RuleResult
from . import _parser as P

EXPLANATION = (
    "The stop predicates of the heading and horizontal-rule pop loops are extracted and evaluated "
    "by the typestate walker for every node kind on top of the stack and every heading level, using "
    "KIND_TO_LEVEL / MUST_CLOSE_KIND_FLAGS recovered by constant folding, and compared with the "
    "nesting rule of the statement. Def-use shows that list nodes carry the line's marker; two shape "
    "rules cover the list clause (all lists are closed at a non-list line; prefix test is universal). "
    "Thin: the list-prefix computation itself and 'exactly one node per line' are not decided."
)
ASSUMPTIONS = [
    "the statement's nesting rule is the oracle for section kinds; non-section kinds are reported, not judged",
    "LEVEL1 under a horizontal rule is not judged (the statement speaks of sections deeper than level 2)",
]
SECTION = ["ROOT", "LEVEL1", "LEVEL2", "LEVEL3", "LEVEL4", "LEVEL5", "LEVEL6"]


def _pop_loop(fn: ast.FunctionDef) -> ast.While:
    loops = [n for n in fn.body if isinstance(n, ast.While) and any(isinstance(c, ast.Call) and unparse(c.func) == "_parser_pop" for c in ast.walk(n))]
    if len(loops) != 1:
        raise AnalysisError("{}: expected one top-level pop loop, found {}".format(fn.name, len(loops)))
    return loops[0]


def _iteration(ctx, dotted, loop, kind, ranges):
    """'stop' / 'pop' / 'either' for one iteration with `kind` on top"""
    w = P.TopKind(ctx, dotted, ranges)
    # the loop condition is part of the iteration: `while <top>.kind not in K:` stops when it is false
    init = (frozenset([kind]), frozenset())
    cond_stop = False
    entry = {init}
    if not (isinstance(loop.test, ast.Constant) and loop.test.value):
        yes, no = w._branch(loop.test, init)
        # only a test that really refines the kind on top decides anything; presence tests
        # (`any(...)`, `_parser_have(...)`) are handled by the callers
        if w._kind_test(loop.test, frozenset()) is not None or (isinstance(loop.test, ast.UnaryOp) and w._kind_test(loop.test.operand, frozenset()) is not None):
            cond_stop = bool(no)
            entry = set(yes)
    o = w.run_block(loop.body, entry) if entry else type("O", (), {"brk": set(), "ret": [], "fall": set(), "cont": []})()
    if cond_stop:
        o.brk = set(o.brk) | {init}
    stops = bool(o.brk or o.ret) and not w.pops
    pops = bool(w.pops)
    if w.lost_precision and not pops and not stops:
        raise AnalysisError("{}: walk lost track of the stack".format(dotted))
    # several abstract paths: collect
    outcomes = set()
    if o.brk or o.ret:
        outcomes.add("stop")
    if o.fall or o.cont or pops:
        outcomes.add("pop")
    if outcomes == {"stop"}:
        return "stop"
    if outcomes == {"pop"}:
        return "pop"
    return "either"


def rule_r1(ctx) -> RuleResult:
    rr = RuleResult("C02.R1", "a heading of level L closes open sections of level >= L and nothing shallower", min_instances=42)
    dotted = "parser.subtitle_start_fn"
    fn = ctx.fn(dotted)
    lp = _pop_loop(fn)
    k2l = {k.name: v for k, v in ctx.index.const("parser", "KIND_TO_LEVEL").items()}
    if sorted(k2l) != sorted(SECTION):
        raise AnalysisError("KIND_TO_LEVEL does not cover exactly ROOT and LEVEL1..6")
    for k in SECTION:
        for L in range(1, 7):
            got = _iteration(ctx, dotted, lp, k, {"level": (L, L)})
            expect = "stop" if k2l[k] < L else "pop"
            label = "top={} new level={}".format(k, L)
            if got == expect:
                rr.ok(dotted, label, {"top": k, "new_heading_level": L, "loop": got})
            else:
                rr.bad(Finding("C02.R1", P.PARSER, dotted, label,
                               "with a {} section open, a level-{} heading {} it; the nesting model requires the opposite (a section is the "
                               "child of the nearest preceding heading of strictly lower level)".format(
                                   k, L, {"stop": "nests inside", "pop": "closes", "either": "may or may not close"}[got]), lp.lineno))
    for k in P.all_kinds(ctx):
        if k not in SECTION:
            outs = {_iteration(ctx, dotted, lp, k, {"level": (L, L)}) for L in range(1, 7)}
            rr.informational.append({"top": k, "loop": sorted(outs)})
    # the loop must run whenever something poppable is on top, also when no section is open:
    # its condition is constant-true or a presence test that ROOT (always on the stack) satisfies
    t = lp.test
    cond_ok = isinstance(t, ast.Constant) and bool(t.value)
    ks = None
    if isinstance(t, ast.Call) and unparse(t.func) == "any" and t.args and isinstance(t.args[0], ast.GeneratorExp):
        el = t.args[0].elt
        if isinstance(el, ast.Compare) and isinstance(el.ops[0], ast.In):
            ks = P.kind_name(ctx, el.comparators[0])
    elif isinstance(t, ast.Call) and unparse(t.func) == "_parser_have" and len(t.args) == 2:
        ks = P.kind_name(ctx, t.args[1])
    if ks is not None:
        cond_ok = "ROOT" in ks
    if cond_ok:
        rr.ok(dotted, "closing loop runs whenever the stack is non-empty: `{}`".format(unparse(t)[:60]))
    elif ks is not None:
        rr.bad(Finding("C02.R1", P.PARSER, dotted, "while {}".format(unparse(t)),
                       "the closing loop runs only while one of {} is on the stack; ROOT is not among them, so when no section is open the "
                       "loop is skipped and the new heading is nested inside whatever block (preformatted text, an unclosed span, ...) is still "
                       "open instead of under ROOT".format(sorted(ks)), lp.lineno))
    else:
        raise AnalysisError("subtitle_start_fn: unrecognised loop condition `{}` (inconclusive)".format(unparse(t)))
    # the new section is pushed with the kind of the token
    pushes = [c for c in walk_no_nested(fn) if isinstance(c, ast.Call) and unparse(c.func) == "_parser_push"]
    if len(pushes) == 1 and unparse(pushes[0].args[1]) == "kind" and "kind = SUBTITLE_TO_KIND[token]" in unparse(fn):
        rr.ok(dotted, "_parser_push(ctx, SUBTITLE_TO_KIND[token])")
    else:
        rr.bad(Finding("C02.R1", P.PARSER, dotted, "_parser_push(ctx, kind)", "the section node is not pushed with the kind of the heading marker", fn.lineno))
    return rr


def rule_r2(ctx) -> RuleResult:
    rr = RuleResult("C02.R2", "a horizontal rule closes sections deeper than level 2 and stops at LEVEL2/ROOT", min_instances=6)
    dotted = "parser.hline_fn"
    fn = ctx.fn(dotted)
    lp = _pop_loop(fn)
    want = {"ROOT": "stop", "LEVEL2": "stop", "LEVEL3": "pop", "LEVEL4": "pop", "LEVEL5": "pop", "LEVEL6": "pop"}
    for k, exp in want.items():
        got = _iteration(ctx, dotted, lp, k, {})
        if got == exp:
            rr.ok(dotted, "top={} -> {}".format(k, got), {"top": k, "loop": got})
        else:
            rr.bad(Finding("C02.R2", P.PARSER, dotted, "top={}".format(k),
                           "with {} on top the rule's pop loop does `{}`, the statement requires `{}`".format(k, got, exp), lp.lineno))
    rr.informational.append({"top": "LEVEL1", "loop": _iteration(ctx, dotted, lp, "LEVEL1", {})})
    src = unparse(fn)
    if "_parser_push(ctx, NodeKind.HLINE)" in src and src.rstrip().endswith("_parser_pop(ctx, True)"):
        rr.ok(dotted, "HLINE node pushed and closed")
    return rr


def rule_r3(ctx) -> RuleResult:
    rr = RuleResult("C02.R3", "heading end matches a start on the same line with the same kind", min_instances=3)
    dotted = "parser.subtitle_end_fn"
    fn = ctx.fn(dotted)
    loops = [n for n in fn.body if isinstance(n, ast.For) and "parser_stack" in unparse(n.iter)]
    if len(loops) != 1:
        raise AnalysisError("subtitle_end_fn: search loop vanished")
    lp = loops[0]
    it = lp.iter
    tgt = lp.target
    if isinstance(it, ast.Call) and unparse(it.func) == "enumerate" and it.args and isinstance(tgt, ast.Tuple) and len(tgt.elts) == 2:
        it, tgt = it.args[0], tgt.elts[1]
    if not isinstance(tgt, ast.Name):
        raise AnalysisError("subtitle_end_fn: loop target `{}` outside the supported fragment (inconclusive)".format(unparse(lp.target)))
    v = tgt.id
    its = unparse(it)
    if its in ("reversed(ctx.parser_stack)", "ctx.parser_stack[::-1]"):
        rr.ok(dotted, "search runs from the top of the stack")
    elif its == "ctx.parser_stack":
        rr.bad(Finding("C02.R3", P.PARSER, dotted, unparse(lp.iter), "the start node is searched from the bottom of the stack, not from the innermost open node", lp.lineno))
    else:
        raise AnalysisError("subtitle_end_fn: iteration `{}` outside the supported fragment (inconclusive)".format(its))
    # same-line bound: some `if <v>.loc != ctx.linenum: ... break` (or `==` with the break in the else) guards the rest of the body
    loc_tests = [n for n in ast.walk(lp) if isinstance(n, ast.If) and isinstance(n.test, ast.Compare) and len(n.test.ops) == 1
                 and {unparse(n.test.left), unparse(n.test.comparators[0])} == {v + ".loc", "ctx.linenum"}]
    bounded = False
    for n in loc_tests:
        brk_body = n.body and isinstance(n.body[-1], (ast.Break, ast.Return))
        brk_else = n.orelse and isinstance(n.orelse[-1], (ast.Break, ast.Return))
        if (isinstance(n.test.ops[0], ast.NotEq) and brk_body) or (isinstance(n.test.ops[0], ast.Eq) and brk_else):
            bounded = True
    if bounded:
        rr.ok(dotted, "search is bounded to nodes opened on this line")
    elif not any(isinstance(x, ast.Attribute) and x.attr == "loc" for x in ast.walk(lp)):
        rr.bad(Finding("C02.R3", P.PARSER, dotted, "if {}.loc != ctx.linenum: break".format(v),
                       "a heading end can close a heading opened on another line (the search never looks at the line a node was opened on)", lp.lineno))
    else:
        raise AnalysisError("subtitle_end_fn: the same-line bound of the search has an unrecognised shape (inconclusive)")
    kind_tests = [n for n in ast.walk(lp) if isinstance(n, (ast.If, ast.IfExp)) and isinstance(n.test, ast.Compare) and len(n.test.ops) == 1
                  and unparse(n.test.left) == v + ".kind"]
    kind_from_token = any(isinstance(a, ast.Assign) and unparse(a.targets[0]) == "kind" and "SUBTITLE_TO_KIND" in unparse(a.value) and "token" in unparse(a.value)
                          for a in walk_no_nested(fn))
    good = [n for n in kind_tests if isinstance(n.test.ops[0], ast.Eq) and unparse(n.test.comparators[0]) == "kind"]
    bound_ifs = [n for n in loc_tests if (isinstance(n.test.ops[0], ast.NotEq) and n.body and isinstance(n.body[-1], (ast.Break, ast.Return)))
                 or (isinstance(n.test.ops[0], ast.Eq) and n.orelse and isinstance(n.orelse[-1], (ast.Break, ast.Return)))]
    if good and bound_ifs and min(g.lineno for g in good) < min(b_.lineno for b_ in bound_ifs) \
            and not any(g in list(ast.walk(b_)) for g in good for b_ in bound_ifs):
        rr.bad(Finding("C02.R3", P.PARSER, dotted, unparse(good[0].test),
                       "the kind match is evaluated before the same-line bound: an end marker that was demoted to text inside a one-line "
                       "template/link closes an enclosing section of the same level opened on an earlier line", good[0].lineno))
    elif good and kind_from_token:
        rr.ok(dotted, "matches the kind of its own marker")
    elif kind_tests and not good:
        rr.bad(Finding("C02.R3", P.PARSER, dotted, unparse(kind_tests[0].test), "the end marker is not matched against a start of the same kind", lp.lineno))
    elif not kind_tests and not any(isinstance(x, ast.Attribute) and x.attr == "kind" for x in ast.walk(lp)):
        rr.bad(Finding("C02.R3", P.PARSER, dotted, "{}.kind == kind".format(v), "the end marker is matched without looking at the kind of the open heading", lp.lineno))
    else:
        raise AnalysisError("subtitle_end_fn: kind comparison of the search has an unrecognised shape (inconclusive)")
    return rr


def rule_r4(ctx) -> RuleResult:
    rr = RuleResult("C02.R4", "list nodes carry the line's marker; one LIST_ITEM per list line", min_instances=3)
    dotted = "parser.list_fn"
    fn = ctx.fn(dotted)
    reassigned = [n for n in walk_no_nested(fn) if isinstance(n, (ast.Assign, ast.AugAssign))
                  and any(unparse(t) == "token" for t in (n.targets if isinstance(n, ast.Assign) else [n.target]))]
    if reassigned:
        rr.bad(Finding("C02.R4", P.PARSER, dotted, unparse(reassigned[0]), "the line's marker is rewritten before it is stored in the list nodes", reassigned[0].lineno))
    else:
        rr.ok(dotted, "token is never reassigned")
    pushes = [n for n in walk_no_nested(fn) if isinstance(n, ast.Assign) and isinstance(n.value, ast.Call) and unparse(n.value.func) == "_parser_push"]
    items = [p for p in pushes if unparse(p.value.args[1]) == "NodeKind.LIST_ITEM"]
    lists = [p for p in pushes if unparse(p.value.args[1]) == "NodeKind.LIST"]
    if len(items) == 1 and items[0] in fn.body:
        rr.ok(dotted, "exactly one unconditional LIST_ITEM push")
    else:
        rr.bad(Finding("C02.R4", P.PARSER, dotted, "_parser_push(ctx, NodeKind.LIST_ITEM)", "a list line does not create exactly one list item", fn.lineno))

    def followed_by_sarg(p):
        body = _block_of(ctx, p)
        i = body.index(p)
        nxt = body[i + 1] if i + 1 < len(body) else None
        return nxt is not None and unparse(nxt) == "{}.sarg = token".format(unparse(p.targets[0]))

    if items and lists and all(followed_by_sarg(p) for p in items + lists):
        rr.ok(dotted, "LIST.sarg = token and LIST_ITEM.sarg = token", {"pushes": [unparse(p) for p in items + lists]})
    else:
        rr.bad(Finding("C02.R4", P.PARSER, dotted, "node.sarg = token", "a pushed LIST/LIST_ITEM does not receive the line's marker as its prefix", fn.lineno))
    return rr


def _block_of(ctx, st):
    parents = ctx.index.mod("parser").parents
    p = parents[st]
    for name in ("body", "orelse", "finalbody"):
        b = getattr(p, name, None)
        if isinstance(b, list) and st in b:
            return b
    return []


def rule_r5(ctx) -> RuleResult:
    rr = RuleResult("C02.R5", "non-list content at the beginning of a line closes all open lists", min_instances=1)
    dotted = "parser.close_begline_lists"
    fn = ctx.fn(dotted)
    loops = [n for n in fn.body if isinstance(n, (ast.While, ast.For)) and any(isinstance(c, ast.Call) and unparse(c.func) == "_parser_pop" for c in ast.walk(n))]
    if len(loops) != 1:
        raise AnalysisError("close_begline_lists: closing loop not found")
    lp = loops[0]
    if isinstance(lp, ast.While):
        t = lp.test
        if isinstance(t, ast.Call) and unparse(t.func) == "_parser_have" and P.kind_name(ctx, t.args[1]) == frozenset(["LIST"]):
            rr.ok(dotted, "while _parser_have(ctx, NodeKind.LIST): _parser_pop", {"loop": unparse(t)})
            return rr
        if isinstance(t, ast.Compare) and unparse(t.left) == "len(ctx.parser_stack)" and isinstance(t.comparators[0], ast.Name):
            var = t.comparators[0].id
            for n in walk_no_nested(fn):
                if isinstance(n, ast.For) and isinstance(n.target, ast.Name) and n.target.id == var and isinstance(n.iter, ast.Call) \
                        and unparse(n.iter.func) == "range":
                    descending = len(n.iter.args) == 3 and unparse(n.iter.args[2]).startswith("-")
                    if descending:
                        rr.bad(Finding("C02.R5", P.PARSER, dotted, "while {}".format(unparse(t)),
                                       "the closing loop pops down to the *innermost* open list only (the index comes from a top-down search): "
                                       "after a nested item, following non-list content stays inside the enclosing list item", lp.lineno))
                    else:
                        rr.ok(dotted, "pops down to the outermost list", {"loop": unparse(t)})
                    return rr
    if isinstance(lp, ast.For) and isinstance(lp.iter, ast.Call) and unparse(lp.iter.func) == "range" and len(lp.iter.args) == 1 \
            and isinstance(lp.iter.args[0], ast.Name):
        # `for _ in range(depth): pop` -- where does depth come from?
        var = lp.iter.args[0].id
        for n in walk_no_nested(fn):
            if isinstance(n, ast.For) and n is not lp and any(isinstance(x, ast.Name) and x.id == var for x in ast.walk(n.target)) \
                    and isinstance(n.iter, ast.Call) and unparse(n.iter.func) == "enumerate" and n.iter.args:
                src = unparse(n.iter.args[0])
                stops_at_first = any(isinstance(b, ast.If) and any(isinstance(x, ast.Break) for x in b.body)
                                     and P.kind_name(ctx, b.test.comparators[0]) == frozenset(["LIST"])
                                     for b in n.body if isinstance(b, ast.If) and isinstance(b.test, ast.Compare) and len(b.test.comparators) == 1)
                top_down = "reversed(" in src or "[::-1]" in src
                if stops_at_first and top_down:
                    rr.bad(Finding("C02.R5", P.PARSER, dotted, "for _ in range({})".format(var),
                                   "the number of nodes popped is the distance from the top of the stack to the *first* list met on the way down, "
                                   "i.e. the innermost one: after a nested item, following non-list content stays inside the enclosing list item",
                                   lp.lineno))
                    return rr
                if stops_at_first and not top_down and "parser_stack" in src:
                    raise AnalysisError("close_begline_lists: pop count derived from a bottom-up scan; the arithmetic is not decided (inconclusive)")
    raise AnalysisError("close_begline_lists: closing loop has an unrecognised shape `{}` (inconclusive)".format(
        unparse(lp.test) if isinstance(lp, ast.While) else unparse(lp.iter)))


def rule_r6(ctx) -> RuleResult:
    rr = RuleResult("C02.R6", "the open marker must match at *every* position to nest the new item", min_instances=1)
    dotted = "parser.list_fn"
    fn = ctx.fn(dotted)
    # list_fn and the helper functions a refactoring split off from it (functions of parser.py that the pinned tree does not
    # have and that list_fn reaches): the branch is looked for in all of them
    from ..core import canon
    pinned = set(canon.reference().get("parser", {}).get("functions", {}))
    m = ctx.index.mod("parser")
    scope, todo = [fn], [fn]
    while todo:
        f_ = todo.pop()
        for c in ast.walk(f_):
            if isinstance(c, ast.Call) and isinstance(c.func, ast.Name) and c.func.id in m.funcs and c.func.id not in pinned:
                g = m.funcs[c.func.id]
                if g not in scope:
                    scope.append(g)
                    todo.append(g)
    # a length requirement other than `shorter than`: an (in)equality between the length of the open marker and the length
    # of (a part of) the new one admits exactly one nesting depth -- `* a` followed by `*** b` no longer nests
    for f_ in scope:
        for c in ast.walk(f_):
            if isinstance(c, ast.Compare) and len(c.ops) == 1 and isinstance(c.ops[0], (ast.Eq, ast.NotEq)):
                sides = [c.left, c.comparators[0]]
                if all(isinstance(x, ast.Call) and unparse(x.func) == "len" and x.args for x in sides):
                    txt = [unparse(x.args[0]) for x in sides]
                    names = " ".join(txt)
                    if ("token" in names or "prefix" in names) and ("sarg" in names or "item" in names or "prefix" in names) and txt[0] != txt[1]:
                        rr.bad(Finding("C02.R6", P.PARSER, "parser." + f_.name, unparse(c)[:100],
                                       "nesting requires the markers' lengths to differ by a fixed amount: an item whose marker is a proper "
                                       "prefix of the new one by more than one level (`*` then `***`) is closed instead of becoming the parent",
                                       c.lineno))
    if rr.findings:
        return rr
    cands = [n for f_ in scope for n in ast.walk(f_) if isinstance(n, ast.If) and re.search(r"len\(\w+\.sarg\) < len\(token\)", unparse(n.test))]
    if len(cands) != 1:
        raise AnalysisError("list_fn: proper-prefix branch (`len(node.sarg) < len(token)`) not found")
    br = cands[0]
    test_src = unparse(br.test)
    inner_for = [s for s in br.body if isinstance(s, ast.For)]
    if inner_for and inner_for[0].orelse and any(isinstance(x, ast.Break) for x in ast.walk(ast.Module(body=inner_for[0].body, type_ignores=[]))):
        lp = inner_for[0]
        cond = [s for s in lp.body if isinstance(s, ast.If)]
        if "range(len(node.sarg))" in unparse(lp.iter) and cond and "not in" in unparse(cond[0].test) and isinstance(lp.orelse[-1], ast.Break):
            rr.ok(dotted, "for i in range(len(node.sarg)): mismatch -> break; else -> nest", {"form": "for/else (universal)"})
            return rr
    if "all(" in test_src or ".startswith(node.sarg)" in test_src:
        rr.ok(dotted, "universal prefix test: " + test_src[:80], {"form": "all()/startswith"})
        return rr
    if "any(" in test_src:
        rr.bad(Finding("C02.R6", P.PARSER, dotted, test_src[:120],
                       "the new item is nested in the open item as soon as *one* marker position matches (existential test); "
                       "`*#` followed by `***` nests instead of starting a new list", br.lineno))
        return rr
    # no iteration at all: the markers are compared at a single index
    has_iter = any(isinstance(x, (ast.For, ast.While, ast.ListComp, ast.GeneratorExp, ast.SetComp)) for x in ast.walk(br))
    single = [x for x in ast.walk(br) if isinstance(x, ast.Subscript) and not isinstance(x.slice, ast.Slice)
              and (unparse(x.value) == "token" or unparse(x.value).endswith(".sarg"))]
    slices = [x for x in ast.walk(br) if isinstance(x, ast.Subscript) and isinstance(x.slice, ast.Slice)
              and (unparse(x.value) == "token" or unparse(x.value).endswith(".sarg"))]
    if not has_iter and single and not slices and {unparse(x.value) == "token" for x in single} == {True, False}:
        rr.bad(Finding("C02.R6", P.PARSER, dotted, "markers compared at index `{}` only".format(unparse(single[0].slice)[:40]),
                       "the new item is nested in the open item when the markers agree at one position; the other positions of the open "
                       "marker are not compared, so `*#` followed by `##*` nests instead of starting a new list", single[0].lineno))
        return rr
    raise AnalysisError("list_fn: the prefix comparison has an unrecognised shape (inconclusive)")


def rule_r7(ctx) -> RuleResult:
    """Lists and headings are only recognised at the beginning of a line, a state the parser keeps in
    context attributes: it is re-initialised by every parse or balanced by the `with` manager
    (shared with C01.R7)."""
    from ..core.report import shared
    from . import c01

    return shared(c01.rule_r7(ctx), "C02.R7", "beginning-of-line state is reset per parse and balanced by its manager (shared with C01.R7)",
                  "after a parse that left the state disabled, list lines of later pages stay plain text", min_instances=5)

def rule_r8(ctx) -> RuleResult:
    """`with ctx.begline_disabled` scopes nest (a link inside a template argument).  Line-start handling -- which closes the
    open list items, lists and sections -- may come back only when the *outermost* scope ends, i.e. when the counter is back
    at 0 after the decrement.  The test that re-enables it is a comparison of the counter with a constant; it is folded for
    the counter values 0..3 and has to be true exactly for 0."""
    rr = RuleResult("C02.R8", "line-start handling is re-enabled only when the outermost disable scope ends", min_instances=1)
    core = ctx.index.mod("core")
    ex = core.funcs.get("BegLineDisableManager.__exit__")
    if ex is None:
        raise AnalysisError("BegLineDisableManager.__exit__ vanished")
    import operator
    ops = {ast.Lt: operator.lt, ast.LtE: operator.le, ast.Eq: operator.eq, ast.Gt: operator.gt, ast.GtE: operator.ge, ast.NotEq: operator.ne}

    def fold(test):
        """truth table of `test` over counter values 0..3, or None"""
        if isinstance(test, ast.UnaryOp) and isinstance(test.op, ast.Not):
            if unparse(test.operand).endswith("begline_disable_counter"):
                return [c == 0 for c in range(4)]
            f = fold(test.operand)
            return None if f is None else [not x for x in f]
        if isinstance(test, ast.Compare) and len(test.ops) == 1 and type(test.ops[0]) in ops:
            l, r = test.left, test.comparators[0]
            if unparse(l).endswith("begline_disable_counter") and isinstance(r, ast.Constant) and isinstance(r.value, int):
                return [ops[type(test.ops[0])](c, r.value) for c in range(4)]
            if unparse(r).endswith("begline_disable_counter") and isinstance(l, ast.Constant) and isinstance(l.value, int):
                return [ops[type(test.ops[0])](l.value, c) for c in range(4)]
        return None

    sites = []
    for n in walk_no_nested(ex):
        if isinstance(n, ast.If) and any(isinstance(a, ast.Assign) and unparse(a.targets[0]).endswith("begline_enabled")
                                         and isinstance(a.value, ast.Constant) and a.value.value is True for st in n.body for a in ast.walk(st)):
            sites.append((n, n.test))
        elif isinstance(n, ast.Assign) and unparse(n.targets[0]).endswith("begline_enabled") and not isinstance(n.value, ast.Constant):
            sites.append((n, n.value))
    uncond = [n for n in ex.body if isinstance(n, ast.Assign) and unparse(n.targets[0]).endswith("begline_enabled")
              and isinstance(n.value, ast.Constant) and n.value.value is True]
    for n in uncond:
        rr.bad(Finding("C02.R8", "src/wikitextprocessor/core.py", "core.BegLineDisableManager.__exit__", unparse(n),
                       "leaving any scope re-enables line-start handling, also while an enclosing template/link argument is still open", n.lineno))
    if not sites and not uncond:
        raise AnalysisError("BegLineDisableManager.__exit__: the statement that re-enables line-start handling was not recognised (inconclusive)")
    for n, test in sites:
        tt = fold(test)
        if tt is None:
            raise AnalysisError("BegLineDisableManager.__exit__: test `{}` is not a comparison of the counter with a constant (inconclusive)".format(unparse(test)[:60]))
        if tt == [True, False, False, False]:
            rr.ok("core.BegLineDisableManager.__exit__", "re-enabled iff `{}` -- true only for counter 0".format(unparse(test)))
        else:
            wrong = [c for c in range(4) if tt[c] != (c == 0)]
            rr.bad(Finding("C02.R8", "src/wikitextprocessor/core.py", "core.BegLineDisableManager.__exit__", "re-enabled iff " + unparse(test),
                           "with {} enclosing scope(s) still open the test is {}: after `{{{{t|[[x]]\\nfoo}}}}` the next line start inside the argument "
                           "closes the open template, list item, list and sections".format(wrong[0], tt[wrong[0]]), n.lineno))
    return rr


def run(ctx) -> list:
    return [rule_r1(ctx), rule_r2(ctx), rule_r3(ctx), rule_r4(ctx), rule_r5(ctx), rule_r6(ctx), rule_r7(ctx), rule_r8(ctx)]
