"""C09 -- processing a page does not depend on what the context processed before.

R1  per-page reset completeness: every context attribute mutated by code
    reachable from expand()/parse()/the Lua callbacks is re-initialised by
    start_page, or by parse_encoded before tokens are processed, or is mutated
    only inside __enter__/__exit__ of a manager class (exit runs on exceptions),
    or is on the named allow-list (Lua/DB handles).
R2  no module-level or class-level mutable object (nor a mutable default
    argument) is mutated through an instance attribute or alias.
R3  Lua reset and clone are on the invocation path: call_lua_sandbox resets the
    environment before every top-level invocation after the first;
    _lua_invoke runs the module in _mw_clone(...) of the environment;
    mw.loadData modules get a cloned environment; start_page clears the
    loadData cache when a runtime exists.
R4  nothing from the page store survives the Lua reset (retained_modules names
    shipped libraries only).
R5  shared library tables are not reachable for writing through getmetatable.
R6  mw.loadData results are not handed out mutable.
R7  no function reachable from the module environment stores a caller-supplied
    value into the host module cache under a caller-supplied key.
"""

from __future__ import annotations

import ast
import os

from ..core import lua as L
from typing import Optional

from ..core.callgraph import CallGraph
from ..core.flow import Flow
from ..core.index import FuncRef, unparse, walk_no_nested
from ..core.report import AnalysisError, Finding, RuleResult
from . import _expand as X

EXPLANATION = (
    "Effect analysis: the set of context attributes written anywhere on the expand/parse path is "
    "computed from the call-graph closure and compared with what start_page / parse_encoded "
    "re-initialise; alias analysis finds module-level, class-level and default-argument mutables that "
    "are mutated through an instance; on the Lua side the parsed sandbox sources show what survives "
    "_lua_reset_env, whether modules run in a cloned environment, and which shared tables a module can "
    "write. Decides which state *can* carry over between pages, not equality of results."
)
ASSUMPTIONS = [
    "context receivers are named self (inside class Wtp), ctx or wtp, or self.ctx inside BegLineDisableManager",
    "a new mutated attribute that is neither reset nor classified is reported as UNCLASSIFIED (informational): it may be a harmless cache",
    "Lua 5.1: the string metatable's __index is the single shared `string` table",
]
CORE = "src/wikitextprocessor/core.py"
P1 = "src/wikitextprocessor/lua/_sandbox_phase1.lua"
P2 = "src/wikitextprocessor/lua/_sandbox_phase2.lua"
MUTATORS = {"append", "appendleft", "pop", "popleft", "clear", "update", "add", "extend", "insert", "remove", "discard",
            "setdefault", "sort", "reverse", "popitem"}
ALLOW = {
    "lua": "Lua runtime handle, created once; its state is the subject of R3-R7",
    "lua_invoke": "Lua function handle refreshed with every environment reset",
    "lua_reset_env": "Lua function handle refreshed with every environment reset",
    "lua_clear_loaddata_cache": "Lua function handle set once at initialisation",
    "db_conn": "database identity", "db_path": "database identity",
    "wikidata_session": "network session, carries no page state",
    "title": "set by start_page itself",
}
# attributes confirmed by hand on the pinned tree: losing their reset is a violation
CONFIRMED_PER_PAGE = {"cookies", "rev_ht", "expand_stack", "errors", "warnings", "debugs", "notes", "wiki_notices", "section",
                      "subsection", "lua_env_stack", "lua_frame_stack", "strip_marker_cache"}
CONFIRMED_PER_PARSE = {"beginning_of_line", "wsp_beginning_of_line", "linenum", "pre_parse", "parser_stack", "suppress_special"}
CONFIRMED_MANAGED = {"begline_enabled", "begline_disable_counter"}


def _ctx_attr(e: ast.AST, in_wtp: bool, in_manager: bool):
    """attribute name if e is <ctx>.<attr>"""
    if isinstance(e, ast.Attribute):
        b = e.value
        if isinstance(b, ast.Name) and (b.id in ("ctx", "wtp") or (b.id == "self" and in_wtp)):
            return e.attr
        if in_manager and isinstance(b, ast.Attribute) and b.attr == "ctx" and isinstance(b.value, ast.Name) and b.value.id == "self":
            return e.attr
    return None


def _mutations(fn: ast.AST, in_wtp: bool, in_manager: bool) -> list:
    out = []
    for n in walk_no_nested(fn):
        tg = []
        if isinstance(n, ast.Assign):
            tg = n.targets
        elif isinstance(n, (ast.AugAssign, ast.AnnAssign)):
            tg = [n.target] if not (isinstance(n, ast.AnnAssign) and n.value is None) else []
        elif isinstance(n, ast.Delete):
            tg = n.targets
        for t in tg:
            for el in (t.elts if isinstance(t, (ast.Tuple, ast.List)) else [t]):
                a = _ctx_attr(el, in_wtp, in_manager)
                if a:
                    out.append((a, n, "assign"))
                if isinstance(el, ast.Subscript):
                    a = _ctx_attr(el.value, in_wtp, in_manager)
                    if a:
                        out.append((a, n, "item"))
        if isinstance(n, ast.Call) and isinstance(n.func, ast.Attribute) and n.func.attr in MUTATORS:
            a = _ctx_attr(n.func.value, in_wtp, in_manager)
            if a:
                out.append((a, n, "method " + n.func.attr))
    return out


PAGE_STATE_ATTRS = {"title", "section", "subsection", "cookies", "rev_ht", "expand_stack"}
PAGE_DEPENDENT_CALLEES = {"core.Wtp._save_value", "core.Wtp.expand", "core.Wtp.expand.expand_recurse", "core.Wtp.parse",
                          "core.Wtp._encode", "core.Wtp.preprocess_text", "core.Wtp._finalize_expand"}


def _stores_page_dependent(ctx, cg: CallGraph, sites: list):
    """(function, statement, reason) of the first mutation site that stores a value derived from per-page
    state: a call that reaches cookie allocation / expansion, or a read of a per-page attribute"""

    def stored_exprs(node, kind):
        if isinstance(node, (ast.Assign, ast.AnnAssign, ast.AugAssign)) and getattr(node, "value", None) is not None:
            return [node.value]
        if isinstance(node, ast.Call):
            return list(node.args) + [k.value for k in node.keywords]
        return []

    for dotted, node, kind in sites:
        if not ctx.index.has_func(dotted):
            continue
        fn = ctx.index.func(dotted)
        work = stored_exprs(node, kind)
        seen = set()
        hops = 0
        while work and hops < 12:
            e = work.pop()
            hops += 1
            for n in ast.walk(e):
                if isinstance(n, ast.Attribute) and n.attr in PAGE_STATE_ATTRS and isinstance(n.value, ast.Name) and n.value.id in ("self", "ctx", "wtp"):
                    return dotted, node, "reads ctx." + n.attr
                if isinstance(n, ast.Name) and isinstance(n.ctx, ast.Load) and n.id not in seen:
                    seen.add(n.id)
                    for a_ in walk_no_nested(fn):
                        if isinstance(a_, ast.Assign) and any(isinstance(t, ast.Name) and t.id == n.id for t in a_.targets) \
                                and a_.lineno <= getattr(node, "lineno", 10**9):
                            work.append(a_.value)
            callees = cg.callees_in(dotted, e)
            reach = set(callees)
            for c in callees:
                if not c.startswith("%"):
                    reach |= cg.closure([c])
            bad = sorted(reach & PAGE_DEPENDENT_CALLEES)
            if bad or "%expander" in reach:
                return dotted, node, "computed by " + (bad[0].split(".")[-1] if bad else "the expander")
    return None


def rule_r1(ctx, cg: CallGraph) -> RuleResult:
    rr = RuleResult("C09.R1", "every context attribute mutated while processing a page is re-initialised per page or per parse", min_instances=18)
    closure = cg.closure(["core.Wtp.expand", "core.Wtp.parse"]) | set(cg.lua_helpers)
    mgr_methods = [q for q in ctx.index.mod("core").funcs if q.startswith("BegLineDisableManager.")]
    S: dict = {}
    for dotted in sorted(closure):
        if not ctx.index.has_func(dotted):
            continue
        fn = ctx.index.func(dotted)
        in_wtp = dotted.startswith("core.Wtp.")
        for a, node, kind in _mutations(fn, in_wtp, False):
            S.setdefault(a, []).append((dotted, node, kind))
    # context managers used by the parser (class based or generator based)
    for q, f in ctx.index.mod("core").funcs.items():
        is_mgr_method = q.startswith("BegLineDisableManager.")
        is_gen_mgr = q.startswith("Wtp.") and any("contextmanager" in unparse(d) for d in f.decorator_list)
        if is_mgr_method or is_gen_mgr:
            for a, node, kind in _mutations(f, q.startswith("Wtp."), is_mgr_method):
                S.setdefault(a, []).append(("core." + q, node, kind))
    rr.instances["mutated_attributes"] = sorted(S)
    if len(S) < 15:
        raise AnalysisError("only {} mutated context attributes found (21 confirmed by hand)".format(len(S)))
    sp = ctx.fn("core.Wtp.start_page")
    per_page = set()
    for st in sp.body:
        for a, node, kind in _mutations(ast.Module(body=[st], type_ignores=[]), True, False):
            if kind == "assign" or kind == "method clear":
                if isinstance(st, (ast.Assign, ast.Expr)):  # unconditional top-level statement
                    per_page.add(a)
    pe = ctx.fn("parser.parse_encoded")
    per_parse = set()
    for st in pe.body:
        if isinstance(st, ast.Try):
            break
        for a, node, kind in _mutations(ast.Module(body=[st], type_ignores=[]), False, False):
            if kind == "assign":
                per_parse.add(a)
    rr.instances["reset_in_start_page"] = sorted(per_page)
    rr.instances["reset_in_parse_encoded"] = sorted(per_parse)
    for a in sorted(S):
        sites = S[a]
        where = sorted({d for d, _, _ in sites})
        label = "ctx." + a
        if a in per_page:
            rr.ok("core.Wtp.start_page", label + " reset per page", {"attr": a, "reset": "start_page", "mutated_in": where[:4]})
            continue
        if a in per_parse:
            rr.ok("parser.parse_encoded", label + " reset per parse", {"attr": a, "reset": "parse_encoded", "mutated_in": where[:4]})
            continue
        only_mgr = all(d.startswith("core.BegLineDisableManager.__enter__") or d.startswith("core.BegLineDisableManager.__exit__")
                       or d == "core.Wtp.__init__" for d in where)
        if only_mgr:
            rr.ok("core.BegLineDisableManager", label + " balanced by __enter__/__exit__", {"attr": a, "reset": "manager"})
            continue
        if a in ALLOW:
            rr.ok("allow-list", label + ": " + ALLOW[a], {"attr": a, "allow": ALLOW[a]})
            continue
        first = sites[0]
        if a in CONFIRMED_PER_PAGE | CONFIRMED_PER_PARSE | CONFIRMED_MANAGED:
            how = ("start_page no longer re-initialises it" if a in CONFIRMED_PER_PAGE else
                   "parse_encoded no longer re-initialises it" if a in CONFIRMED_PER_PARSE else
                   "it is mutated outside __enter__/__exit__ of a manager class (a generator-based manager without try/finally, "
                   "or plain code, skips the restore when an exception escapes) and nothing resets it")
            rr.bad(Finding("C09.R1", ctx.index.mod(first[0].split(".")[0]).relpath, first[0], label,
                           "mutated while processing a page ({}) but {}; its value leaks into the next page".format(
                               ", ".join(where[:3]), how), first[1].lineno))
        else:
            hit = _stores_page_dependent(ctx, cg, sites)
            if hit is not None:
                dotted_, node_, why_ = hit
                rr.bad(Finding("C09.R1", ctx.index.mod(dotted_.split(".")[0]).relpath, dotted_, unparse(node_)[:80],
                               "`ctx.{}` is filled while a page is processed with a value that depends on the page ({}), and neither "
                               "start_page nor parse_encoded re-initialises it: what one page stores is served to the next".format(a, why_),
                               node_.lineno))
            else:
                rr.informational.append({"UNCLASSIFIED": a, "mutated_in": where[:4]})
    # the loadData cache is cleared when a runtime exists
    src = unparse(sp)
    if "self.lua_clear_loaddata_cache()" in src and "self.lua_clear_loaddata_cache is not None" in src:
        rr.ok("core.Wtp.start_page", "loadData cache cleared per page")
    else:
        rr.bad(Finding("C09.R1", CORE, "core.Wtp.start_page", "self.lua_clear_loaddata_cache()", "mw.loadData cache is no longer cleared per page", sp.lineno))
    return rr


def _module_mutables(ctx) -> dict:
    """(module, name) -> kind for module-level names bound to dict/list/set values"""
    out = {}
    for mn, m in ctx.index.modules.items():
        for st in m.tree.body:
            tg = None
            if isinstance(st, ast.Assign) and len(st.targets) == 1 and isinstance(st.targets[0], ast.Name):
                tg, v = st.targets[0].id, st.value
            elif isinstance(st, ast.AnnAssign) and isinstance(st.target, ast.Name) and st.value is not None:
                tg, v = st.target.id, st.value
            if tg is None:
                continue
            if isinstance(v, (ast.Dict, ast.List, ast.Set, ast.DictComp, ast.ListComp, ast.SetComp)) or (
                isinstance(v, ast.Call) and isinstance(v.func, ast.Name) and v.func.id in ("dict", "list", "set", "defaultdict", "deque")
            ):
                out[(mn, tg)] = type(v).__name__
    # class-body names bound to mutable values: one object shared by every instance
    for mn, m in ctx.index.modules.items():
        for cl in [n for n in ast.walk(m.tree) if isinstance(n, ast.ClassDef)]:
            for st in cl.body:
                tg = v = None
                if isinstance(st, ast.Assign) and len(st.targets) == 1 and isinstance(st.targets[0], ast.Name):
                    tg, v = st.targets[0].id, st.value
                elif isinstance(st, ast.AnnAssign) and isinstance(st.target, ast.Name) and st.value is not None:
                    tg, v = st.target.id, st.value
                if tg is None:
                    continue
                if isinstance(v, (ast.Dict, ast.List, ast.Set, ast.DictComp, ast.ListComp, ast.SetComp)) or (
                    isinstance(v, ast.Call) and isinstance(v.func, ast.Name) and v.func.id in ("dict", "list", "set", "defaultdict", "deque")
                ):
                    out[(mn, cl.name + "." + tg)] = "class attribute " + type(v).__name__
    return out


def _has_nested_mutables(ctx, key) -> bool:
    """does the module-level literal hold mutable values (dict of dicts ...)?  Unknown shapes count as yes."""
    mn, name = key
    for st in ctx.index.modules[mn].tree.body:
        v = None
        if isinstance(st, ast.Assign) and len(st.targets) == 1 and isinstance(st.targets[0], ast.Name) and st.targets[0].id == name:
            v = st.value
        elif isinstance(st, ast.AnnAssign) and isinstance(st.target, ast.Name) and st.target.id == name:
            v = st.value
        if v is None:
            continue
        if isinstance(v, ast.Dict):
            return any(not isinstance(x, (ast.Constant, ast.Tuple, ast.Name, ast.Attribute)) for x in v.values)
        if isinstance(v, (ast.List, ast.Set)):
            return any(not isinstance(x, (ast.Constant, ast.Tuple, ast.Name, ast.Attribute)) for x in v.elts)
        return True
    return True


def _is_copy(v: ast.AST) -> bool:
    if isinstance(v, ast.Call):
        f = unparse(v.func)
        if f in ("dict", "list", "set", "copy.copy", "copy.deepcopy", "deepcopy", "frozenset", "tuple", "sorted"):
            return True
        if isinstance(v.func, ast.Attribute) and v.func.attr == "copy":
            return True
    if isinstance(v, (ast.DictComp, ast.ListComp, ast.SetComp, ast.Dict, ast.List, ast.Set)):
        return True
    return False


def rule_r2(ctx) -> RuleResult:
    rr = RuleResult("C09.R2", "no module-level, class-level or default-argument mutable is mutated through an instance", min_instances=15)
    mm = _module_mutables(ctx)
    rr.instances["module_level_mutables"] = len(mm)
    # names visible in each module (own + imported)
    visible = {}
    for mn, m in ctx.index.modules.items():
        v = {n: (mn, n) for (mod, n) in mm if mod == mn}
        for st in ast.walk(m.tree):
            if isinstance(st, ast.ImportFrom) and st.level >= 1 and st.module in ctx.index.modules:
                for a in st.names:
                    if (st.module, a.name) in mm:
                        v[a.asname or a.name] = (st.module, a.name)
        visible[mn] = v
    alias_attr = {}  # attr name -> (shared object description, site)
    shallow_attr = {}  # attr name -> (shared object whose *inner* objects are still shared, site)
    for dotted, m, f in ctx.index.all_functions():
        mn = dotted.split(".")[0]
        vis = dict(visible[mn])
        # mutable default arguments
        defaults = {}
        args = f.args
        pos = args.args[len(args.args) - len(args.defaults):] if args.defaults else []
        for a, d in zip(pos, args.defaults):
            if isinstance(d, (ast.Dict, ast.List, ast.Set)):
                defaults[a.arg] = "default argument `{}={}` of {}".format(a.arg, unparse(d), dotted)
        local_alias = {}
        for n in walk_no_nested(f):
            if isinstance(n, (ast.Assign, ast.AnnAssign)) and getattr(n, "value", None) is not None:
                tgs = n.targets if isinstance(n, ast.Assign) else [n.target]
                v = n.value
                shared = None
                if isinstance(v, ast.Name) and not _is_copy(v):
                    if v.id in vis:
                        shared = "module-level {}.{}".format(*vis[v.id])
                    elif v.id in defaults:
                        shared = defaults[v.id]
                    elif v.id in local_alias:
                        shared = local_alias[v.id]
                if shared:
                    for t in tgs:
                        if isinstance(t, ast.Attribute) and isinstance(t.value, ast.Name) and t.value.id in ("self", "ctx", "wtp"):
                            alias_attr[t.attr] = (shared, dotted, n)
                        elif isinstance(t, ast.Name):
                            local_alias[t.id] = shared
                # one-level copies: dict(X), list(X), X.copy(), copy.copy(X) share X's inner objects
                inner = None
                if isinstance(v, ast.Call) and unparse(v.func) in ("dict", "list", "set", "copy.copy") and len(v.args) == 1 \
                        and isinstance(v.args[0], ast.Name) and v.args[0].id in vis:
                    inner = v.args[0].id
                elif isinstance(v, ast.Call) and isinstance(v.func, ast.Attribute) and v.func.attr == "copy" and not v.args \
                        and isinstance(v.func.value, ast.Name) and v.func.value.id in vis:
                    inner = v.func.value.id
                if inner is not None and _has_nested_mutables(ctx, vis[inner]):
                    for t in tgs:
                        if isinstance(t, ast.Attribute) and isinstance(t.value, ast.Name) and t.value.id in ("self", "ctx", "wtp"):
                            shallow_attr[t.attr] = ("module-level {}.{}".format(*vis[inner]), dotted, n)
        # direct mutation of a module-level mutable / alias inside a function body
        for n in walk_no_nested(f):
            tgt = None
            how = None
            if isinstance(n, ast.Call) and isinstance(n.func, ast.Attribute) and n.func.attr in MUTATORS:
                tgt, how = n.func.value, "." + n.func.attr + "()"
            elif isinstance(n, (ast.Assign, ast.AugAssign)):
                for t in (n.targets if isinstance(n, ast.Assign) else [n.target]):
                    if isinstance(t, ast.Subscript):
                        tgt, how = t.value, "[...] ="
            elif isinstance(n, ast.Delete):
                for t in n.targets:
                    if isinstance(t, ast.Subscript):
                        tgt, how = t.value, "del [...]"
            if tgt is None:
                continue
            if isinstance(tgt, ast.Name) and tgt.id in vis and tgt.id not in {a.arg for a in f.args.args}:
                # a local of the same name shadows the global
                assigned_local = any(isinstance(x, ast.Assign) and any(isinstance(t, ast.Name) and t.id == tgt.id for t in x.targets)
                                     for x in walk_no_nested(f))
                if not assigned_local:
                    rr.bad(Finding("C09.R2", m.relpath, dotted, unparse(n)[:80],
                                   "module-level {}.{} is mutated inside a function ({}): the change is visible to every context in "
                                   "the process".format(vis[tgt.id][0], vis[tgt.id][1], how), n.lineno))
            if isinstance(tgt, ast.Name) and tgt.id in local_alias:
                rr.bad(Finding("C09.R2", m.relpath, dotted, unparse(n)[:80],
                               "`{}` aliases {} and is mutated ({})".format(tgt.id, local_alias[tgt.id], how), n.lineno))
    # mutation through an aliasing instance attribute, anywhere in the package
    for dotted, m, f in ctx.index.all_functions():
        for n in walk_no_nested(f):
            tgt = how = None
            if isinstance(n, ast.Call) and isinstance(n.func, ast.Attribute) and n.func.attr in MUTATORS:
                tgt, how = n.func.value, "." + n.func.attr + "()"
            elif isinstance(n, (ast.Assign, ast.AugAssign)):
                for t in (n.targets if isinstance(n, ast.Assign) else [n.target]):
                    if isinstance(t, ast.Subscript):
                        tgt, how = t.value, "[...] ="
            if isinstance(tgt, ast.Attribute) and tgt.attr in alias_attr and isinstance(tgt.value, ast.Name) \
                    and tgt.value.id in ("self", "ctx", "wtp"):
                shared, where, asg = alias_attr[tgt.attr]
                rr.bad(Finding("C09.R2", m.relpath, dotted, unparse(n)[:80],
                               "`{}` is bound to {} without a copy (in {}: `{}`) and mutated here ({}): contexts created later, with "
                               "other options, see the change".format(unparse(tgt), shared, where, unparse(asg)[:60], how), n.lineno))
    # mutation of a class-level mutable through an instance, the class or cls
    class_level = {}
    for (mn, name), kind in mm.items():
        if kind.startswith("class attribute"):
            cl, attr = name.split(".", 1)
            class_level[attr] = (mn, cl)
    # an attribute that __init__ (re)binds per instance shadows the class attribute
    for attr in list(class_level):
        mn, cl = class_level[attr]
        init = mn + "." + cl + ".__init__"
        if ctx.index.has_func(init):
            for n in walk_no_nested(ctx.index.func(init)):
                tgs = n.targets if isinstance(n, ast.Assign) else [n.target] if isinstance(n, ast.AnnAssign) and n.value is not None else []
                if any(isinstance(t, ast.Attribute) and t.attr == attr and isinstance(t.value, ast.Name) and t.value.id == "self" for t in tgs):
                    class_level.pop(attr, None)
    for dotted, m, f in ctx.index.all_functions():
        for n in walk_no_nested(f):
            tgt = how = None
            if isinstance(n, ast.Call) and isinstance(n.func, ast.Attribute) and n.func.attr in MUTATORS:
                tgt, how = n.func.value, "." + n.func.attr + "()"
            elif isinstance(n, (ast.Assign, ast.AugAssign)):
                for t in (n.targets if isinstance(n, ast.Assign) else [n.target]):
                    if isinstance(t, ast.Subscript):
                        tgt, how = t.value, "[...] ="
            if isinstance(tgt, ast.Attribute) and tgt.attr in class_level and isinstance(tgt.value, ast.Name) \
                    and tgt.value.id in ("self", "ctx", "wtp", "cls", class_level[tgt.attr][1]):
                mn, cl = class_level[tgt.attr]
                rr.bad(Finding("C09.R2", m.relpath, dotted, unparse(n)[:80],
                               "`{}.{}` is created once in the class body, so this mutation ({}) is shared by every context in the process: "
                               "a context created with other options (lang_code, extension tags, ...) reads entries written by an earlier one".format(
                                   cl, tgt.attr, how), n.lineno))
    # mutation of an *inner* object reached through a one-level copy
    for dotted, m, f in ctx.index.all_functions():
        for n in walk_no_nested(f):
            tgt = how = None
            if isinstance(n, ast.Call) and isinstance(n.func, ast.Attribute) and n.func.attr in MUTATORS:
                tgt, how = n.func.value, "." + n.func.attr + "()"
            elif isinstance(n, (ast.Assign, ast.AugAssign)):
                for t in (n.targets if isinstance(n, ast.Assign) else [n.target]):
                    if isinstance(t, ast.Subscript):
                        tgt, how = t.value, "[...] ="
            if tgt is None:
                continue
            base = None
            if isinstance(tgt, ast.Subscript):
                base = tgt.value
            elif isinstance(tgt, ast.Call) and isinstance(tgt.func, ast.Attribute) and tgt.func.attr in ("setdefault", "get", "pop", "__getitem__"):
                base = tgt.func.value
            if isinstance(base, ast.Attribute) and base.attr in shallow_attr and isinstance(base.value, ast.Name) \
                    and base.value.id in ("self", "ctx", "wtp"):
                shared, where, asg = shallow_attr[base.attr]
                rr.bad(Finding("C09.R2", m.relpath, dotted, unparse(n)[:80],
                               "`{}` is a one-level copy of {} (in {}: `{}`); this statement mutates one of the *inner* objects the copy still "
                               "shares with it ({}): every context created later sees the change".format(
                                   unparse(base), shared, where, unparse(asg)[:60], how), n.lineno))
    for (mn, name), kind in sorted(mm.items()):
        rr.ok(mn, "{}.{} ({}) never mutated through an instance".format(mn, name, kind))
    rr.obligations -= len([f for f in rr.findings])  # a finding replaces the ok of its object
    rr.discharged = rr.obligations - 0 if not rr.findings else rr.discharged - len(rr.findings)
    for a, (shared, where, asg) in alias_attr.items():
        rr.informational.append({"alias": "<ctx>." + a, "of": shared, "bound_in": where})
    rr.samples.append({"aliasing_attributes": {a: s for a, (s, _, _) in alias_attr.items()}})
    rr.samples.append({"one_level_copies": {a: s for a, (s, _, _) in shallow_attr.items()}})
    return rr


def _stack_empty_test(test) -> Optional[bool]:
    """True if `test` holds exactly when ctx.lua_env_stack is empty, False if exactly when it is not, else None"""
    if isinstance(test, ast.UnaryOp) and isinstance(test.op, ast.Not):
        if unparse(test.operand).endswith("lua_env_stack"):
            return True
        v = _stack_empty_test(test.operand)
        return None if v is None else not v
    if unparse(test).endswith("lua_env_stack") and isinstance(test, ast.Attribute):
        return False
    if isinstance(test, ast.Compare) and len(test.ops) == 1:
        l, op, r = test.left, test.ops[0], test.comparators[0]
        if isinstance(r, ast.Call) and isinstance(l, ast.Constant):
            l, r = r, l
            op = {ast.Lt: ast.Gt, ast.Gt: ast.Lt, ast.LtE: ast.GtE, ast.GtE: ast.LtE}.get(type(op), type(op))()
        if isinstance(l, ast.Call) and unparse(l.func) == "len" and l.args and unparse(l.args[0]).endswith("lua_env_stack") \
                and isinstance(r, ast.Constant) and isinstance(r.value, int):
            c = r.value
            if (isinstance(op, ast.Eq) and c == 0) or (isinstance(op, ast.Lt) and c == 1) or (isinstance(op, ast.LtE) and c == 0):
                return True
            if (isinstance(op, ast.NotEq) and c == 0) or (isinstance(op, ast.Gt) and c == 0) or (isinstance(op, ast.GtE) and c == 1):
                return False
    return None


def _reset_preparers(ctx) -> set:
    """names of package functions (other than the two primitives) from which initialize_lua / lua_reset_env is reachable"""
    mod = ctx.index.mod("luaexec")
    direct = {}
    for name, f in mod.funcs.items():
        calls = {unparse(n.func).split(".")[-1] for n in ast.walk(f) if isinstance(n, ast.Call)}
        direct[name.split(".")[-1]] = calls
    out = set()
    changed = True
    while changed:
        changed = False
        for name, calls in direct.items():
            if name in out or name in ("initialize_lua", "call_lua_sandbox"):
                continue
            if calls & ({"initialize_lua", "lua_reset_env"} | out):
                out.add(name)
                changed = True
    return out


def rule_r3(ctx) -> RuleResult:
    rr = RuleResult("C09.R3", "Lua environment is reset per top-level invocation and cloned per module run", min_instances=5)
    fn = ctx.fn("luaexec.call_lua_sandbox")
    LX = "src/wikitextprocessor/luaexec.py"
    inv = [n for n in ast.walk(fn) if isinstance(n, ast.Call) and unparse(n.func) == "ctx.lua_invoke"]
    if not inv:
        raise AnalysisError("call_lua_sandbox: ctx.lua_invoke(...) vanished")
    # path rule: on every path to ctx.lua_invoke(...) on which the environment stack may be empty (a top-level
    # invocation), the runtime has been created (initialize_lua) or reset (ctx.lua_reset_env()) first
    preparers = _reset_preparers(ctx)
    reached = []

    class W(Flow):
        # state: (top, fresh, prepared, opaque)   top/fresh in "T","F","?"
        def transfer_expr(self, node, state):
            if node is None:
                return [state]
            top, fresh, prep, opaque = state
            evs = []
            for n in ast.walk(node):
                if isinstance(n, ast.Call):
                    evs.append((n.end_lineno, n.end_col_offset, n))
            for _, _, n in sorted(evs, key=lambda x: (x[0], x[1])):
                f = unparse(n.func)
                if f == "ctx.lua_invoke":
                    reached.append((n, (top, fresh, prep, opaque)))
                elif f in ("initialize_lua", "ctx.lua_reset_env"):
                    prep = True
                elif f.split(".")[-1] in preparers:
                    opaque = True
            return [(top, fresh, prep, opaque)]

        def branch(self, test, state):
            top, fresh, prep, opaque = state
            v = _stack_empty_test(test)
            if v is not None:
                t = [] if top == ("F" if v else "T") else [("T" if v else "F", fresh, prep, opaque)]
                f = [] if top == ("T" if v else "F") else [("F" if v else "T", fresh, prep, opaque)]
                return t, f
            return [state], [state]

        def nested_def(self, node, state):
            return [state]

    W().run_function(fn, [("?", "?", False, False)])
    if not reached:
        raise AnalysisError("call_lua_sandbox: no path to ctx.lua_invoke(...) found by the flow walk")
    unprepared = [(n, st) for n, st in reached if st[0] != "F" and not st[2]]
    if unprepared and any(st[3] for _, st in unprepared):
        raise AnalysisError("call_lua_sandbox: the reset of the Lua environment happens inside a helper that was not inlined; "
                            "the path rule cannot be decided")
    if unprepared:
        rr.bad(Finding("C09.R3", LX, "luaexec.call_lua_sandbox", "ctx.lua_reset_env()",
                       "a path reaches ctx.lua_invoke(...) for a top-level invocation (environment stack empty) without creating or "
                       "resetting the Lua environment first", unprepared[0][0].lineno))
    else:
        rr.ok("luaexec.call_lua_sandbox", "every path to ctx.lua_invoke on which the environment stack may be empty passes "
              "initialize_lua(ctx) or ctx.lua_reset_env()", {"paths_to_invoke": len(reached)})
    # both stacks popped after the call on every path: statements after the try
    ke, _ne = X.lua_stack_cleanup(fn, "lua_env_stack")
    kf, _nf = X.lua_stack_cleanup(fn, "lua_frame_stack")
    if ke is not None and kf is not None:
        rr.ok("luaexec.call_lua_sandbox", "env and frame stacks popped after the try on every path")
    else:
        rr.bad(Finding("C09.R3", LX, "luaexec.call_lua_sandbox", "lua_env_stack.pop() / lua_frame_stack.pop()",
                       "the per-invocation environment/frame is not popped on every path after the Lua call (the exception path "
                       "skips it): lua_env_stack never becomes empty again and the environment is no longer reset", fn.lineno))
    # Lua side
    p2 = ctx.lua.file("_sandbox_phase2.lua")
    inv_fn = p2.func_named("_lua_invoke")
    if inv_fn is None:
        raise AnalysisError("_lua_invoke vanished from _sandbox_phase2.lua")
    loads = [c for c in L.calls_in(inv_fn) if c.kind == "call" and L.text(c.func) == "_new_loader"]
    if not loads:
        raise AnalysisError("_lua_invoke: _new_loader call vanished")
    for c in loads:
        envarg = c.args[1] if len(c.args) > 1 else None
        val = envarg
        if envarg is not None and envarg.kind == "name":
            d = p2.res.ref.get(envarg)
            if d is not None and d.value is not None and not d.assigned_later:
                val = d.value
        ok = val is not None and val.kind == "call" and L.text(val.func) in ("_mw_clone", "mw_clone", "mw.clone")
        if ok:
            rr.ok("_sandbox_phase2.lua:_lua_invoke", "module environment = " + L.text(val), {"env": L.text(val)})
        else:
            rr.bad(Finding("C09.R3", P2, "_lua_invoke", "_new_loader(mod_name, {})".format(L.text(val) if val is not None else "nil"),
                           "the module is not always run in a fresh clone of the environment: writes to library tables (string.x = ..., "
                           "math.y = ...) by one invocation stay visible to later invocations and pages", c.line))
    p1 = ctx.lua.file("_sandbox_phase1.lua")
    ld = p1.func_named("new_loadData")
    if ld is None:
        raise AnalysisError("new_loadData vanished")
    lcalls = [c for c in L.calls_in(ld) if c.kind == "call" and L.text(c.func) == "new_loader"]
    if lcalls and all(len(c.args) > 1 and c.args[1].kind == "call" and L.text(c.args[1].func) == "mw_clone" for c in lcalls):
        rr.ok("_sandbox_phase1.lua:new_loadData", "data modules run in mw_clone(env)")
    else:
        rr.bad(Finding("C09.R3", P1, "new_loadData", "new_loader(modname, mw_clone(env))", "data modules no longer run in a cloned environment", ld.line))
    # reset clears package.loaded (except retained) and env (except kept)
    rs = p1.func_named("_lua_reset_env")
    clears = [n for n in L.walk(rs) if n.kind == "assign" and any(t.kind == "index" and v.kind == "nil" for t, v in zip(n.targets, n.exprs))]
    targets = {L.text(t.obj) for n in clears for t in n.targets if t.kind == "index"}
    if "package.loaded" in targets and "env" in targets:
        rr.ok("_sandbox_phase1.lua:_lua_reset_env", "clears package.loaded[k] and env[key]")
    else:
        rr.bad(Finding("C09.R3", P1, "_lua_reset_env", "package.loaded[k] = nil / env[key] = nil", "the reset no longer clears the module cache and the environment", rs.line))
    return rr


def _retained_keys(p1) -> list:
    """[(key text, is_page_store, line)]"""
    out = []
    decl = [d for d in p1.res.decls if d.name == "retained_modules"]
    if not decl or decl[0].value is None or decl[0].value.kind != "table":
        raise AnalysisError("retained_modules table vanished")
    for k, v in decl[0].value.fields:
        out.append((L.const_string(k) or L.text(k), False, k.line))
    for n in L.walk(p1.chunk):
        if n.kind == "assign":
            for t in n.targets:
                if t.kind == "index" and t.obj.kind == "name" and t.obj.id == "retained_modules":
                    ks = L.const_string(t.key)
                    if ks is not None:
                        out.append((ks, False, n.line))
                    else:
                        out.append((L.text(t.key), "module_namespace_name" in L.text(t.key), n.line))
    return out


LUA_BUILTIN_LIBS = {"coroutine", "math", "io", "os", "package", "table", "string", "debug", "_G", "python", "utf8"}


def rule_r4(ctx) -> RuleResult:
    rr = RuleResult("C09.R4", "only shipped libraries survive the Lua reset", min_instances=20)
    p1 = ctx.lua.file("_sandbox_phase1.lua")
    keys = _retained_keys(p1)
    shipped = {os.path.splitext(f)[0] for f in ctx.lua.files}
    scrib = {"ustring:ustring", "ustring/lower", "ustring/upper", "ustring/charsets", "ustring/normalization-data", "libraryUtil"}
    rr.instances["retained_keys"] = len(keys)
    for key, page_store, line in keys:
        if page_store:
            rr.bad(Finding("C09.R4", P1, "retained_modules", "retained_modules[{}]".format(key),
                           "a module loaded from the page store is kept in the module cache across pages; its module-level state (and any "
                           "table it returns) survives start_page", line))
        elif key in shipped or key in LUA_BUILTIN_LIBS or key in scrib:
            rr.ok("retained_modules", key, {"retained": key, "kind": "shipped/builtin library"})
        else:
            rr.bad(Finding("C09.R4", P1, "retained_modules", "retained_modules[{!r}]".format(key),
                           "retained module is neither a shipped library nor a Lua builtin", line))
    return rr


def rule_r5(ctx) -> RuleResult:
    rr = RuleResult("C09.R5", "shared library tables are not writable through getmetatable", min_instances=1)
    p1 = ctx.lua.file("_sandbox_phase1.lua")
    rs = p1.func_named("_lua_reset_env")
    gm = None
    for n in L.walk(rs):
        if n.kind == "assign":
            for t, v in zip(n.targets, n.exprs):
                if t.kind == "index" and t.obj.kind == "name" and t.obj.id == "env" and L.const_string(t.key) == "getmetatable":
                    gm = L.origin_of(p1, v)
    if gm is None:
        rr.ok("_lua_reset_env", "getmetatable is not exposed")
        return rr
    protected = any(n.kind == "assign" and any("__metatable" in L.text(t) for t in n.targets) for n in L.walk(p1.chunk))
    if gm.kind == "global" and gm.path == "getmetatable" and not protected:
        rr.bad(Finding("C09.R5", P1, "_lua_reset_env", "env['getmetatable'] = getmetatable",
                       "the raw getmetatable is exposed and the string metatable is not protected with __metatable: a module can reach the one "
                       "shared `string` table through getmetatable('').__index and change string.upper etc. for every later page", rs.line))
    else:
        rr.ok("_lua_reset_env", "getmetatable wrapped or string metatable protected")
    return rr


def rule_r6(ctx) -> RuleResult:
    rr = RuleResult("C09.R6", "mw.loadData results are handed out read-only", min_instances=1)
    p1 = ctx.lua.file("_sandbox_phase1.lua")
    for name in ("new_loadData", "new_loadJsonData"):
        fn = p1.func_named(name)
        if fn is None:
            raise AnalysisError(name + " vanished")
        stores = [n for n in L.walk(fn) if n.kind == "assign" and any(t.kind == "index" and L.text(t.obj) == "loaddata_cache" for t in n.targets)]
        raw = [n for n in stores if n.exprs and n.exprs[0].kind == "name"]
        wrapped = [n for n in stores if n.exprs and n.exprs[0].kind in ("call", "methcall")]
        if raw and not wrapped:
            rr.bad(Finding("C09.R6", P1, name, L.text(raw[0].targets[0]) + " = " + L.text(raw[0].exprs[0]),
                           "the table returned by a data module is cached and handed to every caller as-is (Scribunto wraps it read-only): "
                           "a write by one invocation is seen by the next invocation on the page", raw[0].line))
        else:
            rr.ok(name, "cached value passes through a wrapper")
    return rr


def rule_r7(ctx) -> RuleResult:
    rr = RuleResult("C09.R7", "the host module cache is not writable from the module environment", min_instances=1)
    p1 = ctx.lua.file("_sandbox_phase1.lua")
    from . import c06
    rs, env_assigns = c06._env_assignments(p1)
    exposed = {}
    for key, v, node in env_assigns:
        o = L.origin_of(p1, v)
        if o.kind == "function":
            exposed[key] = o.node
    n_checked = 0
    for key, fn in sorted(exposed.items(), key=lambda x: str(x[0])):
        n_checked += 1
        hit = None
        for n in L.walk(fn):
            if n.kind == "assign":
                for t, v in zip(n.targets, n.exprs):
                    if t.kind != "index":
                        continue
                    base = L.origin_of(p1, t.obj)
                    if base.kind == "global" and base.path == "package.loaded":
                        ko, vo = L.origin_of(p1, t.key), L.origin_of(p1, v)
                        if ko.kind == "param" and vo.kind == "param":
                            hit = n
        if hit is not None:
            rr.bad(Finding("C09.R7", P1, "env." + str(key), L.text(hit.targets[0]) + " = " + L.text(hit.exprs[0]),
                           "a function exposed to modules stores a caller-supplied value into the host package.loaded under a caller-supplied "
                           "key: a module can replace a retained library (e.g. mw_text) for every later page", hit.line))
        else:
            rr.ok("env." + str(key), "does not write package.loaded with caller data")
    rr.instances["exposed_sandbox_functions"] = n_checked
    return rr


def rule_r8(ctx) -> RuleResult:
    """Objects captured by identity when the Lua runtime is initialised (the arguments bound
    into the callbacks handed to Lua) live as long as the runtime: the per-page reset has to
    empty them in place.  Rebinding the attribute leaves Lua with the old object, so the
    environments of earlier invocations stay visible to later pages."""
    rr = RuleResult("C09.R8", "attributes whose object is captured by the Lua runtime are never rebound after construction", min_instances=2)
    captured = {}
    for dotted, m, f in ctx.index.all_functions():
        if not dotted.startswith("luaexec."):
            continue
        for c in walk_no_nested(f):
            if isinstance(c, ast.Call) and unparse(c.func) in ("_bind", "functools.partial", "partial"):
                for a in c.args[1:]:
                    if isinstance(a, ast.Attribute) and isinstance(a.value, ast.Name) and a.value.id in ("self", "ctx", "wtp"):
                        captured.setdefault(a.attr, (dotted, c))
    if not captured:
        raise AnalysisError("no context object bound into a Lua callback found (2 confirmed by hand: lua_env_stack, lua_frame_stack)")
    for attr, (where, c) in sorted(captured.items()):
        rebinds = []
        for dotted, m, f in ctx.index.all_functions():
            if dotted == "core.Wtp.__init__":
                continue
            for n in walk_no_nested(f):
                tgs = n.targets if isinstance(n, ast.Assign) else [n.target] if isinstance(n, (ast.AnnAssign, ast.AugAssign)) else []
                if isinstance(n, ast.AnnAssign) and n.value is None:
                    continue
                for t in tgs:
                    for tt in (t.elts if isinstance(t, (ast.Tuple, ast.List)) else [t]):
                        if isinstance(tt, ast.Attribute) and tt.attr == attr and isinstance(tt.value, ast.Name) \
                                and tt.value.id in ("self", "ctx", "wtp"):
                            rebinds.append((m, dotted, n))
        if rebinds:
            for m, dotted, n in rebinds:
                rr.bad(Finding("C09.R8", m.relpath, dotted, unparse(n)[:80],
                               "`{}` is rebound here, but the object it held was bound into a Lua callback in {} (`{}`): Lua keeps using the "
                               "old object, so Lua environments/frames of earlier invocations and pages are never discarded".format(
                                   attr, where, unparse(c)[:60]), n.lineno))
        else:
            rr.ok(where, "<ctx>.{} captured by {}; only mutated in place".format(attr, unparse(c)[:50]), {"attr": attr, "captured_in": where})
    return rr


# chunk-level Lua tables that may keep their content for the life of the runtime
LUA_CACHE_ALLOW = {
    "loader_cache": "compiled chunk functions keyed by module name; a module cannot change a function it is given "
                    "(setfenv/debug are denied) and each use gets its own environment",
}


def rule_r9(ctx) -> RuleResult:
    """Lua-side analogue of R1: a chunk-level table of the sandbox sources that is written inside a
    function (a cache filled while modules run) must be emptied by one of the reset functions the
    host calls -- `_lua_reset_env` (every top-level invocation) or the function handed to Python as
    the per-page clear hook -- or be allow-listed with a reason."""
    rr = RuleResult("C09.R9", "Lua-side caches filled while modules run are emptied by a reset function", min_instances=2)
    p1 = ctx.lua.file("_sandbox_phase1.lua")
    # reset functions: _lua_reset_env and every function returned to Python by the chunk
    resets = {}
    f = p1.func_named("_lua_reset_env")
    if f is None:
        raise AnalysisError("_lua_reset_env vanished")
    resets["_lua_reset_env"] = f
    for st in p1.chunk.body:
        if st.kind == "return":
            for e in st.exprs:
                if e.kind == "table":
                    for _, v in e.fields:
                        o = L.origin_of(p1, v)
                        if o.kind == "function" and v.kind == "name":
                            resets[v.id] = o.node
    # the per-page hook must really be wired on the Python side
    sp = ctx.fn("core.Wtp.start_page")
    if not any(isinstance(c, ast.Call) and unparse(c.func).endswith("lua_clear_loaddata_cache") for c in ast.walk(sp)):
        raise AnalysisError("start_page no longer calls lua_clear_loaddata_cache")
    for lf in (p1, ctx.lua.file("_sandbox_phase2.lua")):
        tabs = {d for d in lf.res.decls if d.func is lf.chunk and d.kind == "local" and d.value is not None and d.value.kind == "table"}
        written = {}
        cleared = set()
        for n in L.walk(lf.chunk):
            if n.kind != "assign":
                continue
            fn = lf.res.func_of.get(n)
            for i, t in enumerate(n.targets):
                v = n.exprs[i] if i < len(n.exprs) else None
                if t.kind == "index" and t.obj.kind == "name":
                    d = lf.res.ref.get(t.obj)
                    if d in tabs and fn is not lf.chunk:
                        if any(fn is r for r in resets.values()):
                            if v is not None and v.kind == "nil":
                                cleared.add(d)
                        else:
                            written.setdefault(d, []).append(n)
                elif t.kind == "name":
                    d = lf.res.ref.get(t)
                    if d in tabs and any(fn is r for r in resets.values()) and v is not None and v.kind == "table" and not v.fields:
                        cleared.add(d)
        for d, sites in sorted(written.items(), key=lambda x: x[0].name):
            where = "{}:{}".format(lf.name, d.name)
            if d in cleared:
                rr.ok(where, "emptied by a reset function", {"table": d.name, "writes": len(sites)})
            elif d.name in LUA_CACHE_ALLOW:
                rr.ok(where, "allow-listed: " + LUA_CACHE_ALLOW[d.name], {"table": d.name, "allow": True})
            else:
                n = sites[0]
                rr.bad(Finding("C09.R9", "src/wikitextprocessor/lua/" + lf.name, d.name, L.text(n.targets[0]) + " = " + L.text(n.exprs[0]),
                               "the chunk-level table `{}` is filled while modules run and no reset function empties it: what one page "
                               "stores (and may later mutate in place) is handed to every later page of the same context".format(d.name), n.line))
    return rr


def rule_r10(ctx, cg: CallGraph) -> RuleResult:
    """A memoised method returns, for an argument seen before, what it computed on an earlier page.
    That is only sound if it neither writes nor allocates per-page state: no function decorated
    with lru_cache/cache may reach (through E3) a statement that mutates a context attribute."""
    rr = RuleResult("C09.R10", "memoised functions neither write nor allocate per-page state", min_instances=1)
    memo = []
    for dotted, m, f in ctx.index.all_functions():
        if any(("lru_cache" in unparse(d)) or unparse(d) in ("cache", "functools.cache") for d in f.decorator_list):
            memo.append((dotted, m, f))
    if not memo:
        rr.ok("package", "no memoised function")
        return rr
    per_page = CONFIRMED_PER_PAGE | CONFIRMED_PER_PARSE
    lua_callbacks = set(cg.lua_helpers) | {d for d, _, _ in ctx.index.all_functions() if d.startswith("luaexec.call_lua_sandbox.make_frame.")}
    for dotted, m, f in memo:
        hit = None
        for callee in sorted(cg.closure([dotted])):
            if not ctx.index.has_func(callee):
                continue
            for a, node, kind in _mutations(ctx.index.func(callee), callee.startswith("core.Wtp."), False):
                if a in per_page:
                    hit = (callee, a, node)
                    break
            if hit:
                break
        if dotted in lua_callbacks:
            rr.bad(Finding("C09.R10", m.relpath, dotted, "@lru_cache on " + dotted.split(".")[-1],
                           "this function is handed to the Lua sandbox as a callback and is memoised: every invocation that calls it with the "
                           "same arguments receives the very same (mutable) table, so what one module changes in it is seen by later "
                           "invocations and pages -- the per-invocation clone and the resets only cover tables reachable from the sandbox "
                           "environment", f.lineno))
            continue
        if hit:
            callee, a, node = hit
            rr.bad(Finding("C09.R10", m.relpath, dotted, "@lru_cache on {} -> {}: {}".format(dotted.split(".")[-1], callee, unparse(node)[:50]),
                           "a memoised function reaches a write of the per-page attribute `{}`: on a later page the cached result refers to "
                           "state (e.g. cookie numbers) of the page on which it was first computed".format(a), f.lineno))
        else:
            rr.ok(dotted, "memoised and free of per-page effects", {"fn": dotted, "closure": len(cg.closure([dotted]))})
    return rr


def rule_r11(ctx) -> RuleResult:
    """`_lua_invoke` takes a non-empty environment stack for `this is a nested invocation`: it then neither resets the sandbox
    environment nor reloads modules.  An entry left behind by a failed invocation therefore makes every later invocation of the
    page inherit the modules' state (seed C09-10A).  Shared with part (a) of C07.R10."""
    from ..core.report import shared
    from . import c07

    return shared(c07.stack_cutback(ctx), "C09.R11", "the Lua stacks are back at their entry length after every invocation (shared with C07.R10a)",
                  "every later #invoke on the page is taken for a nested one: the environment is not reset and `package.loaded` is reused, "
                  "so module-level state of one invocation is visible in the next", min_instances=2)


def run(ctx) -> list:
    cg = CallGraph(ctx.index)
    results = [rule_r1(ctx, cg), rule_r2(ctx), rule_r3(ctx), rule_r4(ctx), rule_r5(ctx), rule_r6(ctx), rule_r7(ctx), rule_r8(ctx), rule_r9(ctx), rule_r10(ctx, cg), rule_r11(ctx)]
    if ctx.thorough:
        from ..core.cgcheck import crosscheck

        results.append(crosscheck(ctx, cg, "C09.CG"))
    return results
