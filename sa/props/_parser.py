"""Shared machinery for the parser properties (C01, C02, C03, C19): recovered
tables, the handler set, and the set-valued typestate walk over the kind that
is on top of the parser stack."""

from __future__ import annotations

import ast

from ..core.flow import Flow, Outcome
from ..core.index import EnumMember, FlagSet, FuncRef, Unfoldable, unparse, walk_no_nested
from ..core.report import AnalysisError

PARSER = "src/wikitextprocessor/parser.py"
TOP = "TOP"

# helpers that neither push nor pop the parser stack (frozen after reading them)
STACK_NEUTRAL = {
    "_parser_have", "_parser_merge_str_children", "parse_attrs", "check_for_attributes", "table_check_attrs",
    "len", "isinstance", "range", "reversed", "any", "all", "re.match", "re.finditer", "ord", "enumerate", "str",
}
STACK_NEUTRAL_METHODS = {"debug", "error", "warning", "note", "wiki_notice", "startswith", "endswith", "get", "lower", "isspace",
                         "contain_node", "strip", "append", "group", "isdigit", "isdecimal", "find", "index", "count", "format", "join",
                         "match", "node_to_wikitext"}
# kinds that are only ever pushed under one parent kind (established by R8 itself)
FIXED_PARENT = {"TABLE_CAPTION": "TABLE", "TABLE_ROW": "TABLE", "TABLE_HEADER_CELL": "TABLE_ROW", "TABLE_CELL": "TABLE_ROW",
                "LIST_ITEM": "LIST"}


def all_kinds(ctx) -> list:
    nk = ctx.index.const("parser", "NodeKind")
    return list(nk.members)


def kind_name(ctx, e: ast.AST):
    """'TABLE' for NodeKind.TABLE; frozenset of names for tuples / flag constants; None otherwise"""
    try:
        v = ctx.index.fold("parser", e)
    except Unfoldable:
        return None
    except Exception:  # noqa: BLE001
        return None
    if isinstance(v, EnumMember):
        return frozenset([v.name])
    if isinstance(v, (tuple, list, set, frozenset)) and v and all(isinstance(x, EnumMember) for x in v):
        return frozenset(x.name for x in v)
    if isinstance(v, dict) and v and all(isinstance(x, EnumMember) for x in v):
        return frozenset(x.name for x in v)
    return None


def is_stack_top(e: ast.AST) -> bool:
    return isinstance(e, ast.Subscript) and unparse(e) in ("ctx.parser_stack[-1]",)


class TopKind(Flow):
    """state = (topset, aliases) ; topset is TOP or a frozenset of kind names;
    aliases = frozenset of local names known to equal ctx.parser_stack[-1]"""

    _cg_cache: dict = {}

    @classmethod
    def _graph(cls, ctx):
        key = id(ctx.index)
        if key not in cls._cg_cache:
            from ..core.callgraph import CallGraph

            cg = CallGraph(ctx.index)
            mutators = set()
            for dotted, m, f in ctx.index.all_functions():
                for n in walk_no_nested(f):
                    if isinstance(n, ast.Call) and unparse(n.func) in ("ctx.parser_stack.pop", "ctx.parser_stack.append"):
                        mutators.add(dotted)
                    if isinstance(n, ast.Assign) and any(unparse(t) == "ctx.parser_stack" for t in n.targets):
                        mutators.add(dotted)
            cls._cg_cache[key] = (cg, cg.reaches(mutators))
        return cls._cg_cache[key]

    def __init__(self, ctx, fnname: str, int_ranges=None):
        self.ctx = ctx
        self.fnname = fnname
        self.lost_precision = []  # calls that may change the stack in a way the walk does not model
        self.int_ranges = int_ranges or {}  # local name -> (lo, hi) inclusive
        self.kinds = frozenset(all_kinds(ctx))
        self.pushes = []  # (call node, kind name, topset)
        self.pops = []  # (call node, topset)

    # -- helpers
    def _refine(self, top, ks: frozenset, positive: bool):
        base = self.kinds if top == TOP else top
        return frozenset(base & ks) if positive else frozenset(base - ks)

    def _kind_test(self, t: ast.AST, aliases):
        """(kinds, positive) if t tests <alias>.kind against constant kinds"""
        if isinstance(t, ast.Compare) and len(t.ops) == 1 and isinstance(t.left, ast.Attribute) and t.left.attr == "kind":
            base = t.left.value
            if (isinstance(base, ast.Name) and base.id in aliases) or is_stack_top(base):
                ks = kind_name(self.ctx, t.comparators[0])
                if ks is not None:
                    op = t.ops[0]
                    if isinstance(op, (ast.Eq, ast.In)):
                        return ks, True
                    if isinstance(op, (ast.NotEq, ast.NotIn)):
                        return ks, False
        return None

    def _table_level_test(self, t, top, al):
        """`TABLE.get(<top>.kind, D) < NAME` with NAME in a known integer range: split the
        kinds on top into those for which the test is certainly true / certainly false / either"""
        if not (isinstance(t, ast.Compare) and len(t.ops) == 1 and isinstance(t.ops[0], (ast.Lt, ast.LtE, ast.Gt, ast.GtE))):
            return None
        l, r = t.left, t.comparators[0]
        if not (isinstance(l, ast.Call) and isinstance(l.func, ast.Attribute) and l.func.attr == "get" and len(l.args) == 2
                and isinstance(l.args[0], ast.Attribute) and l.args[0].attr == "kind"
                and isinstance(l.args[0].value, ast.Name) and l.args[0].value.id in al
                and isinstance(r, ast.Name) and r.id in self.int_ranges):
            return None
        try:
            table = self.ctx.index.fold("parser", l.func.value)
            default = self.ctx.index.fold("parser", l.args[1])
        except Exception:  # noqa: BLE001
            return None
        lo, hi = self.int_ranges[r.id]
        base = self.kinds if top == TOP else top
        yes, no = set(), set()
        tbl = {k.name: v for k, v in table.items() if isinstance(k, EnumMember)}
        for k in base:
            v = tbl.get(k, default)
            op = t.ops[0]
            res = set()
            for lev in (lo, hi):
                res.add({ast.Lt: v < lev, ast.LtE: v <= lev, ast.Gt: v > lev, ast.GtE: v >= lev}[type(op)])
            if True in res:
                yes.add(k)
            if False in res:
                no.add(k)
        return frozenset(yes), frozenset(no)

    def branch(self, test, state):
        (s,) = self.transfer_expr(test, state)
        top, al = s
        if isinstance(test, ast.BoolOp):
            # and: true branch refines by every positive kind test; or: false branch by every negated one
            tt, ff = s, s
            for v in test.values:
                kt = self._kind_test(v, al)
                if kt is None:
                    continue
                ks, pos = kt
                if isinstance(test.op, ast.And):
                    tt = (self._refine(tt[0], ks, pos), al)
                else:
                    ff = (self._refine(ff[0], ks, not pos), al)
            # an empty set of kinds means the branch is infeasible
            return ([tt] if tt[0] else []), ([ff] if ff[0] else [])
        if isinstance(test, ast.UnaryOp) and isinstance(test.op, ast.Not):
            a, b = self.branch(test.operand, state)
            return b, a
        tt = self._table_level_test(test, top, al)
        if tt is not None:
            yes, no = tt
            return ([(yes, al)] if yes else []), ([(no, al)] if no else [])
        kt = self._kind_test(test, al)
        if kt is not None:
            ks, pos = kt
            t_ = (self._refine(top, ks, pos), al)
            f_ = (self._refine(top, ks, not pos), al)
            out_t = [t_] if t_[0] else []
            out_f = [f_] if f_[0] else []
            return out_t, out_f
        return [s], [s]

    def _call_effect(self, c: ast.Call, state):
        top, al = state
        f = unparse(c.func)
        if f == "_parser_push":
            ks = kind_name(self.ctx, c.args[1]) if len(c.args) > 1 else None
            if ks is not None and len(ks) == 1:
                k = next(iter(ks))
                self.pushes.append((c, k, top))
                return (frozenset([k]), frozenset())
            self.pushes.append((c, None, top))
            return (TOP, frozenset())
        if f == "_parser_pop":
            self.pops.append((c, top))
            if top != TOP and len(top) >= 1 and all(k in FIXED_PARENT for k in top):
                return (frozenset(FIXED_PARENT[k] for k in top), frozenset())
            return (TOP, frozenset())
        if f in STACK_NEUTRAL:
            return state
        if isinstance(c.func, ast.Attribute) and c.func.attr in STACK_NEUTRAL_METHODS:
            return state
        if f in ("ctx.parser_stack.pop", "ctx.parser_stack.append"):
            self.lost_precision.append(c)
            return (TOP, frozenset())
        # resolve the callee: only package functions that can reach a stack mutation matter
        cg, affecting = self._graph(self.ctx)
        owner = self.fnname if self.fnname in cg.edges else None
        if owner is not None:
            callees = cg.callees_in(owner, c)
            pkg = {x for x in callees if not x.startswith("%")}
            if not (pkg & affecting) and "%expander" not in callees:
                return state
        self.lost_precision.append(c)
        return (TOP, frozenset())

    def transfer_expr(self, node, state):
        if node is None:
            return [state]
        calls = [c for c in ast.walk(node) if isinstance(c, ast.Call)]
        calls.sort(key=lambda c: (c.end_lineno, c.end_col_offset))
        for c in calls:
            state = self._call_effect(c, state)
        return [state]

    def transfer(self, st, state):
        (s,) = self.transfer_expr(st, state)
        top, al = s
        if isinstance(st, ast.Assign) and len(st.targets) == 1 and isinstance(st.targets[0], ast.Name):
            v = st.targets[0].id
            if is_stack_top(st.value):
                al = al | {v}
            elif isinstance(st.value, ast.Call) and unparse(st.value.func) == "_parser_push":
                al = frozenset([v])
            else:
                al = al - {v}
            return [(top, al)]
        if isinstance(st, ast.Assign):
            # node.kind = NodeKind.X retypes the top node
            t = st.targets[0]
            if isinstance(t, ast.Attribute) and t.attr == "kind" and isinstance(t.value, ast.Name) and t.value.id in al:
                ks = kind_name(self.ctx, st.value)
                if ks is not None:
                    return [(ks, al)]
                return [(TOP, al)]
        return [(top, al)]

    def for_target(self, node, state):
        top, al = state
        names = {n.id for n in ast.walk(node.target) if isinstance(n, ast.Name)}
        return [(top, al - names)]


def handlers(ctx) -> dict:
    """token handler functions of the parser: tokenops values + functions called by process_text's dispatch"""
    out = {}
    tk = ctx.index.consts("parser").get("tokenops", {})
    for v in tk.values():
        if isinstance(v, FuncRef):
            out["parser." + v.name] = ctx.index.func("parser." + v.name)
    pt = ctx.index.func("parser.process_text")
    for n in walk_no_nested(pt):
        if isinstance(n, ast.Call) and isinstance(n.func, ast.Name) and ctx.index.has_func("parser." + n.func.id):
            out["parser." + n.func.id] = ctx.index.func("parser." + n.func.id)
    return out
