"""C16 -- the expansion path and the message lists are consistent after every call.

R1  balanced expansion path: path-sensitive push/pop balance of `.expand_stack`
    in every function of the package that pushes or pops it.
R2  who may assign: `.expand_stack` is assigned only in Wtp.__init__ and
    Wtp.start_page; everywhere else it is only appended to, popped and read.
R3  message records: the five recorders append dict displays whose key set is
    ErrorMessageData's, with title/section/subsection/path read from self, each
    into its own list; to_return exposes the five lists under their names.
R4  start_page re-initialises all five message lists with fresh empty lists.
"""

from __future__ import annotations

import ast

from ..core.flow import Flow
from ..core.index import unparse, walk_no_nested
from ..core.report import AnalysisError, Finding, RuleResult

EXPLANATION = (
    "Static push/pop balance of the expansion path (`expand_stack`) on every path to "
    "every return and around every loop iteration, in every function of the package that "
    "pushes or pops it (nested closures summarised first, the snapshot/restore idiom of "
    "call_lua_sandbox modelled); plus who may assign the path, the shape of the five "
    "message recorders against ErrorMessageData, and the per-page reset of the lists. "
    "Decides that no normally-returning call can leave the path longer or shorter than it "
    "found it; does not decide message *texts*."
)
ASSUMPTIONS = [
    "user-supplied callbacks (template_fn, post_template_fn, template_override_funcs, node handlers) do not touch expand_stack themselves (they may re-enter expand(); an exception out of that nested call leaves its frames on the path)",
    "exceptions that propagate out of expand()/parse() are outside the property (it speaks of calls that return)",
    "a callee analysed by this rule is assumed balanced at its call sites; its own imbalance is reported at its own exits",
]

STACK = "expand_stack"
RECORDERS = {
    "error": "errors",
    "warning": "warnings",
    "debug": "debugs",
    "note": "notes",
    "wiki_notice": "wiki_notices",
}


def _is_stack_attr(n: ast.AST) -> bool:
    return isinstance(n, ast.Attribute) and n.attr == STACK


def _stack_call(c: ast.Call):
    """'append' / 'pop' / other method name when c is <x>.expand_stack.<m>(...)"""
    f = c.func
    if isinstance(f, ast.Attribute) and _is_stack_attr(f.value):
        return f.attr
    return None


def _is_len_of_stack(e: ast.AST) -> bool:
    return (
        isinstance(e, ast.Call)
        and isinstance(e.func, ast.Name)
        and e.func.id == "len"
        and len(e.args) == 1
        and _is_stack_attr(e.args[0])
    )


INF = float("inf")
# calls that run foreign code which can swallow an exception raised by one of
# our own callbacks after that callback has pushed (Lua pcall / error handling)
SWALLOWING_CALLS = ("lua_invoke",)


class Balance(Flow):
    """state = (delta, frozenset((snapshot_name, delta_at_snapshot)))
    delta == INF: an unknown number of entries may have been left behind by a
    callee whose exception was swallowed."""

    def __init__(self, rr: RuleResult, relfile: str, qual: str, cg=None, push_reach=frozenset()):
        self.rr = rr
        self.relfile = relfile
        self.qual = qual
        self.cg = cg
        self.push_reach = push_reach
        self.pushes = 0
        self.pops = 0
        self.restores = 0
        self.catch_boundaries = 0
        self._try_of_handler: dict = {}

    def run_stmt(self, st, states):
        if isinstance(st, ast.Try):
            for h in st.handlers:
                self._try_of_handler[h] = st
        return self._run_stmt2(st, states)

    def with_enter(self, node, state):
        out = list(Flow.with_enter(self, node, state))
        for it in node.items:
            c = it.context_expr
            if isinstance(c, ast.Call) and unparse(c.func).split(".")[-1] in _STACK_CMS:
                out = [(d + 1, sn) for d, sn in out]
                self.pushes += 1
        return out

    def with_exit(self, node, state):
        d, sn = state
        for it in node.items:
            c = it.context_expr
            if isinstance(c, ast.Call) and unparse(c.func).split(".")[-1] in _STACK_CMS:
                d = d - 1
                self.pops += 1
        return [(d, sn)]

    def handler_entry(self, handler, state):
        st = self._try_of_handler.get(handler)
        if st is None or self.cg is None:
            return [state]
        # every handler counts, whatever class it names: the nested expansion below runs
        # user hooks and database lookups, so an exception of *any* class can arrive here
        # with entries pushed by the abandoned inner frames (seed C16-2B: a ValueError
        # from a template_fn hook, a UnicodeEncodeError from the page lookup).  A handler
        # that always re-raises never reaches a normal exit and so discharges itself.
        reach = False
        for b in st.body:
            for callee in self.cg.callees_in(self.qual, b):
                if callee in self.push_reach or callee == "%expander":
                    reach = True
                # a user hook may re-enter expand() (the documented use of template_fn / post_template_fn); when that nested
                # expansion raises, the frames it pushed are still on the path when the exception arrives here
                if callee in ("%ext:template_fn", "%ext:post_template_fn", "%ext:node_handler_fn"):
                    reach = True
        if reach:
            self.catch_boundaries += 1
            return [(INF, state[1])]
        return [state]

    def _calls_in_order(self, node: ast.AST):
        out = []

        def rec(n):
            if isinstance(n, (ast.FunctionDef, ast.AsyncFunctionDef)):
                return
            if isinstance(n, (ast.Lambda, ast.GeneratorExp, ast.ListComp, ast.SetComp, ast.DictComp)):
                for c in ast.walk(n):
                    if isinstance(c, ast.Call) and _stack_call(c) in ("append", "pop"):
                        raise AnalysisError(
                            "{}: push/pop of expand_stack inside a lambda/comprehension "
                            "(line {}) is outside the supported fragment".format(self.qual, c.lineno)
                        )
                return
            for ch in ast.iter_child_nodes(n):
                rec(ch)
            if isinstance(n, ast.Call):
                out.append(n)

        rec(node)
        return out

    def transfer_expr(self, node, state):
        if node is None:
            return [state]
        delta, snaps = state
        for c in self._calls_in_order(node):
            m = _stack_call(c)
            if m == "append":
                delta += 1
                self.pushes += 1
            elif m == "pop":
                delta -= 1
                self.pops += 1
            elif isinstance(c.func, ast.Attribute) and c.func.attr in SWALLOWING_CALLS:
                delta = INF
                self.catch_boundaries += 1
        return [(delta, snaps)]

    def transfer(self, st, state):
        (delta, snaps), = self.transfer_expr(st, state)
        # snapshot: NAME = len(x.expand_stack)
        if (
            isinstance(st, ast.Assign)
            and len(st.targets) == 1
            and isinstance(st.targets[0], ast.Name)
            and _is_len_of_stack(st.value)
        ):
            name = st.targets[0].id
            snaps = frozenset([x for x in snaps if x[0] != name] + [(name, delta)])
        return [(delta, snaps)]

    def _run_stmt2(self, st, states):
        # restore idiom: while len(x.expand_stack) > NAME: x.expand_stack.pop()
        if isinstance(st, ast.While) and self._is_restore(st):
            name = st.test.comparators[0].id
            out = set()
            for delta, snaps in states:
                snap = dict(snaps).get(name)
                if snap is None:
                    raise AnalysisError(
                        "{}: restore loop at line {} uses an unknown snapshot {}".format(
                            self.qual, st.lineno, name
                        )
                    )
                out.add((min(delta, snap), snaps))
            self.restores += 1
            from ..core.flow import Outcome

            return Outcome(fall=out)
        return Flow.run_stmt(self, st, states)

    @staticmethod
    def _is_restore(st: ast.While) -> bool:
        t = st.test
        if not (
            isinstance(t, ast.Compare)
            and len(t.ops) == 1
            and isinstance(t.ops[0], ast.Gt)
            and _is_len_of_stack(t.left)
            and isinstance(t.comparators[0], ast.Name)
        ):
            return False
        if len(st.body) != 1 or st.orelse:
            return False
        b = st.body[0]
        return (
            isinstance(b, ast.Expr)
            and isinstance(b.value, ast.Call)
            and _stack_call(b.value) == "pop"
        )

    def loop_backedge(self, loop, entry, state, via):
        entry_deltas = {d for d, _ in entry}
        if state[0] not in entry_deltas:
            kind = "continue" if isinstance(via, ast.Continue) else "end of loop body"
            self.rr.bad(
                Finding(
                    rule="C16.R1",
                    file=self.relfile,
                    function=self.qual,
                    construct="loop@{} back edge via {}".format(_loop_label(loop), kind),
                    message=("one iteration of the loop changes the length of expand_stack by {:+d} "
                             "(reached through `{}` at line {})".format(int(state[0] - min(entry_deltas)), kind, getattr(via, "lineno", 0)))
                    if state[0] != INF else
                    ("one iteration of the loop can leave expand_stack longer by an unknown number of entries: an exception from a nested "
                     "expansion is caught and the iteration goes on without cutting the path back to its length before the call "
                     "(reached through `{}` at line {})".format(kind, getattr(via, "lineno", 0))),
                    line=getattr(via, "lineno", 0),
                    detail={"loop_line": loop.lineno, "delta": str(state[0]), "entry": [str(x) for x in sorted(entry_deltas)]},
                )
            )
            return None
        return state


def _loop_label(loop: ast.AST) -> str:
    if isinstance(loop, ast.For):
        return "for {} in {}".format(unparse(loop.target), unparse(loop.iter))
    return "while {}".format(unparse(loop.test))


_STACK_CMS: set = set()  # names of generator context managers that push on enter and pop on exit


def _find_stack_context_managers(ctx) -> set:
    """functions decorated with @contextmanager whose body appends to expand_stack before the yield and
    pops it after (in a finally): `with cm(...):` is then a push at entry and a pop on every way out"""
    out = set()
    for dotted, m, f in ctx.index.all_functions():
        if not any("contextmanager" in unparse(d) for d in f.decorator_list):
            continue
        ys = [n for n in walk_no_nested(f) if isinstance(n, ast.Expr) and isinstance(n.value, ast.Yield)]
        if len(ys) != 1:
            continue
        y = ys[0]
        pushes = [c for c in walk_no_nested(f) if isinstance(c, ast.Call) and _stack_call(c) == "append" and c.lineno < y.lineno]
        pops = [c for c in walk_no_nested(f) if isinstance(c, ast.Call) and _stack_call(c) == "pop" and c.lineno > y.lineno]
        in_finally = any(isinstance(t, ast.Try) and any(c in list(ast.walk(ast.Module(body=t.finalbody, type_ignores=[]))) for c in pops)
                         for t in walk_no_nested(f))
        # pop in a finally: popped on every way out; pop after the yield: popped when the body completes normally (the
        # entry is then left behind only while an exception propagates, like a bare append ... pop pair)
        if len(pushes) == 1 and len(pops) == 1:
            out.add(dotted.split(".")[-1])
    out |= _find_stack_cm_classes(ctx)
    return out


_CM_CLASS_METHODS: set = set()  # dotted names of __enter__/__exit__ of recognised context-manager classes


def _find_stack_cm_classes(ctx) -> set:
    """classes whose __enter__ appends exactly once to expand_stack and whose __exit__ pops exactly once, either
    unconditionally or under `<exc_type parameter> is None` (the entry is then left behind only while an exception
    propagates, exactly like a bare append ... pop pair): `with Cls(...):` is a push at entry and a pop at the normal exit.
    A class that pushes in __enter__ with any other __exit__ shape is outside the supported fragment."""
    out = set()
    _CM_CLASS_METHODS.clear()
    for mname, m in ctx.index.modules.items():
        for cls in [n for n in ast.walk(m.tree) if isinstance(n, ast.ClassDef)]:
            meths = {f.name: f for f in cls.body if isinstance(f, ast.FunctionDef)}
            en, ex = meths.get("__enter__"), meths.get("__exit__")
            if en is None or ex is None:
                continue
            pushes = [c for c in walk_no_nested(en) if isinstance(c, ast.Call) and _stack_call(c) == "append"]
            epops = [c for c in walk_no_nested(en) if isinstance(c, ast.Call) and _stack_call(c) == "pop"]
            pops = [c for c in walk_no_nested(ex) if isinstance(c, ast.Call) and _stack_call(c) == "pop"]
            xpush = [c for c in walk_no_nested(ex) if isinstance(c, ast.Call) and _stack_call(c) == "append"]
            if not pushes and not pops:
                continue
            good = len(pushes) == 1 and not epops and len(pops) == 1 and not xpush and any(
                isinstance(st, ast.Expr) and st.value is pushes[0] for st in en.body)
            if good:
                pop = pops[0]
                exc_param = ex.args.args[1].arg if len(ex.args.args) > 1 else None
                top = [st for st in ex.body if isinstance(st, ast.Expr) and st.value is pop]
                guarded = [st for st in ex.body if isinstance(st, ast.If) and not st.orelse and len(st.body) == 1
                           and isinstance(st.body[0], ast.Expr) and st.body[0].value is pop
                           and exc_param is not None and unparse(st.test) == "{} is None".format(exc_param)]
                good = bool(top) or bool(guarded)
            if not good:
                raise AnalysisError("class {}.{} pushes/pops expand_stack in __enter__/__exit__ in a shape outside the supported "
                                    "fragment (one append in __enter__, one pop in __exit__, unconditional or under "
                                    "`exc_type is None`)".format(mname, cls.name))
            out.add(cls.name)
            for dotted, mm, f in ctx.index.all_functions():
                if f is en or f is ex:
                    _CM_CLASS_METHODS.add(dotted)
    return out


def _uses_stack_cm(fn: ast.AST) -> bool:
    for n in walk_no_nested(fn):
        if isinstance(n, ast.With):
            for it in n.items:
                c = it.context_expr
                if isinstance(c, ast.Call) and unparse(c.func).split(".")[-1] in _STACK_CMS:
                    return True
    return False


def _touches_stack(fn: ast.AST) -> bool:
    if any("contextmanager" in unparse(d) for d in getattr(fn, "decorator_list", [])) and getattr(fn, "name", "") in _STACK_CMS:
        return False  # summarised at its `with` sites
    for n in walk_no_nested(fn):
        if isinstance(n, ast.Call) and _stack_call(n) in ("append", "pop"):
            return True
    return _uses_stack_cm(fn)


def _fmt_delta(d) -> str:
    return "an unknown number of leaked entries (a swallowed exception is not followed by a restore)" if d == INF else "{:+d}".format(int(d))


def _has_catching_try(fn: ast.AST) -> bool:
    for n in walk_no_nested(fn):
        if isinstance(n, ast.Try) and n.handlers:
            return True
    return False


def rule_r1(ctx) -> RuleResult:
    from ..core.callgraph import CallGraph

    rr = RuleResult("C16.R1", "expansion path is balanced on every return and around every loop iteration",
                    min_instances=15)
    cg = CallGraph(ctx.index)
    _STACK_CMS.clear()
    _STACK_CMS.update(_find_stack_context_managers(ctx))
    rr.instances["stack_context_managers"] = sorted(_STACK_CMS)
    pushers = {dotted for dotted, m, f in ctx.index.all_functions() if _touches_stack(f) and dotted not in _CM_CLASS_METHODS}
    push_reach = frozenset(cg.reaches(pushers))
    closure = cg.closure(["core.Wtp.expand", "core.Wtp.parse"])
    fns = []
    for dotted, m, f in ctx.index.all_functions():
        if dotted in pushers:
            fns.append((dotted, m, f))
        elif dotted in closure and dotted in push_reach and _has_catching_try(f):
            fns.append((dotted, m, f))
    rr.instances["functions_pushing_or_popping"] = len(pushers)
    rr.instances["functions_with_catch_boundary_examined"] = len(fns) - len(pushers)
    if len(pushers) < 5:
        raise AnalysisError("C16.R1: only {} functions push/pop expand_stack (7 confirmed by hand)".format(len(pushers)))
    exits = 0
    for dotted, m, f in fns:
        ctx.touched(dotted, m.relpath)
        w = Balance(rr, m.relpath, dotted, cg, push_reach)
        o = w.run_function(f, [(0, frozenset())])
        seen = {}
        for node, (delta, _) in o.ret:
            seen.setdefault(node, set()).add(delta)
        for node, deltas in seen.items():
            exits += 1
            label = (
                "implicit return at end of function"
                if isinstance(node, (ast.FunctionDef, ast.AsyncFunctionDef))
                else unparse(node)
            )
            bad = sorted(d for d in deltas if d != 0)
            if bad:
                rr.bad(
                    Finding(
                        rule="C16.R1",
                        file=m.relpath,
                        function=dotted,
                        construct=label,
                        message="this exit can be reached with expand_stack changed by {} relative to function entry".format(_fmt_delta(bad[0])),
                        line=getattr(node, "lineno", 0),
                        detail={"deltas": [str(d) for d in sorted(deltas)], "pushes": w.pushes, "pops": w.pops},
                    )
                )
            else:
                rr.ok(dotted, label, {"fn": dotted, "exit": label[:80], "delta_at_exit": 0})
        rr.instances[dotted] = {"pushes": w.pushes, "pops": w.pops, "restore_idioms": w.restores,
                                "catch_boundaries": w.catch_boundaries, "returns": len(seen)}
    rr.instances["exits"] = exits
    return rr


def rule_r2(ctx) -> RuleResult:
    rr = RuleResult("C16.R2", "expand_stack is assigned only in __init__/start_page; elsewhere append/pop/read",
                    min_instances=8)  # vacuity guard only: the number of push/pop sites shrinks when they are factored into a helper
    allowed_assign = {"core.Wtp.__init__", "core.Wtp.start_page"}
    allowed_methods = {"append", "pop", "copy", "count", "index"}
    for dotted, m, f in ctx.index.all_functions():
        for n in walk_no_nested(f):
            tgt = []
            if isinstance(n, ast.Assign):
                tgt = n.targets
            elif isinstance(n, (ast.AugAssign, ast.AnnAssign)):
                tgt = [n.target]
            elif isinstance(n, ast.Delete):
                tgt = n.targets
            for t in tgt:
                for sub in ast.walk(t):
                    if _is_stack_attr(sub):
                        ctx.touched(dotted, m.relpath)
                        whole = _is_stack_attr(t)
                        if whole and isinstance(n, (ast.Assign, ast.AnnAssign)) and dotted in allowed_assign:
                            rr.ok(dotted, unparse(n))
                        else:
                            rr.bad(Finding("C16.R2", m.relpath, dotted, unparse(n),
                                           "expand_stack is (re)assigned, deleted or sliced outside __init__/start_page",
                                           n.lineno))
            if isinstance(n, ast.Call):
                meth = _stack_call(n)
                if meth is not None:
                    ctx.touched(dotted, m.relpath)
                    if meth in allowed_methods:
                        rr.ok(dotted, unparse(n)[:60])
                    else:
                        rr.bad(Finding("C16.R2", m.relpath, dotted, unparse(n),
                                       "expand_stack is mutated with .{}(); only append/pop keep it a stack".format(meth),
                                       n.lineno))
    # start_page must seed the path with the page title
    sp = ctx.fn("core.Wtp.start_page")
    seeded = False
    for n in walk_no_nested(sp):
        if isinstance(n, ast.Assign) and any(_is_stack_attr(t) for t in n.targets):
            if isinstance(n.value, ast.List) and len(n.value.elts) == 1 and isinstance(n.value.elts[0], ast.Name) \
                    and n.value.elts[0].id == "title":
                seeded = True
                rr.ok("core.Wtp.start_page", unparse(n), {"fn": "core.Wtp.start_page", "assign": unparse(n)})
            else:
                rr.bad(Finding("C16.R2", "src/wikitextprocessor/core.py", "core.Wtp.start_page", unparse(n),
                               "start_page must reset the path to exactly [title]", n.lineno))
    if not seeded and not any(f.function == "core.Wtp.start_page" for f in rr.findings):
        rr.bad(Finding("C16.R2", "src/wikitextprocessor/core.py", "core.Wtp.start_page", "self.expand_stack = [title]",
                       "start_page no longer resets the expansion path", sp.lineno))
    return rr


def _typeddict_keys(cls: ast.ClassDef) -> list:
    return [s.target.id for s in cls.body if isinstance(s, ast.AnnAssign) and isinstance(s.target, ast.Name)]


def _mentions_self_attr(e: ast.AST, attr: str) -> bool:
    for n in ast.walk(e):
        if isinstance(n, ast.Attribute) and n.attr == attr and isinstance(n.value, ast.Name) and n.value.id == "self":
            return True
    return False


def rule_r3(ctx) -> RuleResult:
    rr = RuleResult("C16.R3", "message recorders build complete records from the current page state",
                    min_instances=30)
    keys = _typeddict_keys(ctx.index.cls("core.ErrorMessageData"))
    if len(keys) < 5:
        raise AnalysisError("ErrorMessageData has only {} keys".format(len(keys)))
    rr.instances["record_keys"] = keys
    from_self = {"title": "title", "section": "section", "subsection": "subsection", "path": STACK}
    file = "src/wikitextprocessor/core.py"
    for rec, lst in RECORDERS.items():
        dotted = "core.Wtp." + rec
        f = ctx.fn(dotted)
        appends = []
        for n in walk_no_nested(f):
            if isinstance(n, ast.Call) and isinstance(n.func, ast.Attribute) and n.func.attr == "append" \
                    and isinstance(n.func.value, ast.Attribute) and isinstance(n.func.value.value, ast.Name) \
                    and n.func.value.value.id == "self" and n.func.value.attr in RECORDERS.values():
                appends.append(n)
        if len(appends) != 1:
            rr.bad(Finding("C16.R3", file, dotted, "self.{}.append({{...}})".format(lst),
                           "recorder must append exactly one record to a message list (found {})".format(len(appends)),
                           f.lineno))
            continue
        a = appends[0]
        if a.func.value.attr != lst:
            rr.bad(Finding("C16.R3", file, dotted, unparse(a.func),
                           "recorder {}() stores into self.{} instead of self.{}".format(rec, a.func.value.attr, lst),
                           a.lineno))
        else:
            rr.ok(dotted, "appends to self." + lst)
        # unconditional: the append must be a top-level statement of the recorder
        top = [s for s in f.body if isinstance(s, ast.Expr) and s.value is a]
        if not top:
            rr.bad(Finding("C16.R3", file, dotted, "self.{}.append(...) placement".format(lst),
                           "the record is not appended unconditionally", a.lineno))
        else:
            rr.ok(dotted, "append is unconditional")
        if not (len(a.args) == 1 and isinstance(a.args[0], ast.Dict)):
            rr.bad(Finding("C16.R3", file, dotted, unparse(a)[:80], "record is not a dict display", a.lineno))
            continue
        d = a.args[0]
        dk = []
        for k in d.keys:
            if isinstance(k, ast.Constant) and isinstance(k.value, str):
                dk.append(k.value)
            else:
                dk.append(None)
        if set(dk) != set(keys) or len(dk) != len(keys):
            rr.bad(Finding("C16.R3", file, dotted, "record keys " + repr(sorted(str(x) for x in dk)),
                           "record keys differ from ErrorMessageData {}".format(sorted(keys)), a.lineno))
        else:
            rr.ok(dotted, "record keys == ErrorMessageData", {"fn": dotted, "keys": dk})
        for k, v in zip(dk, d.values):
            if k in from_self:
                if _mentions_self_attr(v, from_self[k]):
                    rr.ok(dotted, "{} <- self.{}".format(k, from_self[k]))
                else:
                    rr.bad(Finding("C16.R3", file, dotted, "'{}': {}".format(k, unparse(v)),
                                   "field '{}' is not taken from self.{}".format(k, from_self[k]), v.lineno))
            if k == "msg":
                if isinstance(v, ast.Name) and v.id == "msg":
                    rr.ok(dotted, "msg <- msg")
                else:
                    rr.bad(Finding("C16.R3", file, dotted, "'msg': " + unparse(v),
                                   "field 'msg' is not the message argument", v.lineno))
            if k == "path":
                # must be a snapshot (tuple(...)), not the live list
                if isinstance(v, ast.Call) and isinstance(v.func, ast.Name) and v.func.id == "tuple":
                    rr.ok(dotted, "path is a tuple snapshot")
                else:
                    rr.bad(Finding("C16.R3", file, dotted, "'path': " + unparse(v),
                                   "path must be an immutable snapshot of the expansion path", v.lineno))
    # to_return exposes the five lists
    tr = ctx.fn("core.Wtp.to_return")
    rets = [n for n in walk_no_nested(tr) if isinstance(n, ast.Return)]
    okret = False
    for r in rets:
        if isinstance(r.value, ast.Dict):
            got = {}
            for k, v in zip(r.value.keys, r.value.values):
                if isinstance(k, ast.Constant) and isinstance(v, ast.Attribute) and isinstance(v.value, ast.Name) \
                        and v.value.id == "self":
                    got[k.value] = v.attr
            if got == {v: v for v in RECORDERS.values()}:
                okret = True
            else:
                rr.bad(Finding("C16.R3", file, "core.Wtp.to_return", unparse(r.value)[:120],
                               "to_return does not map the five list names to the five lists", r.lineno))
    if okret:
        rr.ok("core.Wtp.to_return", "returns the five lists", {"fn": "core.Wtp.to_return", "lists": sorted(RECORDERS.values())})
    elif not any(f.function == "core.Wtp.to_return" for f in rr.findings):
        rr.bad(Finding("C16.R3", file, "core.Wtp.to_return", "return {...}",
                       "to_return no longer returns a dict display of the five lists", tr.lineno))
    return rr


def rule_r4(ctx) -> RuleResult:
    rr = RuleResult("C16.R4", "start_page re-initialises the five message lists", min_instances=5)
    sp = ctx.fn("core.Wtp.start_page")
    file = "src/wikitextprocessor/core.py"
    top_assigned = {}
    for s in sp.body:  # unconditional, top-level statements only
        if isinstance(s, ast.Assign) and len(s.targets) == 1:
            t = s.targets[0]
            if isinstance(t, ast.Attribute) and isinstance(t.value, ast.Name) and t.value.id == "self":
                top_assigned[t.attr] = s
    for lst in RECORDERS.values():
        s = top_assigned.get(lst)
        if s is None:
            rr.bad(Finding("C16.R4", file, "core.Wtp.start_page", "self.{} = []".format(lst),
                           "start_page does not unconditionally reset self.{}".format(lst), sp.lineno))
        elif isinstance(s.value, ast.List) and not s.value.elts:
            rr.ok("core.Wtp.start_page", unparse(s), {"fn": "core.Wtp.start_page", "reset": unparse(s)})
        else:
            rr.bad(Finding("C16.R4", file, "core.Wtp.start_page", unparse(s),
                           "self.{} is not reset to a fresh empty list".format(lst), s.lineno))
    return rr


class CounterBalance(Flow):
    """state = net change of one counter since function entry"""

    def __init__(self, key: str, rr: RuleResult, relfile: str, qual: str, rule: str):
        self.key, self.rr, self.relfile, self.qual, self.rule = key, rr, relfile, qual, rule

    def transfer(self, st, state):
        if isinstance(st, ast.AugAssign) and unparse(st.target) == self.key and isinstance(st.value, ast.Constant) \
                and isinstance(st.value.value, int):
            if isinstance(st.op, ast.Add):
                return [state + st.value.value]
            if isinstance(st.op, ast.Sub):
                return [state - st.value.value]
        return [state]

    def loop_backedge(self, loop, entry, state, via):
        if state not in entry:
            self.rr.bad(Finding(self.rule, self.relfile, self.qual, "{}: loop@{} back edge".format(self.key, _loop_label(loop)),
                                "one iteration of the loop changes the counter `{}` by {:+d} (via line {})".format(
                                    self.key, state - min(entry), getattr(via, "lineno", 0)), getattr(via, "lineno", 0)))
            return None
        return state


_COUNTER_POSITIVE = """
def f(node):
    global depth
    depth += 1
    if not node:
        return ""
    r = g(node)
    depth -= 1
    return r
"""


def paired_counter_findings(ctx, rule: str, only_module=None) -> RuleResult:
    """Package-wide typestate lint: a counter that one function both increments and decrements by
    constants (a nesting depth, a re-entrancy count) is back at its entry value on every path to
    every return of that function and around every loop iteration.  An early exit that skips the
    decrement leaves the counter raised for the rest of the page (depth limits fire on flat input,
    'inside an argument list' stays true)."""
    rr = RuleResult(rule, "counters incremented and decremented in one function are balanced on every path", min_instances=1)

    def analyse(dotted, relfile, fn):
        keys = {}
        for n in walk_no_nested(fn):
            if isinstance(n, ast.AugAssign) and isinstance(n.value, ast.Constant) and isinstance(n.value.value, int) \
                    and isinstance(n.op, (ast.Add, ast.Sub)) and isinstance(n.target, (ast.Name, ast.Attribute)):
                keys.setdefault(unparse(n.target), set()).add(type(n.op).__name__)
        found = 0
        for key, opset in sorted(keys.items()):
            if opset != {"Add", "Sub"}:
                continue
            found += 1
            w = CounterBalance(key, rr, relfile, dotted, rule)
            out = w.run_function(fn, [0])
            bad = [(n, d) for n, d in out.ret if d != 0] + [(None, d) for d in out.fall if d != 0]
            if bad:
                n, d = bad[0]
                rr.bad(Finding(rule, relfile, dotted, "{} at {}".format(key, "return@{}".format(n.lineno) if n is not None else "end of function"),
                               "the counter `{}` is {:+d} relative to function entry on this exit: an early exit skips the matching "
                               "decrement/increment".format(key, d), n.lineno if n is not None else fn.lineno))
            elif not any(f_.function == dotted and f_.construct.startswith(key) for f_ in rr.findings):
                rr.ok(dotted, "counter {} balanced".format(key), {"fn": dotted, "counter": key})
        return found

    # built-in positive example: must be reported on every run
    probe = RuleResult(rule, "probe")
    saved = rr
    rr = probe
    analyse("<positive example>", "<builtin>", ast.parse(_COUNTER_POSITIVE).body[0])
    rr = saved
    if not probe.findings:
        raise AnalysisError(rule + ": the built-in positive example was not reported")
    n = 0
    for dotted, m, f in ctx.index.all_functions():
        if only_module and not dotted.startswith(only_module + "."):
            continue
        n += analyse(dotted, m.relpath, f)
    rr.instances["paired_counters_found"] = n
    if n == 0:
        rr.ok("package" if not only_module else only_module, "no function both increments and decrements a counter (positive example reported)")
    return rr


def run(ctx) -> list:
    results = [rule_r1(ctx), rule_r2(ctx), rule_r3(ctx), rule_r4(ctx), paired_counter_findings(ctx, "C16.R5")]
    if ctx.thorough:
        from ..core.callgraph import CallGraph
        from ..core.cgcheck import crosscheck

        results.append(crosscheck(ctx, CallGraph(ctx.index), "C16.CG"))
    return results
