"""C14 -- all three views of a template call's arguments agree.

The three implementations that turn an argument list into a map are
TemplateNode.template_parameters (parser), the argument loop of expand_recurse
(expander) and make_frame (Lua bridge).  Sibling agreement:

R1  same integer-key predicate (`K.isdecimal() and int(K) > 0` up to renaming).
R2  same notion of "named": both regexes have the shape  ^\\s*(name)\\s*=\\s*(value)\\s*$
    (DOTALL, lazy groups) and their name classes accept the same characters of
    the stated plain-text alphabet; the parser splits at the first `=`.
R3  same trimming: named values are trimmed on both sides in all three,
    positional values are never trimmed.
R4  same numbering: the positional counter advances for positional arguments
    only, in all three.
R5  the Lua side looks an argument up under the key as given before it tries
    the numeric form (numeric-looking names such as "0", "00", "-1", "1.5" are
    stored as strings by make_frame).
"""

from __future__ import annotations

import ast
import re

import re._parser as sre_parse
import re._constants as sre_c

from ..core import lua as L
from ..core import rx
from ..core.index import unparse, walk_no_nested
from ..core.report import AnalysisError, Finding, RuleResult
from . import _expand as X
from . import c04

EXPLANATION = (
    "Engler-style cross-check of three sibling implementations of one interface: the predicate that "
    "makes a name an integer key, the regex that recognises a named argument (shape from its syntax "
    "tree, name class compared by class algebra over a stated plain-text alphabet), the trimming "
    "calls on the named and positional paths, and the statements that advance the positional counter "
    "are extracted from each and compared. Values for concrete argument lists are not compared."
)
ASSUMPTIONS = [
    "plain-text alphabet of the property: letters, digits, blank, newline, - _ . , ; : ! ? ( ) / + and non-ASCII letters",
    "MediaWiki numbers positional arguments independently of explicitly numbered ones (the parser's and the expander's behaviour)",
]
PARSER = "src/wikitextprocessor/parser.py"
LUAEXEC = "src/wikitextprocessor/luaexec.py"
P2 = "src/wikitextprocessor/lua/_sandbox_phase2.lua"
ALPHABET = "abcxyzABCXYZ0123456789 \n-_.,;:!?()/+éßЖ中"


def _int_key_predicates(fn: ast.AST) -> list:
    """[(normalised text, node)]: the condition under which a name is converted to an integer key -- the test of the `if` whose
    body contains `K = int(K)` (the name written as K), whatever the test looks like"""
    out = []
    for n in ast.walk(fn):
        if isinstance(n, ast.If):
            for b in n.body:
                if isinstance(b, ast.Assign) and len(b.targets) == 1 and isinstance(b.targets[0], ast.Name) and isinstance(b.value, ast.Call) \
                        and unparse(b.value.func) == "int" and len(b.value.args) == 1 and unparse(b.value.args[0]) == b.targets[0].id:
                    var = b.targets[0].id
                    out.append((re.sub(r"\b{}\b".format(re.escape(var)), "K", unparse(n.test)), n.test))
    if not out:
        # inline try form:  try: V = int(K) / except ValueError: V = <default>;  if C(V): K = V
        # int() accepts a sign, surrounding blanks and digit-group underscores ("+1", "1_0") -- not what isdecimal() accepts
        for t in ast.walk(fn):
            if isinstance(t, ast.Try) and len(t.body) == 1 and isinstance(t.body[0], ast.Assign) and len(t.body[0].targets) == 1 \
                    and isinstance(t.body[0].targets[0], ast.Name) and isinstance(t.body[0].value, ast.Call) \
                    and unparse(t.body[0].value.func) == "int" and len(t.body[0].value.args) == 1 and isinstance(t.body[0].value.args[0], ast.Name) \
                    and not any(isinstance(x, (ast.Return, ast.Raise, ast.Continue, ast.Break)) for h in t.handlers for st in h.body for x in ast.walk(st)):
                v, k = t.body[0].targets[0].id, t.body[0].value.args[0].id
                for n in ast.walk(fn):
                    if isinstance(n, ast.If) and any(isinstance(b, ast.Assign) and len(b.targets) == 1 and unparse(b.targets[0]) == k
                                                     and unparse(b.value) == v for b in n.body):
                        c = re.sub(r"\b{}\b".format(re.escape(v)), "int(K)", unparse(n.test))
                        out.append(("int(K) accepted and " + re.sub(r"\b{}\b".format(re.escape(k)), "K", c), n.test))
    if out or _CTX is None:
        return out
    # the decision delegated to a helper:  x = H(K);  if x is not None: K = x   -- the predicate is H's own decision
    stmts = [n for n in ast.walk(fn) if isinstance(n, ast.If)]
    for n in stmts:
        t = n.test
        if isinstance(t, ast.Compare) and len(t.ops) == 1 and isinstance(t.ops[0], ast.IsNot) and isinstance(t.left, ast.Name) \
                and isinstance(t.comparators[0], ast.Constant) and t.comparators[0].value is None:
            x = t.left.id
            takes = [b for b in n.body if isinstance(b, ast.Assign) and isinstance(b.value, ast.Name) and b.value.id == x]
            defs = [a for a in ast.walk(fn) if isinstance(a, ast.Assign) and len(a.targets) == 1 and isinstance(a.targets[0], ast.Name)
                    and a.targets[0].id == x and isinstance(a.value, ast.Call) and isinstance(a.value.func, ast.Name) and len(a.value.args) == 1]
            if takes and defs:
                h = defs[-1].value.func.id
                pred = _helper_predicate(h)
                if pred is not None:
                    out.append((pred, t))
    return out


_CTX = None


def _helper_predicate(name: str):
    """the condition under which a module-level helper `H(name)` returns an integer, written over K:
    `if P(name): return int(name)` -> P;  `try: i = int(name) except ValueError: return None; return i if C(i) else None`
    -> "int(K) accepted and C(int(K))" (int() accepts signs, blanks and digit-group underscores -- not what isdecimal() accepts)"""
    for mod in ("core", "luaexec", "parser", "common"):
        m = _CTX.index.mod(mod)
        if name in m.funcs:
            f = m.funcs[name]
            break
    else:
        return None
    param = f.args.args[0].arg if f.args.args else None
    if param is None:
        return None
    body = [x for x in f.body if not (isinstance(x, ast.Expr) and isinstance(x.value, ast.Constant))]
    comps = []
    ivar = None
    for st in body:
        if isinstance(st, ast.Try) and len(st.body) == 1 and isinstance(st.body[0], ast.Assign) and unparse(st.body[0].value) == "int({})".format(param):
            ivar = unparse(st.body[0].targets[0])
            comps.append("int(K) accepted")
        elif isinstance(st, ast.If) and any(isinstance(r, ast.Return) and r.value is not None and "int(" in unparse(r.value) for r in st.body):
            comps.append(re.sub(r"\b{}\b".format(re.escape(param)), "K", unparse(st.test)))
        elif isinstance(st, ast.Return) and isinstance(st.value, ast.IfExp):
            c = unparse(st.value.test)
            if ivar:
                c = re.sub(r"\b{}\b".format(re.escape(ivar)), "int(K)", c)
            comps.append(re.sub(r"\b{}\b".format(re.escape(param)), "K", c))
    return " and ".join(comps) if comps else None


def rule_r1(ctx) -> RuleResult:
    global _CTX
    _CTX = ctx
    rr = RuleResult("C14.R1", "the three implementations use the same integer-key predicate", min_instances=3)
    sites = {
        "parser.TemplateNode.template_parameters": (ctx.fn("parser.TemplateNode.template_parameters"), PARSER),
        X.RECURSE: (ctx.fn(X.RECURSE), X.CORE),
        "luaexec.call_lua_sandbox.make_frame": (ctx.fn("luaexec.call_lua_sandbox.make_frame"), LUAEXEC),
    }
    preds = {}
    for name, (fn, f) in sites.items():
        body = fn
        if name == X.RECURSE:
            tb = X.template_branch(ctx)
            loops = [n for st in tb for n in ast.walk(st) if isinstance(n, ast.For) and "args[1:]" in unparse(n.iter)]
            body = loops[-1]
        ps = _int_key_predicates(body)
        if not ps:
            raise AnalysisError("{}: integer-key predicate not found".format(name))
        preds[name] = ps[0]
    # sibling agreement: the predicate of the majority is the reference (all three agree on the pinned tree)
    texts = [t for t, _ in preds.values()]
    ref = max(set(texts), key=lambda t: (texts.count(t), t == "K.isdecimal() and int(K) > 0"))
    for name, (txt, node) in preds.items():
        if txt == ref:
            rr.ok(name, txt, {"impl": name, "predicate": txt})
        else:
            rr.bad(Finding("C14.R1", sites[name][1], name, txt,
                           "this implementation decides `name is an integer key` with `{}` while its siblings use `{}`: the same argument "
                           "list yields different key types".format(txt, ref), node.lineno))
    return rr


def _named_regex(ctx, mod: str, scope: ast.AST):
    """the regex that splits `name = value`: among the candidates of the scope (other regexes with an `=` live there too, e.g. the
    heading pattern of frame:preprocess) the one of that shape, else the first whose first group is a character class"""
    cands = list(_named_regex_candidates(ctx, mod, scope))
    for p, n in cands:
        if c04._check_named_regex(p) is None:
            return p, n
    for p, n in cands:
        try:
            if _name_class(p) is not None and "\\1" not in p:
                return p, n
        except Exception:  # noqa: BLE001
            continue
    return cands[0] if cands else (None, None)


def _named_regex_candidates(ctx, mod: str, scope: ast.AST):
    for n in ast.walk(scope):
        if isinstance(n, ast.Call) and unparse(n.func) in ("re.match", "re.fullmatch") and n.args:
            try:
                p = ctx.index.fold(mod, n.args[0])
            except Exception:  # noqa: BLE001
                continue
            if isinstance(p, str) and "=" in p and p.count("(") >= 2:
                yield p, n
        if isinstance(n, ast.Call) and isinstance(n.func, ast.Attribute) and n.func.attr in ("match", "fullmatch") and unparse(n.func.value) != "re":
            try:
                p = ctx.index.fold(mod, n.func.value)
            except Exception:  # noqa: BLE001
                continue
            if isinstance(p, str) and "=" in p:
                yield str(p), n


def _name_class(pat: str):
    tree = sre_parse.parse(pat)
    for op, av in tree:
        if op is sre_c.SUBPATTERN and av[0] == 1:
            rep = av[3][0]
            body = rep[1][2]
            if len(body) == 1 and body[0][0] is sre_c.IN:
                return rx.in_pred(body[0][1])
    return None


_TRIMS = {"strip": "lr", "lstrip": "l", "rstrip": "r"}


class _ParamFlow:
    """Flow-insensitive derivation facts of TemplateNode.template_parameters: which locals hold the part of an argument
    string before / after its `=` (split kinds: index/find + slices, partition, split(.., 1) -- the `r` forms split at
    the LAST `=`), and which trims (l, r) were applied on the way.  A derivation is (part, trims) with part in
    {"whole", "name", "value"}."""

    def __init__(self, fn):
        self.fn = fn
        self.split_first = []   # call nodes that split at the first '='
        self.split_last = []    # call nodes that split at the last '='
        self.membership = []    # tests `'=' in P` / truthiness of the separator
        self.env: dict = {}
        self.index_vars: dict = {}   # name -> receiver text
        self.sep_vars: set = set()
        self.receivers: set = set()
        self._scan_splits()
        for _ in range(6):
            before = {k: set(v) for k, v in self.env.items()}
            self._pass()
            if before == self.env:
                break

    @staticmethod
    def _is_eq(a) -> bool:
        return isinstance(a, ast.Constant) and a.value == "="

    def _scan_splits(self):
        for n in ast.walk(self.fn):
            if isinstance(n, ast.Call) and isinstance(n.func, ast.Attribute) and n.args and self._is_eq(n.args[0]):
                a = n.func.attr
                if a in ("index", "find", "partition") or (a == "split" and len(n.args) == 2):
                    self.split_first.append(n)
                    self.receivers.add(unparse(n.func.value))
                elif a in ("rindex", "rfind", "rpartition", "rsplit"):
                    self.split_last.append(n)
                    self.receivers.add(unparse(n.func.value))
            if isinstance(n, ast.Compare) and len(n.ops) == 1 and isinstance(n.ops[0], (ast.In, ast.NotIn)) and self._is_eq(n.left):
                self.membership.append(n)
        for r in self.receivers:
            self.env.setdefault(r, set()).add(("whole", ""))

    def _add(self, name, ders):
        if ders:
            self.env.setdefault(name, set()).update(ders)

    def derive(self, e) -> set:
        if isinstance(e, ast.Name):
            return set(self.env.get(e.id, ()))
        if isinstance(e, ast.Call) and isinstance(e.func, ast.Attribute) and e.func.attr in _TRIMS and not e.args:
            add = _TRIMS[e.func.attr]
            return {(p, "".join(sorted(set(t) | set(add)))) for p, t in self.derive(e.func.value)}
        if isinstance(e, ast.Call) and isinstance(e.func, ast.Name) and e.func.id in ("int", "str") and len(e.args) == 1:
            return self.derive(e.args[0])
        if isinstance(e, ast.Subscript):
            base = self.derive(e.value)
            sl = e.slice
            if isinstance(sl, ast.Slice) and any(p == "whole" for p, _ in base):
                def is_idx(x):
                    return isinstance(x, ast.Name) and x.id in self.index_vars
                def is_idx_plus1(x):
                    return isinstance(x, ast.BinOp) and isinstance(x.op, ast.Add) and (
                        (is_idx(x.left) and isinstance(x.right, ast.Constant) and x.right.value == 1)
                        or (is_idx(x.right) and isinstance(x.left, ast.Constant) and x.left.value == 1))
                if sl.lower is None and sl.upper is not None and is_idx(sl.upper) and sl.step is None:
                    return {("name", "l" if "l" in t else "") for p, t in base if p == "whole"}
                if sl.upper is None and sl.lower is not None and is_idx_plus1(sl.lower) and sl.step is None:
                    return {("value", "r" if "r" in t else "") for p, t in base if p == "whole"}
            # element of partition/split result
            if isinstance(e.value, ast.Call) and (e.value in self.split_first or e.value in self.split_last) \
                    and isinstance(sl, ast.Constant) and isinstance(sl.value, int):
                attr = e.value.func.attr
                last = 2 if "partition" in attr else 1
                if sl.value == 0:
                    return {("name", "")}
                if sl.value in (last, -1):
                    return {("value", "")}
        if isinstance(e, ast.IfExp):
            return self.derive(e.body) | self.derive(e.orelse)
        return set()

    def _pass(self):
        for n in ast.walk(self.fn):
            if isinstance(n, ast.AnnAssign) and n.value is not None:
                tgts, v = [n.target], n.value
            elif isinstance(n, ast.Assign):
                tgts, v = n.targets, n.value
            else:
                continue
            for tg in tgts:
                if isinstance(tg, ast.Name):
                    if isinstance(v, ast.Call) and v in self.split_first + self.split_last and v.func.attr in ("index", "find", "rindex", "rfind"):
                        self.index_vars[tg.id] = unparse(v.func.value)
                    else:
                        self._add(tg.id, self.derive(v))
                elif isinstance(tg, (ast.Tuple, ast.List)) and isinstance(v, ast.Call) and v in self.split_first + self.split_last \
                        and all(isinstance(x, ast.Name) for x in tg.elts):
                    attr = v.func.attr
                    if "partition" in attr and len(tg.elts) == 3:
                        self._add(tg.elts[0].id, {("name", "")})
                        self._add(tg.elts[2].id, {("value", "")})
                        self.sep_vars.add(tg.elts[1].id)
                    elif "split" in attr and len(tg.elts) == 2:
                        self._add(tg.elts[0].id, {("name", "")})
                        self._add(tg.elts[1].id, {("value", "")})

    def stores(self):
        """(key expr, value expr, node) of every `parameters[K].append(V)` / `parameters[K] = V`"""
        out = []
        for n in ast.walk(self.fn):
            if isinstance(n, ast.Call) and isinstance(n.func, ast.Attribute) and n.func.attr == "append" and len(n.args) == 1 \
                    and isinstance(n.func.value, ast.Subscript):
                out.append((n.func.value.slice, n.args[0], n))
        return out


def _param_flow(ctx):
    tp = ctx.fn("parser.TemplateNode.template_parameters")
    pf = _ParamFlow(tp)
    if not pf.split_first and not pf.split_last:
        raise AnalysisError("parser.TemplateNode.template_parameters: how an argument is split at '=' was not recognised "
                            "(known: index/find + slices, partition, split('=', 1))")
    return tp, pf


def rule_r2(ctx) -> RuleResult:
    rr = RuleResult("C14.R2", "expander and bridge recognise the same arguments as named; the parser splits at the first '='", min_instances=4)
    tb = X.template_branch(ctx)
    loops = [n for st in tb for n in ast.walk(st) if isinstance(n, ast.For) and "args[1:]" in unparse(n.iter)]
    pe, ne = _named_regex(ctx, "core", loops[-1])
    pb, nb = _named_regex(ctx, "luaexec", ctx.fn("luaexec.call_lua_sandbox.make_frame"))
    if pe is None or pb is None:
        raise AnalysisError("named-argument regex not found (expander {}, bridge {})".format(pe is not None, pb is not None))
    for name, pat, node, f in ((X.RECURSE, pe, ne, X.CORE), ("luaexec.call_lua_sandbox.make_frame", pb, nb, LUAEXEC)):
        prob = c04._check_named_regex(pat)
        if prob is None:
            rr.ok(name, "shape of {!r}".format(pat), {"impl": name, "pattern": pat})
        else:
            rr.bad(Finding("C14.R2", f, name, "named-argument regex {!r}".format(pat), prob + " -- the sibling implementation's regex still has the shape", node.lineno))
    ce, cb = _name_class(pe), _name_class(pb)
    if ce is None or cb is None:
        raise AnalysisError("name class of the named-argument regexes not found")
    diff = [ch for ch in ALPHABET if ce.test(ch) != cb.test(ch)]
    if not diff:
        rr.ok("name classes", "agree on the plain-text alphabet", {"alphabet_size": len(ALPHABET)})
    else:
        rr.bad(Finding("C14.R2", LUAEXEC, "luaexec.call_lua_sandbox.make_frame", "name class of {!r}".format(pb),
                       "expander and bridge disagree whether a name may contain {!r}: such an argument is named in one view and positional "
                       "in the other".format(diff), nb.lineno))
    outside = sorted({ch for ch in "[]&'\"<>" if ce.test(ch) != cb.test(ch)})
    if outside:
        rr.informational.append({"name_classes_differ_outside_alphabet": outside})
    tp, pf = _param_flow(ctx)
    for n in pf.split_last:
        rr.bad(Finding("C14.R2", PARSER, "parser.TemplateNode.template_parameters", unparse(n),
                       "the parser splits an argument at the LAST '=' ({}), the expander and the bridge at the first: "
                       "`a=b=c` gets name `a=b` in one view and `a` in the others".format(n.func.attr), n.lineno))
    if pf.split_first and not pf.split_last:
        tested = bool(pf.membership) or any(isinstance(t, ast.Name) and t.id in pf.sep_vars for n in ast.walk(tp) if isinstance(n, ast.If)
                                            for t in ast.walk(n.test))
        if not tested:
            raise AnalysisError("parser.TemplateNode.template_parameters: the test that makes an argument named ('=' present) was not recognised")
        rr.ok("parser.TemplateNode.template_parameters", "named iff '=' present; split at the first '=' ({})".format(
            ", ".join(sorted({n.func.attr for n in pf.split_first}))))
    return rr


def rule_r3(ctx) -> RuleResult:
    rr = RuleResult("C14.R3", "named values trimmed on both sides, positional values verbatim, in all three", min_instances=4)
    tp, pf = _param_flow(ctx)
    named_stores = 0
    for key, val, node in pf.stores():
        kd = pf.derive(key)
        if not any(p == "name" for p, _ in kd):
            continue
        named_stores += 1
        loose = sorted(t for p, t in kd if p == "name" and set(t) != {"l", "r"})
        if loose:
            rr.bad(Finding("C14.R3", PARSER, "parser.TemplateNode.template_parameters", unparse(node)[:80],
                           "the parser view no longer trims the named argument's name on both sides (a derivation of the key "
                           "carries trims {!r})".format(loose[0]), node.lineno))
        else:
            rr.ok("parser.TemplateNode.template_parameters", "name .strip(): " + unparse(node)[:60])
        vd = pf.derive(val)
        vparts = {p for p, _ in vd}
        if "value" in vparts:
            if any(p == "value" and "l" not in t for p, t in vd):
                rr.bad(Finding("C14.R3", PARSER, "parser.TemplateNode.template_parameters", unparse(node)[:80],
                               "the parser view no longer trims the named argument's value on the left", node.lineno))
            else:
                rr.ok("parser.TemplateNode.template_parameters", "value .lstrip(): " + unparse(node)[:60])
            if any(p == "value" and set(t) == {"l", "r"} for p, t in vd):
                rr.ok("parser.TemplateNode.template_parameters", "single-chunk value .strip()")
            else:
                rr.bad(Finding("C14.R3", PARSER, "parser.TemplateNode.template_parameters", unparse(node)[:80],
                               "the parser view never trims the right end of a single-chunk named value", node.lineno))
        elif "whole" in vparts:
            if any(p == "whole" and "r" in t for p, t in vd):
                rr.ok("parser.TemplateNode.template_parameters", "last chunk .rstrip()")
            else:
                rr.bad(Finding("C14.R3", PARSER, "parser.TemplateNode.template_parameters", unparse(node)[:80],
                               "the parser view never trims the right end of the last chunk of a named value", node.lineno))
    if named_stores == 0:
        raise AnalysisError("parser.TemplateNode.template_parameters: no store under a key derived from the text before '=' was recognised")
    # positional path: stores to parameters[unnamed_parameter_index] are untrimmed
    for n in ast.walk(tp):
        if isinstance(n, ast.Call) and isinstance(n.func, ast.Attribute) and n.func.attr == "append" \
                and "unnamed_parameter_index" in unparse(n.func.value):
            a = n.args[0]
            if isinstance(a, ast.Call) and isinstance(a.func, ast.Attribute) and a.func.attr in ("strip", "lstrip", "rstrip"):
                rr.bad(Finding("C14.R3", PARSER, "parser.TemplateNode.template_parameters", unparse(n), "a positional value is trimmed", n.lineno))
            else:
                rr.ok("parser.TemplateNode.template_parameters", "positional: " + unparse(n)[:60])
    # bridge: positional value passes only through the <noinclude/>/final-newline substitution
    mf = ctx.fn("luaexec.call_lua_sandbox.make_frame")
    for n in ast.walk(mf):
        if isinstance(n, ast.Assign) and unparse(n.targets[0]) == "arg" and isinstance(n.value, ast.Call):
            f = unparse(n.value.func)
            if f == "re.sub":
                pat = n.value.args[0].value if isinstance(n.value.args[0], ast.Constant) else ""
                if "noinclude" in pat and "\\s" not in pat.replace("<\\s*noinclude\\s*/\\s*>", ""):
                    rr.ok("luaexec.call_lua_sandbox.make_frame", "arg only loses <noinclude/> and one final newline")
                else:
                    rr.bad(Finding("C14.R3", LUAEXEC, "luaexec.call_lua_sandbox.make_frame", unparse(n)[:80],
                                   "the bridge rewrites argument values beyond removing <noinclude/>", n.lineno))
            elif isinstance(n.value.func, ast.Attribute) and n.value.func.attr in ("strip", "lstrip", "rstrip"):
                rr.bad(Finding("C14.R3", LUAEXEC, "luaexec.call_lua_sandbox.make_frame", unparse(n), "the bridge trims an argument value in Python", n.lineno))
    # Lua side: trims after preprocessing only when the flag says `named`
    p2 = ctx.lua.file("_sandbox_phase2.lua")
    fai = p2.func_named("frame_args_index")
    if fai is None:
        raise AnalysisError("frame_args_index vanished")
    ok = False
    # the flag is whatever local is bound to v[1]
    flags = [n.names[0] for n in L.walk(fai) if n.kind == "local" and n.exprs and L.text(n.exprs[0]).endswith("[1]") and len(n.names) == 1]
    for n in L.walk(fai):
        if n.kind == "if" and len(n.clauses) == 1 and L.text(n.clauses[0][0]) in flags:
            body = n.clauses[0][1]
            if len(body) == 1 and body[0].kind == "assign" and "match" in L.text(body[0].exprs[0]) and "%s*(.-)%s*" in L.text(body[0].exprs[0]):
                # the trimmed value must be the *preprocessed* one
                tgt = L.text(body[0].targets[0])
                prev = [s for s in L.walk(fai) if s.kind == "assign" and L.text(s.targets[0]) == tgt and "preprocess" in L.text(s.exprs[0]) and s.line < n.line]
                ok = bool(prev)
    if ok:
        rr.ok("_sandbox_phase2.lua:frame_args_index", "named values are trimmed after preprocessing")
    else:
        rr.bad(Finding("C14.R3", P2, "frame_args_index", "if is_named then v = v:match '^%s*(.-)%s*$' end",
                       "the Lua side no longer trims the *expanded* value of a named argument (a nested call that expands to padded text "
                       "arrives untrimmed)", fai.line))
    return rr


def rule_r4(ctx) -> RuleResult:
    rr = RuleResult("C14.R4", "the positional counter advances for positional arguments only", min_instances=3)
    # expander: num += 1 only in the else of `if m2`
    tb = X.template_branch(ctx)
    loops = [n for st in tb for n in ast.walk(st) if isinstance(n, ast.For) and "args[1:]" in unparse(n.iter)]
    lp = loops[-1]

    def counter_writes(scope, var):
        out = []
        for n in ast.walk(scope):
            if isinstance(n, ast.AugAssign) and unparse(n.target) == var:
                out.append(n)
            elif isinstance(n, ast.Assign) and any(unparse(t) == var for t in n.targets):
                out.append(n)
        return out

    for name, scope, var, f, parents_mod in (
        (X.RECURSE, lp, "num", X.CORE, "core"),
        ("luaexec.call_lua_sandbox.make_frame", ctx.fn("luaexec.call_lua_sandbox.make_frame"), "num", LUAEXEC, "luaexec"),
    ):
        parents = ctx.index.mod(parents_mod).parents
        for w in counter_writes(scope, var):
            if isinstance(w, ast.Assign) and isinstance(w.value, ast.Constant):
                continue  # initialisation
            # on the positional path: inside the orelse of the `if <match>` statement
            n = w
            positional = False
            named = False
            n_loops = 0
            while n in parents and n is not scope:
                p = parents[n]
                if isinstance(p, (ast.For, ast.While)) and p is not scope:
                    n_loops += 1
                if isinstance(p, ast.If) and (unparse(p.test) in ("m2", "m is not None", "m")):
                    if n in p.orelse:
                        positional = True
                    elif n in p.body:
                        named = True
                n = p
            label = unparse(w)
            allowed_loops = 0 if isinstance(scope, (ast.For, ast.While)) else 1
            one_step = isinstance(w, ast.AugAssign) and isinstance(w.op, ast.Add) and isinstance(w.value, ast.Constant) and w.value.value == 1
            if positional and not named and (not one_step or n_loops > allowed_loops):
                rr.bad(Finding("C14.R4", f, name, label,
                               "the positional counter does not advance by exactly one per positional argument (step {} / nested loop depth {}): "
                               "the three implementations number `{{{{t|2=a|b|c}}}}` differently".format(
                                   unparse(w.value) if isinstance(w, ast.AugAssign) else "?", n_loops), w.lineno))
            elif positional and not named:
                rr.ok(name, label + " on the positional path", {"impl": name, "stmt": label})
            else:
                rr.bad(Finding("C14.R4", f, name, label,
                               "the positional counter is changed on the *named* path: `{{#invoke:m|f|2=a|b}}` gives the module {2:a, 3:b} "
                               "while the parser and the expander give {2:a, 1:b} for the same argument list", w.lineno))
    tp = ctx.fn("parser.TemplateNode.template_parameters")
    src = unparse(tp)
    ws = counter_writes(tp, "unnamed_parameter_index")
    incs = [w for w in ws if isinstance(w, ast.AugAssign)]
    if incs and all(unparse(w) == "unnamed_parameter_index += 1" for w in incs):
        rr.ok("parser.TemplateNode.template_parameters", "counter only incremented by one on unnamed arguments", {"increments": len(incs)})
    else:
        rr.bad(Finding("C14.R4", PARSER, "parser.TemplateNode.template_parameters", "unnamed_parameter_index", "counter handling changed", tp.lineno))
    return rr


def rule_r5(ctx) -> RuleResult:
    rr = RuleResult("C14.R5", "frame.args[key] is looked up under the given key before the numeric form", min_instances=1)
    p2 = ctx.lua.file("_sandbox_phase2.lua")
    fai = p2.func_named("frame_args_index")
    if fai is None:
        raise AnalysisError("frame_args_index vanished")
    first_lookup = None
    first_key_write = None
    for st in fai.body:
        for n in L.walk(st):
            if n.kind in ("local", "assign"):
                exprs = n.exprs
                if first_lookup is None and any(L.text(e) == "new_args._orig[key]" for e in exprs):
                    first_lookup = n
                if n.kind == "assign" and any(L.text(t) == "key" for t in n.targets) and first_key_write is None:
                    first_key_write = n
    if first_lookup is None:
        raise AnalysisError("frame_args_index: lookup of new_args._orig[key] vanished")
    if first_key_write is None or first_key_write.line > first_lookup.line:
        rr.ok("_sandbox_phase2.lua:frame_args_index", "lookup under the given key comes first", {"lookup_line": first_lookup.line})
    else:
        rr.bad(Finding("C14.R5", P2, "frame_args_index", "key = " + L.text(first_key_write.exprs[0]),
                       "the key is converted before the first lookup: names such as '0', '00', '-1', '1.5' (stored as strings by make_frame) "
                       "are looked up as numbers, are not found, and cut iteration short", first_key_write.line))
    return rr


def rule_r6(ctx) -> RuleResult:
    """What a module sees when it iterates frame.args is the chain built by prepare_frame_args.
    Every key the bridge delivered is on that chain exactly once iff the chain is built by one
    unconditional pass of pairs() over the delivered table (ipairs stops at the first gap, so
    `1=a|3=c` would lose 3; a filtered pass loses whatever the filter excludes)."""
    rr = RuleResult("C14.R6", "frame.args iteration chains every delivered key exactly once", min_instances=2)
    p2 = ctx.lua.file("_sandbox_phase2.lua")
    pf = p2.func_named("prepare_frame_args")
    if pf is None:
        raise AnalysisError("prepare_frame_args vanished")
    # the chain table: the local that frame_args_next reads through new_args._next_key
    chain = None
    for n in L.walk(pf):
        if n.kind == "table":
            for k, v in n.fields:
                if L.const_string(k) == "_next_key" and v.kind == "name":
                    chain = v.id
    if chain is None:
        raise AnalysisError("prepare_frame_args: `_next_key = <local>` field vanished")
    writes = []

    def visit(stmts, loops, conds):
        for st in stmts:
            if st.kind == "assign":
                for t in st.targets:
                    if t.kind == "index" and t.obj.kind == "name" and t.obj.id == chain:
                        writes.append((st, list(loops), conds))
            elif st.kind in ("forin", "fornum", "while", "repeat"):
                visit(st.body, loops + [st], conds)
            elif st.kind == "if":
                for c, b in st.clauses:
                    visit(b, loops, conds + 1)
                if st.orelse:
                    visit(st.orelse, loops, conds + 1)
            elif st.kind == "do":
                visit(st.body, loops, conds)

    visit(pf.body, [], 0)
    if not writes:
        raise AnalysisError("prepare_frame_args: no write to the chain table `{}` found".format(chain))
    loops = {id(lp): lp for _, lps, _ in writes for lp in lps}
    where = "_sandbox_phase2.lua:prepare_frame_args"
    if len(loops) != 1:
        rr.bad(Finding("C14.R6", P2, "prepare_frame_args", "{} loops write {}".format(len(loops), chain),
                       "the key chain is built by {} loops instead of one pass over the delivered arguments: keys can be chained twice or "
                       "not at all".format(len(loops)), writes[0][0].line))
    for st, lps, conds in writes:
        lp = lps[-1] if lps else None
        ok_iter = lp is not None and lp.kind == "forin" and len(lp.exprs) == 1 and lp.exprs[0].kind == "call" \
            and L.origin_of(p2, lp.exprs[0].func).kind in ("global", "function") and L.origin_of(p2, lp.exprs[0].func).path == "pairs" \
            and len(lp.exprs[0].args) == 1 and L.text(lp.exprs[0].args[0]) == "frame.args"
        if not ok_iter:
            rr.bad(Finding("C14.R6", P2, "prepare_frame_args", L.text(st.targets[0]) + " = " + L.text(st.exprs[0]),
                           "the key chain is not built by `for k in pairs(frame.args)` (iterator: {}): ipairs stops at the first missing "
                           "number, so `{{{{#invoke:m|f|1=a|3=c}}}}` never shows 3 to the module".format(
                               L.text(lp.exprs[0]) if lp is not None and lp.kind == "forin" else "none"), st.line))
        elif conds:
            rr.bad(Finding("C14.R6", P2, "prepare_frame_args", L.text(st.targets[0]) + " = " + L.text(st.exprs[0]),
                           "the key is chained only under a condition: delivered keys that fail it are invisible to pairs(frame.args)", st.line))
        else:
            rr.ok(where, L.text(st.targets[0]) + " = " + L.text(st.exprs[0]) + " in one unconditional pairs(frame.args) pass",
                  {"chain": chain, "line": st.line})
    # the value chained is the loop key and the cursor advances to it
    for st, lps, conds in writes:
        lp = lps[-1] if lps else None
        if lp is not None and lp.kind == "forin" and st.exprs and st.exprs[0].kind == "name" and st.exprs[0].id == lp.names[0]:
            rr.ok(where, "chained value is the loop key")
        else:
            rr.bad(Finding("C14.R6", P2, "prepare_frame_args", L.text(st.exprs[0]) if st.exprs else "?",
                           "the chained value is not the key delivered by the loop", st.line))
    return rr


def rule_r7(ctx) -> RuleResult:
    """The Lua view reads every frame argument through `frame:preprocess` (the args metatable calls it lazily on each value), so
    whatever that closure does to its text before expanding it happens to *every argument value the module sees*.  make_frame
    keeps positional values verbatim (R3); the closure has to as well: between taking the text and handing it to
    `_encode` / the expander, the text variable may not be re-assigned from a trimming or replacing operation on itself
    (seed C14-9B: `v = v.strip("\\n")` "because a heading is normally passed on a line of its own")."""
    rr = RuleResult("C14.R7", "frame:preprocess hands the text it was given to the expander unaltered", min_instances=1)
    dotted = "luaexec.call_lua_sandbox.make_frame.preprocess"
    fn = ctx.fn(dotted)
    enc = [c for c in walk_no_nested(fn) if isinstance(c, ast.Call) and unparse(c.func).endswith("._encode") and c.args and isinstance(c.args[0], ast.Name)]
    if not enc:
        raise AnalysisError("preprocess: the call that encodes the text for expansion was not found")
    var = enc[0].args[0].id
    altering = {"strip", "lstrip", "rstrip", "replace", "lower", "upper", "title", "capitalize", "casefold", "expandtabs", "translate",
                "removeprefix", "removesuffix", "sub", "splitlines", "split", "join", "normalize"}
    n_assign = 0
    for n in walk_no_nested(fn):
        if isinstance(n, ast.Assign) and len(n.targets) == 1 and isinstance(n.targets[0], ast.Name) and n.targets[0].id == var and n.lineno < enc[0].lineno:
            n_assign += 1
            calls = [c for c in ast.walk(n.value) if isinstance(c, ast.Call) and isinstance(c.func, ast.Attribute) and c.func.attr in altering
                     and any(isinstance(x, ast.Name) and x.id == var for x in ast.walk(c))]
            sl = [x for x in ast.walk(n.value) if isinstance(x, ast.Subscript) and isinstance(x.slice, ast.Slice) and isinstance(x.value, ast.Name) and x.value.id == var]
            if calls or sl:
                rr.bad(Finding("C14.R7", LUAEXEC, dotted, unparse(n)[:70],
                               "the text is altered ({}) before it is expanded; every value of frame.args goes through this closure, so the "
                               "module sees positional arguments changed while the parser's and the expander's views keep them verbatim".format(
                                   unparse((calls or sl)[0])[:40]), n.lineno))
            else:
                rr.ok(dotted, "`{}` keeps the text".format(unparse(n)[:50]))
    if n_assign == 0:
        rr.ok(dotted, "the parameter reaches _encode directly")
    return rr


def run(ctx) -> list:
    return [rule_r1(ctx), rule_r2(ctx), rule_r3(ctx), rule_r4(ctx), rule_r5(ctx), rule_r6(ctx), rule_r7(ctx)]
