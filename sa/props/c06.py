"""C06 -- Lua code from pages is confined to the sandbox.

The live object graph is replaced by the static one: values assigned into `env`,
tables constructed in phase 1, functions defined there with the host globals
they reach (through local aliases), and the Python expressions handed across
the bridge.

R1  whitelist origins: every env key originates from a safe base function or
    library, a constructed table whose fields do, a sandbox-defined function
    (then R3), the namespace data table, or a Python stack helper (then R5).
R2  the module cache cannot hand out host libraries: require() reads the host
    package.loaded, so (preloaded names - names removed at phase-1 top level -
    names cleared by the reset loop) must not contain a denied library.
R3  sandbox-defined functions reachable from env touch denied host capabilities
    only as recorded (name by name, with the reason).
R4  the loader's file path stays inside the package: after sanitising it cannot
    start with `/`, cannot contain `..`, and always ends in `.lua`.
R5  only inert objects cross the bridge: plain functions/closures and immutable
    values; functools.partial objects expose .args/.func/.keywords.
R6  LuaRuntime options: register_eval=False and an attribute filter that raises
    for non-str names and names starting with an underscore.
"""

from __future__ import annotations

import ast

from ..core import lua as L
from ..core.index import unparse, walk_no_nested
from ..core.report import AnalysisError, Finding, RuleResult

EXPLANATION = (
    "Capability reachability on the parsed Lua sandbox sources and on luaexec.py: the origin of every "
    "value placed in the module environment is resolved through local aliases to a host global, a "
    "constructed table or a sandbox function; the set of host libraries that survive in the module "
    "cache is computed from the retained_modules table and the top-level deletions; each exposed "
    "sandbox function is summarised by the denied host capabilities its body reaches; the loader's "
    "path sanitiser is interpreted over a small string-shape domain; the Python values handed to "
    "table_from / set as Lua globals are classified by kind. Values created by Lua code at run time "
    "are outside the static graph."
)
ASSUMPTIONS = [
    "Lua 5.1: package.loaded is pre-populated with string, table, math, io, os, debug, coroutine, package, _G; lupa adds `python`",
    "lupa's attribute_filter is consulted for every attribute access on a Python object from Lua",
    "pathlib: joining an absolute right operand discards the left operand",
    "attributes of plain Python functions are all dunder names (hidden by the attribute filter)",
]
P1 = "src/wikitextprocessor/lua/_sandbox_phase1.lua"
LX = "src/wikitextprocessor/luaexec.py"

SAFE_GLOBALS = {
    "_VERSION", "assert", "error", "getmetatable", "ipairs", "next", "pairs", "pcall", "print", "rawequal", "rawget", "rawset",
    "select", "setmetatable", "tostring", "tonumber", "type", "unpack", "xpcall", "math", "string", "table",
    "string.format", "string.gsub", "table.insert", "os.clock", "os.date", "os.difftime", "os.time", "debug.traceback",
    "NAMESPACE_DATA",
}
PY_HELPERS = {"_python_top_env", "_python_append_env", "mw_jsondecode_python"}
DENIED_ROOTS = {"io", "os", "package", "debug", "load", "loadstring", "loadfile", "dofile", "getfenv", "setfenv", "newproxy",
                "module", "require", "python", "_G", "collectgarbage", "coroutine"}
PRELOADED = {"string", "table", "math", "io", "os", "debug", "coroutine", "package", "_G", "python"}
DENIED_LIBS = {"io", "os", "package", "debug", "python", "_G"}

# denied capabilities each exposed sandbox function may touch, with the reason (confirmed by reading)
FROZEN_SUMMARY = {
    "new_loader": ({"loadstring", "load", "setfenv"}, "compiles text obtained from _python_loader (page store / shipped files), never caller text"),
    "new_require": (set(), ""),
    "_cached_mod": ({"package.loaded"}, "reads the host module cache (R2 bounds what is in it)"),
    "_save_mod": ({"package.loaded"}, "writes the host module cache (C09.R7)"),
    "new_loadData": (set(), ""),
    "new_loadJsonData": (set(), ""),
    "_lua_set_python_loader": (set(), "once-only setter"),
    "_lua_set_timeout": ({"debug.sethook", "os.time"}, "installs the timeout hook (C07)"),
    "_lua_clear_timeout_hook": ({"debug.sethook"}, "clears the timeout hook (C07.R1)"),
    "_lua_io_flush": ({"io.flush", "io"}, "flushes stdout; passes no argument"),
    "_lua_reset_env": ({"setmetatable", "io.flush", "io", "debug.traceback", "os.clock", "os.date", "os.difftime", "os.time", "package.loaded",
                        "debug", "os", "package", "_G"}, "the reset itself (clears the metatable of the host _G); returns the sandbox env only"),
    "mw_clone": (set(), ""),
}


# calls between the functions above on the pinned tree (confirmed by reading): what the callee may reach, the caller may reach
PINNED_CALLS = {
    "new_require": {"_cached_mod", "_save_mod", "new_loader"},
    "new_loadData": {"new_loader", "mw_clone"},
    "new_loadJsonData": {"new_loader", "mw_clone"},
    "_lua_reset_env": {"_lua_io_flush", "mw_clone"},
}


def _is_denied(path: str) -> bool:
    if path in SAFE_GLOBALS:
        return False
    return path.split(".")[0] in DENIED_ROOTS


def _env_assignments(p1):
    """(key, value expr, node) for everything _lua_reset_env stores in `env`: `env["k"] = v` statements, and loops that copy a
    local table display into env -- `for i = 1, #T do local e = T[i]; env[e[1]] = e[2] end`, `for _, e in ipairs(T) do env[e[1]] =
    e[2] end` over a list of {name, value} pairs, `for k, v in pairs(T) do env[k] = v end` over a table with constant string keys.
    A store under a computed key in any other shape makes the enumeration incomplete (inconclusive)."""
    fn = p1.func_named("_lua_reset_env")
    if fn is None:
        raise AnalysisError("_lua_reset_env vanished")
    out = []
    handled = set()

    def table_of(name_node):
        if name_node is None or name_node.kind != "name":
            return None
        d = p1.res.ref.get(name_node)
        if d is not None and d.value is not None and d.value.kind == "table" and not d.assigned_later:
            return d.value
        return None

    def is_elem(e, var: str, idx: int) -> bool:
        return e.kind == "index" and e.obj.kind == "name" and e.obj.id == var and e.key.kind == "number" and str(e.key.value) in (str(idx), str(idx) + ".0")

    for loop in L.walk(fn):
        tbl = entry = None
        if loop.kind == "fornum" and L.text(loop.start) == "1" and loop.stop.kind == "unop" and loop.stop.op == "#":
            tbl = table_of(loop.stop.operand)
            # local e = T[i]
            for st in loop.body:
                if st.kind == "local" and len(st.names) == 1 and st.exprs and st.exprs[0].kind == "index" \
                        and L.text(st.exprs[0].obj) == L.text(loop.stop.operand) and L.text(st.exprs[0].key) == loop.var:
                    entry = st.names[0]
        elif loop.kind == "forin" and len(loop.exprs) == 1 and loop.exprs[0].kind == "call" and L.text(loop.exprs[0].func) in ("ipairs", "_orig_ipairs") \
                and len(loop.names) == 2:
            tbl = table_of(loop.exprs[0].args[0]) if loop.exprs[0].args else None
            entry = loop.names[1]
        elif loop.kind == "forin" and len(loop.exprs) == 1 and loop.exprs[0].kind == "call" and L.text(loop.exprs[0].func) in ("pairs", "_orig_pairs") \
                and len(loop.names) == 2:
            tbl = table_of(loop.exprs[0].args[0]) if loop.exprs[0].args else None
            if tbl is not None:
                for st in loop.body:
                    if st.kind == "assign" and len(st.targets) == 1 and st.targets[0].kind == "index" and L.text(st.targets[0].obj) == "env" \
                            and L.text(st.targets[0].key) == loop.names[0] and L.text(st.exprs[0]) == loop.names[1]:
                        for k, v in tbl.fields:
                            ks = L.const_string(k)
                            if ks is None:
                                raise AnalysisError("_lua_reset_env: table copied into env has a non-constant key")
                            out.append((ks, v, st))
                        handled.add(id(st))
            continue
        if tbl is None or entry is None:
            continue
        for st in loop.body:
            if st.kind == "assign" and len(st.targets) == 1 and st.targets[0].kind == "index" and L.text(st.targets[0].obj) == "env" \
                    and is_elem(st.targets[0].key, entry, 1) and is_elem(st.exprs[0], entry, 2):
                for _, pair in tbl.fields:
                    if pair.kind != "table" or len(pair.fields) != 2 or L.const_string(pair.fields[0][1]) is None:
                        raise AnalysisError("_lua_reset_env: the list copied into env is not a list of {\"name\", value} pairs")
                    out.append((L.const_string(pair.fields[0][1]), pair.fields[1][1], st))
                handled.add(id(st))
    for n in L.walk(fn):
        if n.kind == "assign":
            for t, v in zip(n.targets, n.exprs):
                if t.kind == "index" and t.obj.kind == "name" and t.obj.id == "env":
                    k = L.const_string(t.key)
                    if k is not None:
                        out.append((k, v, n))
                    elif id(n) not in handled and v.kind != "nil":
                        raise AnalysisError("_lua_reset_env: `{}` stores into env under a computed key in an unrecognised shape".format(L.text(n)[:60]))
    return fn, out


def _table_field_origins(p1, tnode, depth=0) -> list:
    out = []
    for k, v in tnode.fields:
        o = L.origin_of(p1, v)
        kt = L.const_string(k) or L.text(k)
        if o.kind == "table" and depth < 3:
            for sub in _table_field_origins(p1, o.node, depth + 1):
                out.append((kt + "." + sub[0], sub[1], sub[2]))
        else:
            out.append((kt, o, v))
    return out


def rule_r1(ctx) -> RuleResult:
    rr = RuleResult("C06.R1", "every value placed in the module environment has an allowed origin", min_instances=40)
    p1 = ctx.lua.file("_sandbox_phase1.lua")
    fn, assigns = _env_assignments(p1)
    rr.instances["env_keys"] = len({k for k, _, _ in assigns})

    def judge(label, o, node):
        if o.kind == "global":
            if o.path in SAFE_GLOBALS or o.path in PY_HELPERS:
                rr.ok("_lua_reset_env", label + " <- " + o.path, {"key": label, "origin": o.path})
            elif _is_denied(o.path):
                rr.bad(Finding("C06.R1", P1, "_lua_reset_env", "{} <- {}".format(label, o.path),
                               "a denied host capability ({}) is reachable from the module environment under `{}`".format(o.path, label), node.line))
            else:
                raise AnalysisError("env key {}: origin `{}` is neither on the allow list nor on the deny list (inconclusive)".format(label, o.path))
        elif o.kind == "function":
            rr.ok("_lua_reset_env", label + " <- sandbox function " + str(o.node.name or o.path), {"key": label, "origin": "sandbox function"})
        elif o.kind == "const":
            rr.ok("_lua_reset_env", label + " <- constant")
        elif o.kind == "table":
            for fk, fo, fv in _table_field_origins(p1, o.node):
                judge(label + "." + fk, fo, node)
            if not o.node.fields:
                rr.ok("_lua_reset_env", label + " <- {}")
        else:
            raise AnalysisError("env key {}: origin of `{}` cannot be resolved (inconclusive)".format(label, o.path))

    for k, v, node in assigns:
        if k == "_G" and v.kind == "name" and v.id == "env":
            rr.ok("_lua_reset_env", "_G <- env (the sandbox table itself)")
            continue
        judge(k, L.origin_of(p1, v), node)
    return rr


def _retained_names(p1) -> set:
    decl = [d for d in p1.res.decls if d.name == "retained_modules"]
    if not decl or decl[0].value is None or decl[0].value.kind != "table":
        raise AnalysisError("retained_modules vanished")
    names = {L.const_string(k) for k, v in decl[0].value.fields if L.const_string(k)}
    for n in L.walk(p1.chunk):
        if n.kind == "assign":
            for t in n.targets:
                if t.kind == "index" and t.obj.kind == "name" and t.obj.id == "retained_modules" and L.const_string(t.key):
                    names.add(L.const_string(t.key))
    return names


def rule_r2(ctx) -> RuleResult:
    rr = RuleResult("C06.R2", "require() cannot return a host library from the shared module cache", min_instances=5)
    p1 = ctx.lua.file("_sandbox_phase1.lua")
    # does require read the host cache under a caller-chosen name?
    cm = p1.func_named("_cached_mod")
    reads_host = cm is not None and any(
        n.kind == "index" and L.origin_of(p1, n.obj).kind == "global" and L.origin_of(p1, n.obj).path == "package.loaded"
        and L.origin_of(p1, n.key).kind == "param" for n in L.walk(cm))
    filtered = cm is not None and any(n.kind == "if" and any(k in L.text(n.clauses[0][0]) for k in ("denied", "allowed", "retained_modules", "safe_modules"))
                                      for n in L.walk(cm))
    if not reads_host or filtered:
        rr.ok("_cached_mod", "module cache lookup is filtered / not the host cache", {"reads_host_cache": reads_host, "filtered": filtered})
        for lib in sorted(DENIED_LIBS):
            rr.ok("require", lib + " not reachable (lookup filtered)")
        return rr
    retained = _retained_names(p1)
    # names removed from the host cache at phase-1 top level: package.loaded["x"] = nil
    nild = set()
    for st in p1.chunk.body:
        if st.kind == "assign":
            for t, v in zip(st.targets, st.exprs):
                if t.kind == "index" and L.text(t.obj) == "package.loaded" and v.kind == "nil" and L.const_string(t.key):
                    nild.add(L.const_string(t.key))
    reachable = (PRELOADED & retained) - nild
    rr.instances["preloaded_and_retained"] = sorted(reachable)
    rr.instances["removed_at_top_level"] = sorted(nild)
    for lib in sorted(DENIED_LIBS):
        if lib in reachable:
            rr.bad(Finding("C06.R2", P1, "retained_modules", "retained_modules.{} = true".format(lib),
                           "require('{}') from a page module returns the host `{}` library: it stays in the host package.loaded (preloaded, kept by "
                           "the reset loop) and new_require returns package.loaded[modname] for any name".format(lib, lib), 0))
        else:
            rr.ok("require", "host library `{}` is not in the module cache after a reset".format(lib), {"library": lib})
    return rr


def rule_r3(ctx) -> RuleResult:
    rr = RuleResult("C06.R3", "exposed sandbox functions reach denied host capabilities only as recorded", min_instances=10)
    p1 = ctx.lua.file("_sandbox_phase1.lua")
    fn, assigns = _env_assignments(p1)
    exposed = {}
    for k, v, node in assigns:
        o = L.origin_of(p1, v)
        if o.kind == "function":
            exposed[k] = (o.node, node)
        elif o.kind == "table":
            for fk, fo, fv in _table_field_origins(p1, o.node):
                if fo.kind == "function":
                    exposed[k + "." + fk] = (fo.node, node)
    rr.instances["exposed_sandbox_functions"] = sorted(exposed)

    # what a function reaches counts transitively through the file's own functions, so that inlining a mediator
    # (`_cached_mod` into `new_require`) or extracting one does not change the verdict: compared are the capability sets
    # reachable from each exposed function, not where in the file the access is written
    def callees(f) -> dict:
        out = {}
        for c in L.calls_in(f):
            if c.kind != "call":
                continue
            o = L.origin_of(p1, c.func)
            if o.kind == "function" and o.node is not f:
                out[id(o.node)] = o.node
        return out

    def closure_touched(f) -> set:
        seen, todo, acc = {id(f)}, [f], set()
        while todo:
            g = todo.pop()
            acc |= {x for x in L.globals_touched(p1, g) if _is_denied(x) or x == "package.loaded"}
            for k_, h in callees(g).items():
                if k_ not in seen:
                    seen.add(k_)
                    todo.append(h)
        return acc

    def closure_allowed(name: str, seen=None) -> set:
        seen = seen if seen is not None else set()
        if name in seen:
            return set()
        seen.add(name)
        acc = set(FROZEN_SUMMARY.get(name, (set(), ""))[0])
        for g in PINNED_CALLS.get(name, ()):
            acc |= closure_allowed(g, seen)
        return acc

    for key, (f, node) in sorted(exposed.items()):
        name = f.name or key
        touched = closure_touched(f)
        allowed, why = closure_allowed(name), FROZEN_SUMMARY.get(name, (set(), ""))[1]
        extra = {g for g in touched if g not in allowed and g.split(".")[0] not in {a_ for a_ in allowed if "." not in a_}}
        if not extra:
            rr.ok("env." + key, "{} reaches {}".format(name, sorted(touched) or "no denied capability"),
                  {"exposed": key, "function": name, "denied_capabilities_reached": sorted(touched), "reason": why})
        else:
            rr.bad(Finding("C06.R3", P1, "env." + key, "{} -> {}".format(name, ", ".join(sorted(extra))),
                           "a function exposed to page modules reaches the denied host capability {} (not among the uses recorded for it "
                           "and the functions it calls)".format(", ".join(sorted(extra))), f.line))
    # the compile primitives turn text into code: wherever they are called, the text must be what the Python loader
    # returned for a module name (page store / shipped files), never a value supplied by the caller
    n_compile = 0
    for f in p1.functions:
        for c in L.calls_in(f):
            if c.kind != "call":
                continue
            o = L.origin_of(p1, c.func)
            if o.kind == "global" and o.path in ("loadstring", "load", "loadfile", "dofile"):
                n_compile += 1
                arg = c.args[0] if c.args else None
                src = None
                if arg is not None and arg.kind == "name":
                    d = p1.res.ref.get(arg)
                    vals = _all_values(f, arg.id) if d is not None and d.kind not in ("param", "loopvar") else None
                    if vals is not None and vals and all(v.kind in ("nil",) or (v.kind == "call" and L.text(v.func) == "_python_loader") for v in vals):
                        src = "_python_loader(...)"
                if src:
                    rr.ok("_sandbox_phase1.lua:" + (f.name or "?"), "{}({}) compiles the text returned by {}".format(o.path, L.text(arg), src))
                else:
                    rr.bad(Finding("C06.R3", P1, f.name or "?", L.text(c)[:80],
                                   "text that does not provably come from the Python module loader is compiled into code", c.line))
    if n_compile == 0:
        raise AnalysisError("no call of loadstring/load found in _sandbox_phase1.lua (2 confirmed by hand)")
    return rr


def _all_values(fn, name: str):
    """every expression assigned to local `name` inside fn (None when an assignment cannot be matched to one value)"""
    out = []
    for n in L.walk(fn):
        if n.kind == "local" and name in n.names:
            i = n.names.index(name)
            if not n.exprs:
                continue
            if i < len(n.exprs) and len(n.exprs) == len(n.names):
                out.append(n.exprs[i])
            else:
                return None
        elif n.kind == "assign":
            for i, t in enumerate(n.targets):
                if t.kind == "name" and t.id == name:
                    if len(n.exprs) == len(n.targets):
                        out.append(n.exprs[i])
                    else:
                        return None
    return out


def rule_r4(ctx) -> RuleResult:
    rr = RuleResult("C06.R4", "the built-in module loader cannot leave the package's lua directory", min_instances=3)
    fn = ctx.fn("luaexec.lua_loader")
    # string-shape domain for `path`
    st = {"leading_slash": True, "dotdot": True, "double_slash": True, "ctrl": True, "suffix_lua": False}
    seen_ops = []
    body_if = [s for s in fn.body if isinstance(s, ast.If) and unparse(s.test) == "data is None"]
    if not body_if:
        # guard-clause form: `if data is not None: return data` followed by the sanitiser at function level
        for i_, s_ in enumerate(fn.body):
            if isinstance(s_, ast.If) and unparse(s_.test) == "data is not None" and not s_.orelse and s_.body \
                    and isinstance(s_.body[-1], ast.Return):
                pseudo = ast.If(test=ast.parse("data is None", mode="eval").body, body=list(fn.body[i_ + 1:]), orelse=[])
                ast.copy_location(pseudo, s_)
                body_if = [pseudo]
                break
    if len(body_if) != 1:
        raise AnalysisError("lua_loader: `if data is None` block vanished")
    mod_tree = ctx.index.mod("luaexec").tree

    def const_table(name: str):
        """[(pattern, repl)] for a module-level list/tuple of (re.compile(<const>) | <const>, <const>) pairs"""
        for st in mod_tree.body:
            tg = st.targets[0] if isinstance(st, ast.Assign) and len(st.targets) == 1 else st.target if isinstance(st, ast.AnnAssign) else None
            if isinstance(tg, ast.Name) and tg.id == name and isinstance(getattr(st, "value", None), (ast.List, ast.Tuple)):
                out = []
                for el in st.value.elts:
                    if not (isinstance(el, ast.Tuple) and len(el.elts) == 2 and isinstance(el.elts[1], ast.Constant)):
                        return None
                    p0 = el.elts[0]
                    if isinstance(p0, ast.Call) and unparse(p0.func) == "re.compile" and p0.args and isinstance(p0.args[0], ast.Constant):
                        out.append((p0.args[0].value, el.elts[1].value))
                    elif isinstance(p0, ast.Constant):
                        out.append((p0.value, el.elts[1].value))
                    else:
                        return None
                return out
        return None

    roots = {"path", "modname"}

    def helper_ops(h: ast.FunctionDef) -> list:
        """operations a module-level helper applies to its single parameter before returning it"""
        params = [a_.arg for a_ in h.args.args]
        if len(params) != 1:
            raise AnalysisError("lua_loader: sanitising helper {} takes {} parameters (inconclusive)".format(h.name, len(params)))
        saved = set(roots)
        roots.add(params[0])
        out = []
        try:
            for st_ in h.body:
                if isinstance(st_, ast.Expr) and isinstance(st_.value, ast.Constant):
                    continue  # docstring
                if isinstance(st_, ast.Assign) and len(st_.targets) == 1 and isinstance(st_.targets[0], ast.Name):
                    out.extend(steps_of(st_.value))
                    roots.add(st_.targets[0].id)
                elif isinstance(st_, ast.AugAssign) and isinstance(st_.target, ast.Name) and isinstance(st_.value, ast.Constant):
                    out.append(("suffix", st_.value.value, None))
                elif isinstance(st_, ast.Return) and st_.value is not None:
                    out.extend(steps_of(st_.value))
                    return out
                else:
                    raise AnalysisError("lua_loader: sanitising helper {} has a statement outside the supported fragment (inconclusive)".format(h.name))
        finally:
            roots.clear()
            roots.update(saved)
        raise AnalysisError("lua_loader: sanitising helper {} does not return (inconclusive)".format(h.name))

    def steps_of(e: ast.AST) -> list:
        """flatten an expression over `path` into the ordered list of string operations it applies"""
        if isinstance(e, ast.Name):
            if e.id in roots:
                return []
            defs = [s_.value for s_ in body_if[0].body if isinstance(s_, ast.Assign) and len(s_.targets) == 1 and unparse(s_.targets[0]) == e.id]
            if len(defs) == 1:
                return steps_of(defs[0])
            raise AnalysisError("lua_loader: path built from `{}` (inconclusive)".format(e.id))
        # "/".join(c for c in X.split("/") if <keeps only components that are not empty and not all dots>)
        if isinstance(e, ast.Call) and isinstance(e.func, ast.Attribute) and e.func.attr == "join" and isinstance(e.func.value, ast.Constant) \
                and e.func.value.value == "/" and len(e.args) == 1:
            src = e.args[0]
            if isinstance(src, ast.Name):
                defs = [s_.value for s_ in body_if[0].body if isinstance(s_, ast.Assign) and len(s_.targets) == 1 and unparse(s_.targets[0]) == src.id]
                src = defs[0] if len(defs) == 1 else src
            if isinstance(src, (ast.ListComp, ast.GeneratorExp)) and len(src.generators) == 1 and isinstance(src.elt, ast.Name) \
                    and isinstance(src.generators[0].target, ast.Name) and src.elt.id == src.generators[0].target.id:
                g = src.generators[0]
                it = g.iter
                if isinstance(it, ast.Call) and isinstance(it.func, ast.Attribute) and it.func.attr == "split" and len(it.args) == 1 \
                        and isinstance(it.args[0], ast.Constant) and it.args[0].value == "/":
                    v = g.target.id
                    drops_empty = drops_dots = False
                    for cond in g.ifs:
                        t = unparse(cond)
                        if t in (v, "len({}) > 0".format(v), "{} != ''".format(v)):
                            drops_empty = True
                        if t in ("{}.strip('.')".format(v), "{}.strip('.') != ''".format(v)):
                            drops_empty = drops_dots = True
                        if t in ("{} not in ('', '.', '..')".format(v), "{} not in ('.', '..', '')".format(v)):
                            drops_empty = True
                            drops_dots = "partial"
                    return steps_of(it.func.value) + [("components", drops_empty, drops_dots)]
        if isinstance(e, ast.Call) and isinstance(e.func, ast.Name) and len(e.args) == 1 and not e.keywords \
                and ctx.index.has_func("luaexec." + e.func.id):
            return steps_of(e.args[0]) + helper_ops(ctx.index.func("luaexec." + e.func.id))
        if isinstance(e, ast.Call) and unparse(e.func) == "re.sub" and len(e.args) == 3 and isinstance(e.args[0], ast.Constant) \
                and isinstance(e.args[1], ast.Constant):
            return steps_of(e.args[2]) + [("sub", e.args[0].value, e.args[1].value)]
        if isinstance(e, ast.Call) and isinstance(e.func, ast.Attribute) and e.func.attr == "replace" and len(e.args) == 2 \
                and all(isinstance(a_, ast.Constant) for a_ in e.args):
            return steps_of(e.func.value) + [("replace", e.args[0].value, e.args[1].value)]
        if isinstance(e, ast.Call) and isinstance(e.func, ast.Attribute) and e.func.attr in ("lstrip", "strip") and e.args \
                and isinstance(e.args[0], ast.Constant):
            return steps_of(e.func.value) + [(e.func.attr, e.args[0].value, None)]
        if isinstance(e, ast.Call) and isinstance(e.func, ast.Attribute) and e.func.attr == "translate" and len(e.args) == 1 and not e.keywords:
            try:
                tbl = ctx.index.fold("luaexec", e.args[0])
            except Exception:  # noqa: BLE001
                tbl = None
            if not isinstance(tbl, dict) or not all(isinstance(k_, int) for k_ in tbl):
                raise AnalysisError("lua_loader: the table of .translate() cannot be folded (inconclusive)")
            return steps_of(e.func.value) + [("translate", tbl, None)]
        if isinstance(e, ast.BinOp) and isinstance(e.op, ast.Add) and isinstance(e.right, ast.Constant):
            return steps_of(e.left) + [("suffix", e.right.value, None)]
        if isinstance(e, ast.JoinedStr):
            from ..core import strtpl
            tpl = strtpl.template(e)
            if len(tpl) == 2 and not isinstance(tpl[0], str) and isinstance(tpl[1], str):
                return steps_of(tpl[0]) + [("suffix", tpl[1], None)]
        raise AnalysisError("lua_loader: unrecognised sanitising expression {} (inconclusive)".format(unparse(e)[:60]))

    ops = []
    for s in body_if[0].body:
        if isinstance(s, ast.Assign) and unparse(s.targets[0]) == "path":
            ops.extend(steps_of(s.value))
        elif isinstance(s, ast.AugAssign) and unparse(s.target) == "path" and isinstance(s.value, ast.Constant):
            ops.append(("suffix", s.value.value, None))
        elif isinstance(s, ast.For) and isinstance(s.iter, ast.Name) and isinstance(s.target, ast.Tuple) and len(s.target.elts) == 2 \
                and len(s.body) == 1 and isinstance(s.body[0], ast.Assign) and unparse(s.body[0].targets[0]) == "path":
            tbl = const_table(s.iter.id)
            v = s.body[0].value
            pn, rn = unparse(s.target.elts[0]), unparse(s.target.elts[1])
            shape_sub = isinstance(v, ast.Call) and ((unparse(v.func) == pn + ".sub" and [unparse(x) for x in v.args] == [rn, "path"])
                                                     or (unparse(v.func) == "re.sub" and [unparse(x) for x in v.args] == [pn, rn, "path"]))
            if tbl is None or not shape_sub:
                raise AnalysisError("lua_loader: table-driven sanitiser outside the supported fragment (inconclusive)")
            ops.extend(("sub", p_, r_) for p_, r_ in tbl)
        elif isinstance(s, ast.If) and "path" in unparse(s) and any(isinstance(x, (ast.AugAssign, ast.Assign)) and "path" in unparse(x) for x in ast.walk(s)):
            seen_ops.append("conditional: " + unparse(s.test))
            # a conditional step is not a guarantee
    for kind, a1, a2 in ops:
        if kind == "sub":
            pat, rep = a1, a2
            seen_ops.append("sub({!r}, {!r})".format(pat, rep))
            if pat == r"[\0-\037]" and rep == "":
                st["ctrl"] = False
                # deleting characters can join what was apart: ".\x01." becomes "..", "/\x01/" becomes "//",
                # "\x01/x" becomes "/x" -- every structural fact established so far is void again
                st["dotdot"] = True
                st["double_slash"] = True
                st["leading_slash"] = True
            elif pat in (r"//+", r"/{2,}") and rep == "/":
                st["double_slash"] = False
            elif pat in (r"\.\.+", r"\.{2,}") and rep in (".", ""):
                st["dotdot"] = False
            elif pat in (r"^//+", r"^/{2,}") and rep == "":
                pass  # a single leading slash survives in every case
            elif pat in (r"^/+", r"^/*", r"\A/+") and rep == "":
                st["leading_slash"] = False
            else:
                raise AnalysisError("lua_loader: unrecognised sanitising step re.sub({!r}, {!r}) (inconclusive)".format(pat, rep))
        elif kind == "replace":
            seen_ops.append("replace({!r}, {!r})".format(a1, a2))
            if "/" in a2:
                st["leading_slash"] = True
                st["double_slash"] = True
            if ".." in a2 or a2 == ".":
                st["dotdot"] = True
            if a2 == "" and a1 not in ("/", "."):
                st["dotdot"] = st["double_slash"] = st["leading_slash"] = True  # a deletion, as above
        elif kind == "translate":
            deleted = {chr(k_) for k_, v_ in a1.items() if v_ is None or v_ == ""}
            mapped = {chr(k_): (v_ if isinstance(v_, str) else chr(v_)) for k_, v_ in a1.items() if not (v_ is None or v_ == "")}
            seen_ops.append("translate(delete {} chars, map {})".format(len(deleted), sorted(mapped.items())))
            if all(chr(c_) in deleted for c_ in range(0o40)):
                st["ctrl"] = False
            if deleted - {"/", "."}:
                # a deletion: what was apart is joined (".\x01." -> ".."), every structural fact established so far is void again
                st["dotdot"] = st["double_slash"] = st["leading_slash"] = True
            for k_, v_ in mapped.items():
                if "/" in v_:
                    st["leading_slash"] = True
                    st["double_slash"] = True
                if "." in v_:
                    st["dotdot"] = True
        elif kind == "components":
            seen_ops.append("split('/') -> filter(empty: {}, dots: {}) -> join('/')".format(a1, a2))
            if a1:  # no empty component: neither a leading nor a doubled slash
                st["leading_slash"] = False
                st["double_slash"] = False
            if a2 is True:  # no component made of dots only
                st["dotdot"] = False
        elif kind in ("lstrip", "strip"):
            seen_ops.append("{}({!r})".format(kind, a1))
            if "/" in a1:
                st["leading_slash"] = False
        elif kind == "suffix":
            seen_ops.append("+= {!r}".format(a1))
            if a1 == ".lua":
                st["suffix_lua"] = True
    rr.instances["sanitising_steps"] = seen_ops
    checks = [
        ("leading_slash", False, "after sanitising, the path can still start with `/`: `LUA_DIR / prefix / path` with an absolute right operand discards "
                                 "LUA_DIR, so require('/tmp/x') loads /tmp/x.lua from the host file system"),
        ("dotdot", False, "the path can still contain `..` and climb out of the lua directory"),
        ("suffix_lua", True, "the `.lua` suffix is not appended unconditionally: the loader can read files of other types (e.g. *.json) from the host"),
    ]
    for key, want, msg in checks:
        if st[key] == want:
            rr.ok("luaexec.lua_loader", "{} = {}".format(key, st[key]), {"shape_fact": key, "value": st[key]})
        else:
            rr.bad(Finding("C06.R4", LX, "luaexec.lua_loader", "path sanitiser: {} = {}".format(key, st[key]), msg, body_if[0].lineno))
    return rr


def _classify_py_value(e: ast.AST, fn_names: set) -> str:
    if isinstance(e, ast.Call):
        f = unparse(e.func)
        if f in ("partial", "functools.partial"):
            return "partial"
        if f.endswith("table_from") or f.endswith(".eval"):
            return "lua"
        if f == "lua_wrapper_generator":
            return "lua"
        if f in ("_bind",) or f in fn_names:
            return "closure"
        return "call:" + f
    if isinstance(e, ast.Name):
        return "function" if e.id in fn_names else "name:" + e.id
    if isinstance(e, ast.Lambda):
        return "function"
    if isinstance(e, ast.Constant):
        return "const"
    return "other:" + unparse(e)[:30]


def rule_r5(ctx) -> RuleResult:
    rr = RuleResult("C06.R5", "only inert Python objects are handed to Lua", min_instances=20)
    m = ctx.index.mod("luaexec")
    fn_names = {q for q in m.funcs if "." not in q} | {q.split(".")[-1] for q in m.funcs}
    # imported functions count as functions
    for n in ast.walk(m.tree):
        if isinstance(n, ast.ImportFrom):
            for a in n.names:
                fn_names.add(a.asname or a.name)
    # closure factories: module-level functions that return a nested def
    factories = set()
    for q, f in m.funcs.items():
        if "." in q:
            continue
        inner = {s.name for s in f.body if isinstance(s, ast.FunctionDef)}
        rets = [s for s in f.body if isinstance(s, ast.Return) and isinstance(s.value, ast.Name) and s.value.id in inner]
        if inner and rets:
            factories.add(q)
    sites = []
    csf = ctx.fn("luaexec.call_set_functions")
    for d in [n for n in ast.walk(csf) if isinstance(n, ast.Dict)]:
        for k, v in zip(d.keys, d.values):
            if isinstance(k, ast.Constant):
                sites.append(("luaexec.call_set_functions", "table_from[{!r}]".format(k.value), v, True))
    for q in ("set_lua_env_funcs", "initialize_lua"):
        f = ctx.fn("luaexec." + q)
        for c in walk_no_nested(f):
            if isinstance(c, ast.Call) and unparse(c.func) == "set_global_lua_variable" and len(c.args) == 3:
                nm = c.args[1].value if isinstance(c.args[1], ast.Constant) else unparse(c.args[1])
                reachable = nm in ("_python_append_env", "_python_top_env", "NAMESPACE_DATA")
                sites.append(("luaexec." + q, "global {}".format(nm), c.args[2], reachable))
            if isinstance(c, ast.Call) and unparse(c.func) == "set_loader" and c.args:
                sites.append(("luaexec." + q, "set_loader(...)", c.args[0], False))
    mf = ctx.fn("luaexec.call_lua_sandbox.make_frame")
    for n in walk_no_nested(mf):
        if isinstance(n, ast.Assign) and isinstance(n.targets[0], ast.Subscript) and unparse(n.targets[0].value) == "frame":
            sites.append(("luaexec.call_lua_sandbox.make_frame", "frame[{}]".format(unparse(n.targets[0].slice)), n.value, True))
    if len(sites) < 20:
        raise AnalysisError("only {} bridge sites found (29 confirmed by hand)".format(len(sites)))
    nested = {q.split(".")[-1] for q in m.funcs if q.startswith("call_lua_sandbox.make_frame.")}
    for owner, label, v, reachable in sites:
        kind = _classify_py_value(v, fn_names | nested)
        if isinstance(v, ast.Call) and unparse(v.func) in factories:
            kind = "closure"
        if kind == "name:frame_args_lt":
            kind = "lua"
        ctx.touched(owner, LX)
        if kind in ("function", "closure", "lua", "const"):
            rr.ok(owner, "{} <- {}".format(label, kind), {"site": label, "value": unparse(v)[:60], "kind": kind})
        elif kind == "partial":
            bound = [unparse(a) for a in v.args[1:]]
            msg = ("a functools.partial object is handed to Lua; its public attributes .args/.func/.keywords pass the attribute filter, so a "
                   "module can evaluate `{}.args[1]` and obtain {}".format(label.split("'")[1] if "'" in label else label, ", ".join(bound)))
            f = Finding("C06.R5", LX, owner, "{} <- {}".format(label, unparse(v)[:70]), msg, v.lineno)
            if reachable:
                rr.bad(f)
            else:
                rr.informational.append({"site": label, "note": "partial held only in an upvalue / host global", "value": unparse(v)[:60]})
                rr.ok(owner, label + " <- partial, not reachable from a module (upvalue / host global only)")
        else:
            raise AnalysisError("{}: cannot classify the value handed to Lua at {}: {} (inconclusive)".format(owner, label, unparse(v)[:60]))
    return rr


def rule_r6(ctx) -> RuleResult:
    rr = RuleResult("C06.R6", "LuaRuntime is created without eval and with the attribute filter", min_instances=3)
    fn = ctx.fn("luaexec.initialize_lua")
    calls = [c for c in walk_no_nested(fn) if isinstance(c, ast.Call) and unparse(c.func).endswith("LuaRuntime")]
    if len(calls) != 1:
        raise AnalysisError("initialize_lua: LuaRuntime(...) call vanished")
    kw = {k.arg: k.value for k in calls[0].keywords}
    if isinstance(kw.get("register_eval"), ast.Constant) and kw["register_eval"].value is False:
        rr.ok("luaexec.initialize_lua", "register_eval=False")
    else:
        rr.bad(Finding("C06.R6", LX, "luaexec.initialize_lua", "register_eval", "python.eval is registered in the Lua runtime", calls[0].lineno))
    if isinstance(kw.get("register_builtins"), ast.Constant) and kw["register_builtins"].value is True:
        rr.bad(Finding("C06.R6", LX, "luaexec.initialize_lua", "register_builtins=True", "python.builtins is registered in the Lua runtime", calls[0].lineno))
    af = kw.get("attribute_filter")
    if af is None:
        rr.bad(Finding("C06.R6", LX, "luaexec.initialize_lua", "attribute_filter", "no attribute filter: every attribute of bridge objects is reachable", calls[0].lineno))
        return rr
    fl = ctx.index.mod("luaexec").funcs.get("initialize_lua." + unparse(af))
    if fl is None:
        raise AnalysisError("attribute filter function not found")
    src = unparse(fl)
    first = fl.body[0]
    ok = (isinstance(first, ast.If) and "isinstance(attr_name, str)" in unparse(first.test) and "not attr_name.startswith('_')" in unparse(first.test)
          and isinstance(first.body[-1], ast.Return) and isinstance(fl.body[-1], ast.Raise))
    if ok:
        rr.ok("luaexec.initialize_lua.filter_attribute_access", "returns the name only for str names not starting with '_', raises otherwise")
        rr.ok("luaexec.initialize_lua", "attribute_filter=" + unparse(af))
    else:
        rr.bad(Finding("C06.R6", LX, "luaexec.initialize_lua." + unparse(af), src[:100], "the attribute filter no longer denies underscore / non-str names by raising", fl.lineno))
    return rr


def rule_r7(ctx) -> RuleResult:
    """A Python exception raised inside a callback reaches a module's pcall as the error value, and
    the public attributes of the exception object pass the attribute filter.  AttributeError carries
    `.obj`, the object the lookup failed on: an unassigned __slots__ attribute of the context turns
    into a reference to the Wtp itself (db_conn, add_page ...).  Necessary condition checked here:
    no constructor path leaves a slot unassigned (shared with C05.R9)."""
    from ..core.report import shared
    from . import c05

    return shared(c05.rule_r9(ctx), "C06.R7", "no context attribute can be missing (AttributeError.obj would hand the context to Lua; shared with C05.R9)",
                  "a module that wraps the failing call in pcall receives the exception object, whose .obj is the processing context",
                  min_instances=3)


_MUTABLE_TYPES = {"dict", "list", "set", "Dict", "List", "Set", "defaultdict", "deque", "OrderedDict", "bytearray"}


def _ann_is_container(a) -> bool:
    if isinstance(a, ast.Constant) and isinstance(a.value, str):
        try:
            a = ast.parse(a.value, mode="eval").body
        except SyntaxError:
            return False
    if isinstance(a, ast.Name):
        return a.id in _MUTABLE_TYPES
    if isinstance(a, ast.Attribute):
        return a.attr in _MUTABLE_TYPES
    if isinstance(a, ast.Subscript):
        return _ann_is_container(a.value)
    return False


def _ann_element(a):
    """annotation of the values of a mapping / the items of a sequence, or None"""
    if isinstance(a, ast.Constant) and isinstance(a.value, str):
        try:
            a = ast.parse(a.value, mode="eval").body
        except SyntaxError:
            return None
    if isinstance(a, ast.Subscript):
        base = a.value.id if isinstance(a.value, ast.Name) else (a.value.attr if isinstance(a.value, ast.Attribute) else "")
        sl = a.slice
        if base in ("dict", "Dict", "defaultdict", "Mapping", "OrderedDict") and isinstance(sl, ast.Tuple) and len(sl.elts) == 2:
            return sl.elts[1]
        if base in ("list", "List", "Sequence", "set", "Set", "Iterable", "tuple", "Tuple", "deque"):
            return sl.elts[0] if isinstance(sl, ast.Tuple) else sl
        if base == "Optional":
            return _ann_element(sl)
    return None


class _Elements:
    """What does a non-recursive table_from(E) leave inside the Lua table?  lupa converts only the outer container; each value is
    handed over as it is, so a dict/list/set value arrives in Lua as a *live Python object* (indexable and assignable from Lua
    code).  Kinds: 'container' (positively a mutable Python container), 'inert' (immutable / Lua value), 'unknown'."""

    def __init__(self, ctx, modname: str, fn):
        self.ctx, self.modname, self.fn = ctx, modname, fn
        self.mod = ctx.index.mod(modname)
        self.params = {a.arg: a.annotation for a in fn.args.args + fn.args.kwonlyargs}
        self.visiting: set = set()
        self.why = ""

    def _callee(self, call):
        f = call.func
        name = f.id if isinstance(f, ast.Name) else None
        if name is None:
            return None
        if name in self.mod.funcs:
            return self.mod.funcs[name]
        for n in ast.walk(self.mod.tree):
            if isinstance(n, ast.ImportFrom) and n.level >= 1 and n.module:
                for a in n.names:
                    if (a.asname or a.name) == name and self.ctx.index.has_func(n.module + "." + a.name):
                        return self.ctx.index.func(n.module + "." + a.name)
        return None

    def _comp_binding(self, name: str, comp):
        """X when `name` is the value variable of `for k, name in X.items()` / `for name in X.values()` / `for name in X`"""
        for g in comp.generators:
            it = g.iter
            if isinstance(g.target, ast.Tuple) and len(g.target.elts) == 2 and isinstance(g.target.elts[1], ast.Name) and g.target.elts[1].id == name \
                    and isinstance(it, ast.Call) and isinstance(it.func, ast.Attribute) and it.func.attr == "items":
                return it.func.value
            if isinstance(g.target, ast.Name) and g.target.id == name:
                if isinstance(it, ast.Call) and isinstance(it.func, ast.Attribute) and it.func.attr == "values":
                    return it.func.value
                return it
        return None

    def value(self, v, comps=()) -> str:
        if isinstance(v, (ast.Constant, ast.JoinedStr, ast.Compare, ast.BoolOp, ast.Tuple, ast.Lambda)):
            return "inert"
        if isinstance(v, (ast.Dict, ast.List, ast.Set, ast.DictComp, ast.ListComp, ast.SetComp)):
            self.why = "`{}` is a Python {}".format(unparse(v)[:40], type(v).__name__.lower())
            return "container"
        if isinstance(v, ast.IfExp):
            ks = {self.value(v.body, comps), self.value(v.orelse, comps)}
            return "container" if "container" in ks else ("unknown" if "unknown" in ks else "inert")
        if isinstance(v, ast.Call):
            f = unparse(v.func)
            if f.endswith("table_from") or f in ("str", "int", "float", "bool", "len", "repr", "tuple", "frozenset") or f.endswith(".format") or f.endswith(".join"):
                return "inert"
            if f in ("dict", "list", "set", "defaultdict", "deque") or f in ("copy.deepcopy", "copy.copy", "deepcopy") and v.args and \
                    self.value(v.args[0], comps) == "container":
                self.why = "`{}` builds a Python container".format(unparse(v)[:40])
                return "container"
            callee = self._callee(v)
            if callee is not None and callee.returns is not None and _ann_is_container(callee.returns):
                self.why = "`{}` returns {}".format(unparse(v)[:40], unparse(callee.returns)[:50])
                return "container"
            return "unknown"
        if isinstance(v, ast.Name):
            for comp in comps:
                src = self._comp_binding(v.id, comp)
                if src is not None:
                    return self.elements(src, comps)
            return self._name(v.id, lambda e: self.value(e, comps), want_value=True)
        return "unknown"

    def _name(self, name: str, via, want_value: bool) -> str:
        key = (name, want_value)
        if key in self.visiting:
            return "inert"  # neutral element of the join
        self.visiting.add(key)
        try:
            kinds = set()
            if name in self.params and self.params[name] is not None:
                a = self.params[name]
                el = a if want_value else _ann_element(a)
                if el is not None and _ann_is_container(el):
                    self.why = "parameter `{}: {}`".format(name, unparse(a)[:50])
                    kinds.add("container")
                else:
                    kinds.add("unknown")
            for n in walk_no_nested(self.fn):
                tgt = val = None
                if isinstance(n, ast.Assign) and len(n.targets) == 1:
                    tgt, val = n.targets[0], n.value
                elif isinstance(n, ast.AnnAssign) and n.value is not None:
                    tgt, val = n.target, n.value
                if isinstance(tgt, ast.Name) and tgt.id == name:
                    kinds.add(via(val))
                elif not want_value and isinstance(tgt, ast.Subscript) and isinstance(tgt.value, ast.Name) and tgt.value.id == name:
                    kinds.add(self.value(val))
                elif not want_value and isinstance(n, ast.Call) and isinstance(n.func, ast.Attribute) and n.func.attr in ("append", "add") \
                        and isinstance(n.func.value, ast.Name) and n.func.value.id == name and n.args:
                    kinds.add(self.value(n.args[0]))
            if not kinds:
                return "unknown"
            return "container" if "container" in kinds else ("unknown" if "unknown" in kinds else "inert")
        finally:
            self.visiting.discard(key)

    def elements(self, e, comps=()) -> str:
        """kind of the values (mapping) / items (sequence) of the container expression e"""
        if isinstance(e, ast.Dict):
            ks = {self.value(v, comps) for v in e.values}
        elif isinstance(e, (ast.List, ast.Set, ast.Tuple)):
            ks = {self.value(v, comps) for v in e.elts}
        elif isinstance(e, ast.DictComp):
            ks = {self.value(e.value, (e,) + tuple(comps))}
        elif isinstance(e, (ast.ListComp, ast.SetComp, ast.GeneratorExp)):
            ks = {self.value(e.elt, (e,) + tuple(comps))}
        elif isinstance(e, ast.Name):
            return self._name(e.id, lambda v: self.elements(v, comps), want_value=False)
        elif isinstance(e, ast.Call):
            f = unparse(e.func)
            if f in ("list", "dict", "tuple", "set", "sorted", "copy.deepcopy", "copy.copy", "deepcopy") and e.args:
                return self.elements(e.args[0], comps)
            callee = self._callee(e)
            el = _ann_element(callee.returns) if callee is not None and callee.returns is not None else None
            if el is not None:
                if _ann_is_container(el):
                    self.why = "`{}` returns {}".format(unparse(e)[:40], unparse(callee.returns)[:60])
                    return "container"
                return "inert"
            return "unknown"
        else:
            return "unknown"
        return "container" if "container" in ks else ("unknown" if "unknown" in ks else "inert")


def rule_r8(ctx) -> RuleResult:
    """`lua.table_from(x)` without `recursive=True` converts the outer container only.  A dict / list / set left inside it reaches
    the module as a live Python object: the module can index it *and assign into it* (lupa maps `t.k = v` to `__setitem__`), so
    whatever the Python side keeps referring to -- a cached map, the page store's row, the context's tables -- can be rewritten by
    code from a page (seed C06-8B: the cached interwiki map handed out with its inner dicts unconverted)."""
    rr = RuleResult("C06.R8", "a Python container converted for Lua has no live Python container inside it", min_instances=8)
    for dotted, m, f in ctx.index.all_functions():
        for c in walk_no_nested(f):
            if not (isinstance(c, ast.Call) and c.args and ((isinstance(c.func, ast.Attribute) and c.func.attr == "table_from")
                                                          or (isinstance(c.func, ast.Name) and c.func.id == "table_from"))):
                continue
            ctx.touched(dotted, m.relpath)
            rec = [k for k in c.keywords if k.arg == "recursive"]
            if rec and isinstance(rec[0].value, ast.Constant) and rec[0].value.value is True:
                rr.ok(dotted, "table_from(..., recursive=True)", {"site": dotted, "line": c.lineno, "kind": "recursive"})
                continue
            el = _Elements(ctx, dotted.split(".")[0], f)
            kind = el.elements(c.args[0])
            if kind == "container":
                rr.bad(Finding("C06.R8", m.relpath, dotted, "table_from({})".format(unparse(c.args[0])[:50]),
                               "the converted table keeps a live Python container as a value ({}): Lua code can assign into it and thereby "
                               "change the Python-side object for every later caller".format(el.why), c.lineno))
            else:
                rr.ok(dotted, "table_from({}): values {}".format(unparse(c.args[0])[:40], kind), {"site": dotted, "line": c.lineno, "kind": kind})
    return rr


def rule_r9(ctx) -> RuleResult:
    """`_bind(fn, ctx, ...)` exists so that the bound context is reachable from Lua through nothing but a call.  lupa hands a
    Python exception raised under a Lua `pcall` to the Lua code as an object; its `args` pass the attribute filter and tuples
    are indexed without any filter.  So inside `_bind` the bound values (and anything built from them) may be used in exactly
    one way: as arguments of the call to the wrapped function -- not as an argument of an exception, not stored, not returned
    (seed C06-10A: `raise TypeError(msg, call_args)` gives a module `err.args[1][0]`, the Wtp object)."""
    rr = RuleResult("C06.R9", "the values bound by _bind are used only as arguments of the wrapped call", min_instances=1)
    m = ctx.index.mod("luaexec")
    if "_bind" not in m.funcs:
        raise AnalysisError("luaexec._bind vanished (the closure factory that hides the bound context)")
    fn = m.funcs["_bind"]
    if not fn.args.args or fn.args.vararg is None:
        raise AnalysisError("luaexec._bind: signature (fn, *bound) not recognised")
    callee, bound = fn.args.args[0].arg, fn.args.vararg.arg
    tainted = {bound}
    changed = True
    while changed:
        changed = False
        for a in ast.walk(fn):
            if isinstance(a, ast.Assign) and len(a.targets) == 1 and isinstance(a.targets[0], ast.Name) and a.targets[0].id not in tainted \
                    and any(isinstance(x, ast.Name) and x.id in tainted for x in ast.walk(a.value)):
                tainted.add(a.targets[0].id)
                changed = True
    parents = {c: p_ for p_ in ast.walk(fn) for c in ast.iter_child_nodes(p_)}
    n_ok = 0
    for x in ast.walk(fn):
        if not (isinstance(x, ast.Name) and x.id in tainted and isinstance(x.ctx, ast.Load)):
            continue
        # climb to the statement; allowed: inside the argument list of a call to the wrapped function, or the value of the
        # assignment that defines another tainted name
        n, ok = x, False
        while n in parents:
            par = parents[n]
            if isinstance(par, ast.Call) and isinstance(par.func, ast.Name) and par.func.id == callee and n is not par.func:
                ok = True
                break
            if isinstance(par, ast.Assign) and len(par.targets) == 1 and isinstance(par.targets[0], ast.Name) and par.targets[0].id in tainted and n is par.value:
                ok = True
                break
            if isinstance(par, ast.stmt):
                break
            if isinstance(par, ast.Call) and n is not par.func and not (isinstance(par.func, ast.Name) and par.func.id in ("tuple", "list")):
                break
            n = par
        if ok:
            n_ok += 1
        else:
            st = x
            while st in parents and not isinstance(st, ast.stmt):
                st = parents[st]
            rr.bad(Finding("C06.R9", LX, "luaexec._bind", unparse(st)[:90],
                           "`{}` holds the objects bound for the Lua-visible closure (the Wtp context among them) and is used outside the call to "
                           "the wrapped function: an exception carrying it reaches Lua as the error value of pcall, `err.args[..][0]` is the "
                           "context, and `ctx.add_page` / `ctx.db_conn` are callable from module code".format(x.id), x.lineno))
    if n_ok == 0 and not rr.findings:
        raise AnalysisError("luaexec._bind: the call that passes the bound values to the wrapped function was not recognised")
    if not rr.findings:
        rr.ok("luaexec._bind", "{} use(s) of the bound values, all as arguments of `{}(...)`".format(n_ok, callee))
    return rr


def run(ctx) -> list:
    return [rule_r1(ctx), rule_r2(ctx), rule_r3(ctx), rule_r4(ctx), rule_r5(ctx), rule_r6(ctx), rule_r7(ctx), rule_r8(ctx), rule_r9(ctx)]
