"""C15 -- nowiki content and comments are inert and recoverable.

R1  protect before encode: at every call site of _encode in the package the
    argument has been passed through preprocess_text on every path, or (for the
    comment clause) _encode removes closed comments itself before encoding.
R2  N cookies are inert and quoted exactly once: the producer stores the raw
    nowiki body; expand_args and expand_recurse pass the cookie through
    untouched and do not recurse into it; both final consumers (magic_repl in
    core, magic_fn in the parser) emit nowiki_quote(args[0]).
R3  the entity table round-trips: html.unescape(value) == key for every entry,
    values pairwise distinct, the matching regex is built from the keys.
R4  preprocess_text: nowiki pairs are saved (lazy, DOTALL, case-insensitive)
    before <nowiki/> and before comment removal; the comment pattern is a lazy
    DOTALL match of <!-- ... --> with an optional preceding newline, replaced
    by the empty string.
"""

from __future__ import annotations

import ast
import html
import re

try:
    import re._parser as sre_parse  # py>=3.11
    import re._constants as sre_c
except ImportError:  # pragma: no cover
    import sre_parse
    import sre_constants as sre_c

from ..core.flow import Flow
from ..core.index import unparse, walk_no_nested
from ..core.report import AnalysisError, Finding, RuleResult
from . import _expand as X

EXPLANATION = (
    "Event-order analysis (a flow walk whose state is the set of variables currently holding "
    "preprocess_text output) at every _encode call site of the package; def-use of the N cookie from "
    "its single producer to its four consumers with a count of nowiki_quote applications; constant "
    "evaluation of the entity table with html.unescape; structure of the nowiki/comment patterns read "
    "from their regex syntax trees. Does not decide that no other consumer re-interprets protected text."
)
ASSUMPTIONS = [
    "html.unescape is the decoder meant by 'decoding them gives c back'",
    "re._parser's syntax tree reflects what re matches",
]
PARSER = "src/wikitextprocessor/parser.py"
COMMON = "src/wikitextprocessor/common.py"
LUAEXEC = "src/wikitextprocessor/luaexec.py"


class Protected(Flow):
    """state = frozenset of variable names currently holding preprocess_text output"""

    def __init__(self):
        self.sites = []

    def _is_pp(self, e):
        return isinstance(e, ast.Call) and isinstance(e.func, ast.Attribute) and e.func.attr == "preprocess_text"

    def transfer_expr(self, node, state):
        if node is None:
            return [state]
        for c in ast.walk(node):
            if isinstance(c, ast.Call) and isinstance(c.func, ast.Attribute) and c.func.attr == "_encode" and c.args:
                a = c.args[0]
                self.sites.append((c, isinstance(a, ast.Name) and a.id in state or self._is_pp(a)))
        return [state]

    def transfer(self, st, state):
        (s,) = self.transfer_expr(st, state)
        if isinstance(st, ast.Assign) and len(st.targets) == 1 and isinstance(st.targets[0], ast.Name):
            v = st.targets[0].id
            if self._is_pp(st.value):
                s = s | {v}
            else:
                s = s - {v}
        elif isinstance(st, ast.AugAssign) and isinstance(st.target, ast.Name):
            s = s - {st.target.id}
        return [s]

    def nested_def(self, node, state):
        return [state]


def _encode_strips_comments(ctx):
    """the statement of _encode that removes closed comments before the loop"""
    fn = ctx.fn("core.Wtp._encode")
    first_loop = min((n.lineno for n in fn.body if isinstance(n, ast.While)), default=10**9)
    for st in fn.body:
        if isinstance(st, ast.Assign) and st.lineno < first_loop and unparse(st.targets[0]) == "text" \
                and isinstance(st.value, ast.Call) and unparse(st.value.func) == "re.sub" and len(st.value.args) == 3:
            pat, repl, subj = st.value.args
            if isinstance(pat, ast.Constant) and isinstance(repl, ast.Constant) and repl.value == "" and unparse(subj) == "text":
                if _is_comment_pattern(pat.value, optional_newline=False):
                    return st
    return None


def _is_comment_pattern(pat: str, optional_newline: bool) -> bool:
    try:
        tree = sre_parse.parse(pat)
    except Exception:  # noqa: BLE001
        return False
    if not (tree.state.flags & re.DOTALL):
        return False
    items = list(tree)
    lits = []
    lazy_any = False
    opt_nl = False
    for op, av in items:
        if op is sre_c.LITERAL:
            lits.append(chr(av))
        elif op is sre_c.MIN_REPEAT:
            lo, hi, sub = av
            if lo == 0 and hi == sre_c.MAXREPEAT and len(sub) == 1 and sub[0][0] is sre_c.ANY:
                lazy_any = True
                lits.append("*")
            else:
                return False
        elif op is sre_c.MAX_REPEAT:
            lo, hi, sub = av
            if lo == 0 and hi == 1 and len(sub) == 1 and sub[0] == (sre_c.LITERAL, ord("\n")) and not lits:
                opt_nl = True
            else:
                return False
        else:
            return False
    return lazy_any and "".join(lits) == "<!--*-->" and (opt_nl or not optional_newline)


def rule_r1(ctx) -> RuleResult:
    rr = RuleResult("C15.R1", "text is protected by preprocess_text before every _encode (or _encode strips comments itself)", min_instances=4)
    strip = _encode_strips_comments(ctx)
    rr.instances["_encode_strips_comments_itself"] = strip is not None
    n_sites = 0
    for dotted, m, f in ctx.index.all_functions():
        if not any(isinstance(c, ast.Call) and isinstance(c.func, ast.Attribute) and c.func.attr == "_encode" for c in walk_no_nested(f)):
            continue
        ctx.touched(dotted, m.relpath)
        w = Protected()
        init = frozenset()
        w.run_function(f, [init])
        agg = {}
        for c, ok in w.sites:
            agg[c] = agg.get(c, True) and ok
        for c, ok in agg.items():
            n_sites += 1
            label = unparse(c)
            if ok:
                rr.ok(dotted, label, {"fn": dotted, "encode": label, "protected_by": "preprocess_text on every path"})
            elif dotted.startswith("core."):
                rr.bad(Finding("C15.R1", m.relpath, dotted, label,
                               "text reaches _encode without having passed through preprocess_text on some path: <nowiki> content "
                               "and comments are encoded as markup", c.lineno))
            elif strip is not None:
                rr.ok(dotted, label + " (comments only)", {"fn": dotted, "encode": label,
                                                            "protected_by": "_encode's own comment removal; nowiki is not protected here"})
                rr.informational.append({"site": dotted, "note": "encodes before <nowiki> is protected (outside C15's embedding contexts, DESIGN §4.3)"})
            else:
                rr.bad(Finding("C15.R1", m.relpath, dotted, label,
                               "this call site does not run preprocess_text and _encode no longer removes comments itself: a closed "
                               "comment contributes text and its `|`, `}}`, `]]` act as markup", c.lineno))
    rr.instances["encode_call_sites"] = n_sites
    return rr


def _quote_applications(e: ast.AST) -> int:
    return sum(1 for n in ast.walk(e) if isinstance(n, ast.Call) and unparse(n.func).split(".")[-1] == "nowiki_quote")


def rule_r2(ctx) -> RuleResult:
    rr = RuleResult("C15.R2", "N cookies: raw at the producer, passed through untouched, quoted exactly once by both final consumers", min_instances=6)
    # producer
    prod = ctx.fn("core.Wtp.preprocess_text._nowiki_sub_fn")
    saves = [n for n in walk_no_nested(prod) if isinstance(n, ast.Call) and unparse(n.func).endswith("._save_value")]
    if len(saves) != 1:
        raise AnalysisError("_nowiki_sub_fn: _save_value call vanished")
    s = saves[0]
    if not (isinstance(s.args[0], ast.Constant) and s.args[0].value == "N"):
        rr.bad(Finding("C15.R2", X.CORE, "core.Wtp.preprocess_text._nowiki_sub_fn", unparse(s), "nowiki body is not saved as kind N", s.lineno))
    content = s.args[1]
    # resolve names to their assignment
    exprs = [content]
    for n in ast.walk(content):
        if isinstance(n, ast.Name):
            v = X.resolve_name(prod.body, n.id)
            if v is not None:
                exprs.append(v)
    raw = any(unparse(e) == "m.group(1)" or "m.group(1)" in unparse(e) for e in exprs)
    transformed = [c for e in exprs for c in ast.walk(e) if isinstance(c, ast.Call) and unparse(c.func) not in ("m.group", "tuple")
                   and not unparse(c.func).endswith("._save_value")]
    if raw and not transformed:
        rr.ok("core.Wtp.preprocess_text._nowiki_sub_fn", "saves m.group(1) raw", {"producer": unparse(s)})
    else:
        rr.bad(Finding("C15.R2", X.CORE, "core.Wtp.preprocess_text._nowiki_sub_fn", unparse(s),
                       "the nowiki body is transformed ({}) before it is stored; consumers that quote it again produce "
                       "doubly-escaped text".format(", ".join(unparse(c) for c in transformed) or "not m.group(1)"), s.lineno))
    if isinstance(s.args[2], ast.Constant) and s.args[2].value is True:
        rr.ok("core.Wtp.preprocess_text._nowiki_sub_fn", "nowiki flag True")
    else:
        rr.bad(Finding("C15.R2", X.CORE, "core.Wtp.preprocess_text._nowiki_sub_fn", unparse(s), "N cookie is not saved with nowiki=True", s.lineno))
    # pass-through consumers
    for fname in (X.ARGS, X.RECURSE):
        fn = ctx.fn(fname)
        arms = X.kind_arms(X.main_loop(fn), ctx=ctx)
        if "N" not in arms:
            rr.bad(Finding("C15.R2", X.CORE, fname, "kind == 'N' arm", "no arm handles nowiki cookies", fn.lineno))
            continue
        arm = arms["N"]
        calls = [unparse(c.func) for st in arm for c in ast.walk(st) if isinstance(c, ast.Call)]
        appends = [c for st in arm for c in ast.walk(st) if isinstance(c, ast.Call) and unparse(c.func) == "parts.append"]
        if len(appends) == 1 and unparse(appends[0].args[0]) == "ch" and set(calls) <= {"parts.append"}:
            rr.ok(fname, "N arm: parts.append(ch)", {"consumer": fname, "arm": "parts.append(ch)"})
        else:
            rr.bad(Finding("C15.R2", X.CORE, fname, "N arm: " + "; ".join(unparse(st) for st in arm)[:80],
                           "the nowiki cookie is not passed through untouched (it is expanded, recursed into or replaced)", arm[0].lineno))
    # in expand_args the generic `if nowiki: parts.append(ch); continue` must precede the kind dispatch
    # final consumers
    mr_name, mr = X.cookie_replacer(ctx)
    arms = X.kind_arms(mr, ctx=ctx)
    if "N" in arms:
        rets = [n for st in arms["N"] for n in ast.walk(st) if isinstance(n, ast.Return) and n.value is not None]
        rets = [r2 for r in rets for r2 in X.follow_method_returns(ctx, r)]
        main = [r for r in rets if not isinstance(r.value, ast.Constant)]
        if len(main) == 1 and _quote_applications(main[0].value) == 1 and "args[0]" in unparse(main[0].value):
            rr.ok("core.Wtp._finalize_expand.magic_repl", unparse(main[0]), {"consumer": "magic_repl", "emits": unparse(main[0].value)})
        else:
            rr.bad(Finding("C15.R2", X.CORE, "core.Wtp._finalize_expand.magic_repl", "; ".join(unparse(r) for r in rets),
                           "expand() does not emit nowiki_quote(args[0]) exactly once for N cookies", arms["N"][0].lineno))
    else:
        rr.bad(Finding("C15.R2", X.CORE, "core.Wtp._finalize_expand.magic_repl", "kind == 'N' arm", "no arm handles nowiki cookies", mr.lineno))
    mf = ctx.fn("parser.magic_fn")
    arms = X.kind_arms(mf, ctx=ctx)
    if "N" in arms:
        arm = arms["N"]
        tcalls = [c for st in arm for c in ast.walk(st) if isinstance(c, ast.Call) and unparse(c.func) == "text_fn"]
        total = sum(_quote_applications(st) for st in arm)
        others = [unparse(c.func) for st in arm for c in ast.walk(st) if isinstance(c, ast.Call)
                  and unparse(c.func) not in ("text_fn", "nowiki_quote")]
        if len(tcalls) == 1 and total == 1 and not others and any("args[0]" in unparse(st) for st in arm):
            rr.ok("parser.magic_fn", "N arm: text_fn(ctx, nowiki_quote(args[0]))", {"consumer": "magic_fn"})
        else:
            rr.bad(Finding("C15.R2", PARSER, "parser.magic_fn", "N arm: " + "; ".join(unparse(st) for st in arm)[:90],
                           "parse() does not emit nowiki_quote(args[0]) exactly once as a single text token", arm[0].lineno))
    else:
        rr.bad(Finding("C15.R2", PARSER, "parser.magic_fn", "kind == 'N' arm", "no arm handles nowiki cookies", mf.lineno))
    return rr


def rule_r3(ctx) -> RuleResult:
    rr = RuleResult("C15.R3", "nowiki entity table decodes back to the original characters", min_instances=12)
    consts = ctx.index.consts("common")
    mp = consts.get("_nowiki_map")
    if not isinstance(mp, dict) or len(mp) < 10:
        raise AnalysisError("common._nowiki_map not foldable / too small")
    for k, v in mp.items():
        if html.unescape(v) == k and v != k:
            rr.ok("common._nowiki_map", "{!r} -> {!r}".format(k, v), {"char": k, "entity": v})
        else:
            rr.bad(Finding("C15.R3", COMMON, "common._nowiki_map", "{!r}: {!r}".format(k, v),
                           "html.unescape({!r}) is {!r}, not {!r}: decoding the expansion does not give the content back".format(v, html.unescape(v), k), 0))
    if len(set(mp.values())) != len(mp):
        rr.bad(Finding("C15.R3", COMMON, "common._nowiki_map", "duplicate entity", "two characters map to the same entity", 0))
    # markup characters that must be neutralised
    need = set("=<>*#:!|[]{}'\"_")
    missing = sorted(need - set(mp))
    if missing:
        rr.bad(Finding("C15.R3", COMMON, "common._nowiki_map", "missing keys " + "".join(missing),
                       "markup characters {} are no longer replaced inside <nowiki>".format(missing), 0))
    else:
        rr.ok("common._nowiki_map", "covers all wikitext markup characters")
    rx = consts.get("_nowiki_re")
    if rx is None:
        raise AnalysisError("common._nowiki_re not foldable")
    alts = set(rx.split("|")) if "\\|" not in rx else None
    # the regex is "|".join(re.escape(k)); compare as a set of single-character alternatives
    got = set()
    try:
        for op, av in sre_parse.parse(rx):
            if op is sre_c.BRANCH:
                for alt in av[1]:
                    got.add("".join(chr(x[1]) for x in alt if x[0] is sre_c.LITERAL))
            elif op is sre_c.IN:
                for x in av:
                    if x[0] is sre_c.LITERAL:
                        got.add(chr(x[1]))
            elif op is sre_c.LITERAL:
                got.add(chr(av))
    except Exception as e:  # noqa: BLE001
        raise AnalysisError("cannot parse _nowiki_re: {}".format(e))
    if got == set(mp):
        rr.ok("common._nowiki_re", "alternatives == keys of _nowiki_map")
    else:
        rr.bad(Finding("C15.R3", COMMON, "common._nowiki_re", "alternatives " + repr(sorted(got)),
                       "the matching regex and the table disagree: {}".format(sorted(got ^ set(mp))), 0))
    # nowiki_quote substitutes through the table
    nq = ctx.fn("common.nowiki_quote")
    cm = ctx.index.mod("common")
    subs = []
    for c in ast.walk(nq):
        if isinstance(c, ast.Call) and unparse(c.func) == "re.sub" and len(c.args) >= 3 and unparse(c.args[0]) == "_nowiki_re":
            subs.append(c.args[1])
        elif isinstance(c, ast.Call) and isinstance(c.func, ast.Attribute) and c.func.attr == "sub" and unparse(c.func.value) == "_nowiki_re" and c.args:
            subs.append(c.args[0])
    if not subs:
        raise AnalysisError("nowiki_quote: the substitution with _nowiki_re was not recognised")

    def maps_through_table(repl) -> bool:
        target = None
        if isinstance(repl, ast.Lambda):
            target = repl
        elif isinstance(repl, ast.Name):
            target = next((n for n in ast.walk(nq) if isinstance(n, ast.FunctionDef) and n.name == repl.id), None) \
                or next((f_ for f_ in cm.funcs.values() if f_.name == repl.id), None)   # (a moved function is indexed under its pinned name)
        if target is None:
            return False
        outs = [target.body] if isinstance(target, ast.Lambda) else [r.value for r in ast.walk(target) if isinstance(r, ast.Return) and r.value is not None]
        return bool(outs) and all(isinstance(o, ast.Subscript) and unparse(o.value) == "_nowiki_map" and isinstance(o.slice, ast.Call)
                                  and isinstance(o.slice.func, ast.Attribute) and o.slice.func.attr == "group"
                                  and [unparse(a) for a in o.slice.args] in (["0"], []) for o in outs)

    if all(maps_through_table(r) for r in subs):
        rr.ok("common.nowiki_quote", "_nowiki_re substitution maps every match through _nowiki_map[m.group(0)]")
    else:
        rr.bad(Finding("C15.R3", COMMON, "common.nowiki_quote", "body", "nowiki_quote no longer substitutes through _nowiki_map/_nowiki_re", nq.lineno))
    return rr


def rule_r4(ctx) -> RuleResult:
    rr = RuleResult("C15.R4", "preprocess_text: nowiki pairs, then <nowiki/>, then closed comments with the preceding newline", min_instances=5)
    fn = ctx.fn("core.Wtp.preprocess_text")
    # the chain of substitutions applied to the text, in the order in which they run: successive `text = re.sub(p, r, text)`
    # statements and/or nested calls `re.sub(p2, r2, re.sub(p1, r1, text))` (innermost first)
    class _S:
        def __init__(self, call, lineno):
            self.value, self.lineno = call, lineno

    def chain(e, lineno) -> list:
        if isinstance(e, ast.Call) and unparse(e.func) == "re.sub" and len(e.args) == 3 and isinstance(e.args[0], ast.Constant):
            return chain(e.args[2], lineno) + [_S(e, lineno)]
        return []

    subs = []
    guarded = []   # (literal, folds case, step): steps that run only `if <literal> in text[.lower()]` (a fast path)
    for st in fn.body:
        if isinstance(st, ast.Assign) and unparse(st.targets[0]) == "text":
            subs.extend(chain(st.value, st.lineno))
        elif isinstance(st, ast.Return) and st.value is not None:
            subs.extend(chain(st.value, st.lineno))
        elif isinstance(st, ast.If) and not st.orelse and isinstance(st.test, ast.Compare) and len(st.test.ops) == 1 \
                and isinstance(st.test.ops[0], ast.In) and isinstance(st.test.left, ast.Constant) and isinstance(st.test.left.value, str) \
                and unparse(st.test.comparators[0]) in ("text", "text.lower()", "text.casefold()") \
                and all(isinstance(b, ast.Assign) and unparse(b.targets[0]) == "text" and chain(b.value, b.lineno) for b in st.body):
            for b in st.body:
                steps = chain(b.value, b.lineno)
                subs.extend(steps)
                guarded.extend((st.test.left.value, unparse(st.test.comparators[0]) != "text", x) for x in steps)
    # a fast-path guard may skip a substitution only for texts the pattern cannot match: the literal must occur in every match,
    # under the pattern's own case rules
    for lit, folds, step in guarded:
        pat = step.value.args[0].value
        try:
            tree = sre_parse.parse(pat)
        except Exception as e:  # noqa: BLE001
            raise AnalysisError("preprocess_text: unparsable pattern {!r}: {}".format(pat, e))
        icase = bool(tree.state.flags & re.IGNORECASE)
        run = ""
        for op, av in tree:
            if op is sre_c.LITERAL:
                run += chr(av)
            elif op in (sre_c.MAX_REPEAT, sre_c.MIN_REPEAT) and av[0] == 0 and not run:
                continue
            else:
                break
        cased = lit.lower() != lit.upper()
        if icase and cased and not folds:
            rr.bad(Finding("C15.R4", X.CORE, "core.Wtp.preprocess_text", "if {!r} in text: re.sub({!r}, ...)".format(lit, pat),
                           "the substitution is case-insensitive but the guard in front of it is not: a text whose only tags are written "
                           "`{}` skips the step and its protected content is expanded and parsed as live markup".format(lit.upper()), step.lineno))
        elif (lit.lower() if icase else lit) in (run.lower() if icase else run) and (not folds or lit == lit.lower()):
            rr.ok("core.Wtp.preprocess_text", "guard {!r} occurs in every match of {!r}".format(lit, pat))
        else:
            raise AnalysisError("preprocess_text: cannot show that every match of {!r} contains the guard literal {!r} (inconclusive)".format(pat, lit))
    if not subs:
        raise AnalysisError("preprocess_text: no re.sub(<constant pattern>, ., text) step recognised")

    def produces_n_cookie(repl) -> bool:
        """the replacement callable saves the matched body as an N cookie: a nested function, a method of the context or a
        lambda whose body calls _save_value("N", ...)"""
        target = None
        if isinstance(repl, ast.Lambda):
            target = repl
        elif isinstance(repl, ast.Name):
            target = next((n for n in ast.walk(fn) if isinstance(n, ast.FunctionDef) and n.name == repl.id), None)
        elif isinstance(repl, ast.Attribute) and isinstance(repl.value, ast.Name) and repl.value.id == "self":
            for cand in ("core.Wtp." + repl.attr, "core.Wtp.preprocess_text." + repl.attr):
                if ctx.index.has_func(cand):
                    target = ctx.index.func(cand)
                    break
        if target is None:
            return False
        return any(isinstance(c, ast.Call) and unparse(c.func).endswith("._save_value") and c.args and isinstance(c.args[0], ast.Constant)
                   and c.args[0].value == "N" for c in ast.walk(target))

    kinds = []
    for st in subs:
        pat = st.value.args[0].value
        repl = st.value.args[1]
        try:
            tree = sre_parse.parse(pat)
        except Exception as e:  # noqa: BLE001
            raise AnalysisError("preprocess_text: unparsable pattern {!r}: {}".format(pat, e))
        fl = tree.state.flags
        low = pat.lower()
        if "nowiki" in low and "</nowiki" in low:
            lazy = any(op is sre_c.SUBPATTERN and any(o2 is sre_c.MIN_REPEAT for o2, _ in av[3]) for op, av in tree)
            ok = bool(fl & re.DOTALL) and bool(fl & re.IGNORECASE) and lazy and produces_n_cookie(repl)
            kinds.append("pair")
            (rr.ok if ok else lambda *a, **k: None)("core.Wtp.preprocess_text", "nowiki pair pattern lazy/DOTALL/IGNORECASE -> _nowiki_sub_fn")
            if not ok:
                rr.bad(Finding("C15.R4", X.CORE, "core.Wtp.preprocess_text", pat,
                               "the <nowiki>...</nowiki> pattern must be lazy, DOTALL, case-insensitive and replaced by the N-cookie producer", st.lineno))
        elif "nowiki" in low:
            kinds.append("selfclosing")
            ok = bool(fl & re.IGNORECASE) and unparse(repl) == "MAGIC_NOWIKI_CHAR"
            if ok:
                rr.ok("core.Wtp.preprocess_text", "<nowiki/> -> MAGIC_NOWIKI_CHAR")
            else:
                rr.bad(Finding("C15.R4", X.CORE, "core.Wtp.preprocess_text", pat, "<nowiki/> handling changed", st.lineno))
        elif "<!--" in pat:
            kinds.append("comment")
            ok = _is_comment_pattern(pat, optional_newline=True) and isinstance(repl, ast.Constant) and repl.value == ""
            if ok:
                rr.ok("core.Wtp.preprocess_text", "comment pattern: optional newline + lazy DOTALL <!--...--> -> ''", {"pattern": pat})
            else:
                rr.bad(Finding("C15.R4", X.CORE, "core.Wtp.preprocess_text", pat,
                               "closed comments must be removed together with the line break directly before them by a lazy DOTALL pattern", st.lineno))
        else:
            kinds.append("other")
            rr.bad(Finding("C15.R4", X.CORE, "core.Wtp.preprocess_text", pat, "unexpected substitution in preprocess_text", st.lineno))
    if kinds[:3] == ["pair", "selfclosing", "comment"] and len(kinds) == 3:
        rr.ok("core.Wtp.preprocess_text", "order pair -> selfclosing -> comment")
    else:
        rr.bad(Finding("C15.R4", X.CORE, "core.Wtp.preprocess_text", "order " + ",".join(kinds),
                       "nowiki bodies must be saved before comments are removed (a comment inside <nowiki> is content) and before <nowiki/>", fn.lineno))
    rets = [n for n in fn.body if isinstance(n, ast.Return)]
    if rets and (unparse(rets[-1].value) == "text" or chain(rets[-1].value, 0)):
        rr.ok("core.Wtp.preprocess_text", "returns text")
    return rr


def rule_r5(ctx) -> RuleResult:
    """Protected text travels as a cookie character whose meaning is its index in the page's
    cookie table; strings holding such characters are handed from expand() to parse()/
    to_html()/Lua and back within a page.  The index keeps its meaning only if the table is
    append-only for the whole page: (re)assigned in __init__/start_page only, otherwise
    `.cookies.append(...)`, `rev_ht[...] = ...` and reads."""
    rr = RuleResult("C15.R5", "the cookie table is append-only between start_page calls", min_instances=6)
    allowed_assign = {"core.Wtp.__init__", "core.Wtp.start_page"}
    names = ("cookies", "rev_ht")

    def is_tbl(e):
        return isinstance(e, ast.Attribute) and e.attr in names and isinstance(e.value, ast.Name) and e.value.id in ("self", "ctx", "wtp")

    for dotted, m, f in ctx.index.all_functions():
        for n in walk_no_nested(f):
            tgts = []
            if isinstance(n, ast.Assign):
                tgts = n.targets
            elif isinstance(n, (ast.AugAssign, ast.AnnAssign)):
                tgts = [n.target] if getattr(n, "value", None) is not None else []
            elif isinstance(n, ast.Delete):
                tgts = n.targets
            for t in tgts:
                for tt in (t.elts if isinstance(t, (ast.Tuple, ast.List)) else [t]):
                    if is_tbl(tt):
                        if dotted in allowed_assign and not isinstance(n, ast.Delete):
                            rr.ok(dotted, unparse(n)[:60], {"fn": dotted, "stmt": unparse(n)[:60]})
                        else:
                            rr.bad(Finding("C15.R5", m.relpath, dotted, unparse(n)[:80],
                                           "the cookie table is replaced in the middle of a page: cookie characters in text produced earlier "
                                           "(nowiki text, saved templates/links) now index other entries or none, so protected text is "
                                           "replaced by unrelated text or dropped", n.lineno))
                    elif isinstance(tt, ast.Subscript) and is_tbl(tt.value):
                        if tt.value.attr == "rev_ht" and isinstance(n, ast.Assign):
                            rr.ok(dotted, unparse(n)[:60], {"fn": dotted, "stmt": unparse(n)[:60]})
                        else:
                            rr.bad(Finding("C15.R5", m.relpath, dotted, unparse(n)[:80],
                                           "an existing cookie table entry is overwritten or deleted", n.lineno))
            if isinstance(n, ast.Call) and isinstance(n.func, ast.Attribute) and is_tbl(n.func.value):
                meth = n.func.attr
                if (n.func.value.attr == "cookies" and meth in ("append", "index", "count", "copy")) or \
                        (n.func.value.attr == "rev_ht" and meth in ("get", "keys", "values", "items", "copy")):
                    rr.ok(dotted, unparse(n)[:60], {"fn": dotted, "stmt": unparse(n)[:60]})
                else:
                    rr.bad(Finding("C15.R5", m.relpath, dotted, unparse(n)[:80],
                                   "the cookie table is mutated with .{}(): entries other than the newest are moved or removed".format(meth), n.lineno))
    return rr


def rule_r6(ctx) -> RuleResult:
    """Protection allocates a cookie in the page's table; a memoised function on that path would hand
    out cookie characters of an earlier page (shared with C09.R10)."""
    from ..core.callgraph import CallGraph
    from . import c09

    r = c09.rule_r10(ctx, CallGraph(ctx.index))
    rr = RuleResult("C15.R6", "no memoised function allocates cookies (shared with C09.R10)", min_instances=1)
    for f in r.findings:
        rr.bad(Finding("C15.R6", f.file, f.function, f.construct,
                       f.message + "; protected <nowiki> text is replaced by another cookie's content or leaks as a private-use character", f.line))
    rr.cases = set(r.cases)
    rr.obligations = r.obligations
    rr.discharged = r.discharged
    rr.samples = list(r.samples)
    return rr


def rule_r7(ctx) -> RuleResult:
    """`_finalize_expand` turns cookie characters back into text (N cookies into entity-quoted
    text).  It is a *final* consumer: called on the finished result of expand() and by the parser's
    string merge, never from inside the recursive expansion (where the text it produces would be
    substituted into template bodies and re-interpreted, trimmed or case-mapped)."""
    rr = RuleResult("C15.R7", "cookies are decoded only by the final consumers, never inside the recursive expansion", min_instances=2)
    allowed = {"core.Wtp.expand", "parser._parser_merge_str_children", "core.Wtp._finalize_expand", X.cookie_replacer(ctx)[0]}
    n_sites = 0
    for dotted, m, f in ctx.index.all_functions():
        for c in walk_no_nested(f):
            if isinstance(c, ast.Call) and isinstance(c.func, ast.Attribute) and c.func.attr == "_finalize_expand":
                n_sites += 1
                if dotted in allowed:
                    rr.ok(dotted, unparse(c)[:60], {"fn": dotted})
                else:
                    rr.bad(Finding("C15.R7", m.relpath, dotted, unparse(c)[:80],
                                   "cookies are decoded in the middle of the expansion: <nowiki> content in this value stops being an opaque cookie "
                                   "and is trimmed / re-interpreted by whatever the text is substituted into", c.lineno))
    if n_sites == 0:
        raise AnalysisError("no call of _finalize_expand found")
    return rr


def rule_r9(ctx) -> RuleResult:
    """parse() yields the protected text as plain text wherever the <nowiki> stands: when the parser
    meets an N cookie it hands the quoted text to text_fn with beginning-of-line processing already
    switched off for the cookie (`ctx.beginning_of_line = False` dominates the emission) -- otherwise
    content that starts with a blank, `*`, `#`, `:` ... at the start of a line opens a preformatted
    block or a list."""
    rr = RuleResult("C15.R9", "the parser emits nowiki text with beginning-of-line processing off", min_instances=1)
    fn = ctx.fn("parser.magic_fn")

    class W(Flow):
        def __init__(self):
            self.sites = []

        def transfer(self, st, state):
            if isinstance(st, ast.Assign) and any(unparse(t) == "ctx.beginning_of_line" for t in st.targets):
                state = isinstance(st.value, ast.Constant) and st.value.value is False
            return self.transfer_expr(st, state)

        def transfer_expr(self, node, state):
            if node is not None:
                for c in ast.walk(node):
                    if isinstance(c, ast.Call) and any(isinstance(x, ast.Call) and unparse(x.func) == "nowiki_quote" for x in ast.walk(c)) \
                            and unparse(c.func) in ("text_fn", "process_text"):
                        self.sites.append((c, state))
                    elif isinstance(c, ast.Call) and unparse(c.func) == "text_fn" and c.args and len(c.args) > 1 and isinstance(c.args[1], ast.Name) \
                            and c.args[1].id in quoted:
                        self.sites.append((c, state))
            return [state]

    quoted = {n.targets[0].id for n in walk_no_nested(fn) if isinstance(n, ast.Assign) and len(n.targets) == 1 and isinstance(n.targets[0], ast.Name)
              and isinstance(n.value, ast.Call) and unparse(n.value.func) == "nowiki_quote"}
    w = W()
    w.run_function(fn, [False])
    if not w.sites:
        raise AnalysisError("magic_fn: emission of the quoted nowiki text not found")
    by = {}
    for c, st_ in w.sites:
        by.setdefault(c, []).append(st_)
    for c, sts in by.items():
        if all(sts):
            rr.ok("parser.magic_fn", unparse(c)[:50] + " after beginning_of_line = False", {"site": unparse(c)[:50]})
        else:
            rr.bad(Finding("C15.R9", "src/wikitextprocessor/parser.py", "parser.magic_fn", unparse(c)[:60],
                           "the protected text is handed to text_fn while beginning-of-line processing is still on: `<nowiki> x</nowiki>` at the "
                           "start of a line becomes a PREFORMATTED block (and pulls the rest of the line into it)", c.lineno))
    return rr


def rule_r8(ctx) -> RuleResult:
    from ..core.report import shared
    from . import c10

    return shared(c10.rule_r10(ctx), "C15.R8", "no cookie-bearing text is stored into an object owned by the page-lookup memo (shared with C10.R10)",
                  "the stored text carries cookie characters of the page on which it was produced", min_instances=5)


def run(ctx) -> list:
    return [rule_r1(ctx), rule_r2(ctx), rule_r3(ctx), rule_r4(ctx), rule_r5(ctx), rule_r6(ctx), rule_r7(ctx), rule_r8(ctx), rule_r9(ctx)]
