"""C05 -- expand() terminates and reports failures in-band.

Termination in general is not decided.  Seven classes of partial operations /
guards are decided over the registered parser functions and the call-graph
closure of Wtp.expand:

R1  argument index guard: every args[<const>] is dominated by a length fact.
R2  numeric conversion guard: int()/float() of text is under a ValueError
    handler, guarded by isdecimal(), or fed by a digits-only regex group;
    isdigit() is not a sound guard ("²".isdigit() is True, int("²") raises).
R3  #expr: every application of an operator-table entry and the final rendering
    happen under a handler covering the exceptions those entries can raise.
R4  data-table subscripts: constant keys exist in every shipped data file;
    computed keys are guarded by `in`, .get or a KeyError handler.
R5  every table read on the expansion path is created by the constructor (or
    the reader handles its absence).
R6  recursion guards: the depth test (literal bound <= 200) dominates every
    recursive call of the template branch and yields an error element + error
    record; the loop detector runs after the push and before the body.
R7  input-sized work is clamped: an integer taken from an argument does not
    reach range() or a string repetition without min()/an exiting bound test.
"""

from __future__ import annotations

import ast
import re

import re._parser as sre_parse
import re._constants as sre_c

from ..core.callgraph import CallGraph
from ..core.flow import Flow
from ..core.guards import GuardWalker, caught_by
from ..core.index import ExtRef, FuncRef, LambdaRef, unparse, walk_no_nested
from ..core.report import AnalysisError, Finding, RuleResult
from ..core.sqlfacts import SqlFacts
from . import _expand as X

EXPLANATION = (
    "May-raise analysis by guard facts: a walker carries the facts established by dominating tests "
    "(length bounds, isdecimal, `in`, enclosing try handlers) to every expression of the 94 registered "
    "parser functions and of the expansion closure, and checks enumerated classes of partial operations "
    "(constant argument indexes, int()/float() of text, #expr operator applications, data-table "
    "subscripts, SQL on tables that may not exist) against them; a flow walk proves the recursion "
    "guards dominate the recursive calls; an intra-procedural taint finds input-sized loops and "
    "repetitions. Exception-freedom beyond these classes and termination in general are not decided."
)
ASSUMPTIONS = [
    "frozen exception table for math/builtin callables used by #expr (math.log: ValueError, math.exp/pow: OverflowError, ...)",
    "functions whose only failure mode is network I/O (#property, #statements, wikidata.*) are outside the property's quantifier",
    "CPython's int-string limit is 4300 digits (sys.int_max_str_digits default); float() has no such limit",
    "parser functions are reached with args == () for `{{#name}}` (read off expand_recurse)",
]
PFN = "src/wikitextprocessor/parserfns.py"
NETWORK_ONLY = {"parserfns.property_fn", "parserfns.statements_fn"}

# exceptions of external callables that can appear in the #expr operator tables
EXT_RAISES = {
    "math.log": {"ValueError"}, "math.exp": {"OverflowError"}, "math.pow": {"ValueError", "OverflowError"},
    "math.sqrt": {"ValueError"}, "math.acos": {"ValueError"}, "math.asin": {"ValueError"}, "math.atan": set(),
    "math.sin": {"ValueError"}, "math.cos": {"ValueError"}, "math.tan": {"ValueError"},
    "math.ceil": {"OverflowError", "ValueError"}, "math.floor": {"OverflowError", "ValueError"},
    "math.trunc": {"OverflowError", "ValueError"}, "abs": set(), "round": {"TypeError", "OverflowError", "ValueError"},
    "int": {"OverflowError", "ValueError"}, "float": {"OverflowError"}, "str": {"ValueError"},
}


def _scope(ctx, cg: CallGraph) -> dict:
    """dotted -> FunctionDef for registered functions + the closure of expand"""
    out = {}
    names = set(cg.registered_parser_functions) | {"parserfns.call_parser_function"}
    names |= {d for d in cg.closure(["core.Wtp.expand"]) if d.split(".")[0] in ("core", "parserfns", "luaexec", "common", "interwiki")}
    base_names = set(names)
    if ctx.thorough:
        # whole-package sweep: every function of every module except the network-only ones;
        # sites outside the expansion closure are reported as informational (outside the property's scope)
        names |= {d for d, m, f in ctx.index.all_functions() if d.split(".")[0] not in ("wikidata",)}
    ctx._c05_in_scope = lambda d: any(d == b or d.startswith(b + ".") or b.startswith(d + ".") for b in base_names)
    tops = set()
    for d in names:
        if d in NETWORK_ONLY or d.startswith("wikidata.") or not ctx.index.has_func(d):
            continue
        mn, q = d.split(".", 1)
        parts = q.split(".")
        # outermost enclosing *function* (methods of a class are their own top)
        top = None
        for i in range(1, len(parts) + 1):
            cand = ".".join(parts[:i])
            if cand in ctx.index.modules[mn].funcs:
                top = mn + "." + cand
                break
        tops.add(top or d)
    for d in sorted(tops):
        out[d] = ctx.index.func(d)
    return out


def _relfile(ctx, dotted):
    return ctx.index.mod(dotted.split(".")[0]).relpath


# ---------------------------------------------------------------- R1
def rule_r1(ctx, cg) -> RuleResult:
    rr = RuleResult("C05.R1", "constant argument indexes are dominated by a length guard", min_instances=60)
    regs = sorted(cg.registered_parser_functions | {"parserfns.timel_fn"})
    for dotted in regs:
        if dotted in NETWORK_ONLY:
            continue
        fn = ctx.fn(dotted)
        if len(fn.args.args) < 3:
            continue
        argname = fn.args.args[2].arg

        def visit(node, facts, handlers, dotted=dotted, argname=argname):
            if isinstance(node, ast.Subscript) and isinstance(node.value, ast.Name) and node.value.id == argname \
                    and isinstance(node.ctx, ast.Load) and isinstance(node.slice, ast.Constant) and isinstance(node.slice.value, int):
                c = node.slice.value
                need = c + 1 if c >= 0 else -c
                have = max([f[2] for f in facts if f[0] == "minlen" and f[1] == argname] + [0])
                label = "{}[{}]".format(argname, c)
                if have >= need or caught_by("IndexError", handlers):
                    rr.ok(dotted, "{} (len >= {})@{}".format(label, have, node.lineno), {"fn": dotted, "index": label, "guard_len": have})
                else:
                    rr.bad(Finding("C05.R1", _relfile(ctx, dotted), dotted, label,
                                   "indexed without a dominating length guard; `{{{{{}}}}}` without arguments reaches this function with "
                                   "args == () and raises IndexError".format("name"), node.lineno))

        GuardWalker(visit).function(fn)
    return rr


# ---------------------------------------------------------------- R2
def _digit_group(pattern: str, group: int) -> bool:
    try:
        tree = sre_parse.parse(pattern)
    except Exception:  # noqa: BLE001
        return False

    def only_digits(items) -> bool:
        for op, av in items:
            if op in (sre_c.MAX_REPEAT, sre_c.MIN_REPEAT):
                if not only_digits(av[2]):
                    return False
            elif op is sre_c.IN:
                for x in av:
                    if x == (sre_c.CATEGORY, sre_c.CATEGORY_DIGIT):
                        continue
                    if x[0] is sre_c.RANGE and chr(x[1][0]) == "0" and chr(x[1][1]) == "9":
                        continue
                    return False
            elif op is sre_c.LITERAL:
                if not chr(av).isdecimal():
                    return False
            else:
                return False
        return True

    def find(items):
        for op, av in items:
            if op is sre_c.SUBPATTERN:
                if av[0] == group:
                    return av[3]
                r = find(av[3])
                if r is not None:
                    return r
            elif op in (sre_c.MAX_REPEAT, sre_c.MIN_REPEAT):
                r = find(av[2])
                if r is not None:
                    return r
            elif op is sre_c.BRANCH:
                for alt in av[1]:
                    r = find(alt)
                    if r is not None:
                        return r
        return None

    g = find(tree)
    return g is not None and len(g) > 0 and only_digits(g)


def _callback_pattern(ctx, dotted: str):
    """pattern of the re.sub(...) call in the parent function that uses this nested function as callback"""
    mn, q = dotted.split(".", 1)
    if "." not in q:
        return None
    parent_q, name = q.rsplit(".", 1)
    parent = ctx.index.func(mn + "." + parent_q)
    for n in walk_no_nested(parent):
        if isinstance(n, ast.Call) and unparse(n.func) in ("re.sub", "re.subn") and len(n.args) >= 2 \
                and isinstance(n.args[1], ast.Name) and n.args[1].id == name:
            try:
                return ctx.index.fold(mn, n.args[0])
            except Exception:  # noqa: BLE001
                return None
    return None


def rule_r2(ctx, cg, scope) -> RuleResult:
    rr = RuleResult("C05.R2", "int()/float() of text is soundly guarded", min_instances=12)
    for dotted, fn in scope.items():
        if dotted.count(".") > 1 and ".".join(dotted.split(".")[:-1]) in scope and not dotted.startswith("core.Wtp."):
            pass

        gw = GuardWalker(None)

        def visit(node, facts, handlers, dotted=dotted, gw=gw):
            if not (isinstance(node, ast.Call) and isinstance(node.func, ast.Name) and node.func.id in ("int", "float") and len(node.args) == 1):
                return
            dotted = gw.owner(dotted)
            e = node.args[0]
            et = unparse(e)
            label = "{}({})".format(node.func.id, et)
            ctx.touched(dotted, _relfile(ctx, dotted))
            if isinstance(e, (ast.Compare, ast.BoolOp)) or (isinstance(e, ast.UnaryOp) and isinstance(e.op, ast.Not)):
                rr.ok(dotted, label + " of a boolean")
                return
            if isinstance(e, ast.Call) and unparse(e.func).endswith((".timestamp", "len")):
                rr.ok(dotted, label + " of a number")
                return
            if caught_by("ValueError", handlers):
                rr.ok(dotted, label + " under ValueError handler", {"fn": dotted, "site": label, "guard": "try/except ValueError"})
                return
            if ("isdecimal", et) in facts:
                from ..core.guards import bounded_digits
                if node.func.id == "float" or bounded_digits(facts, et):
                    rr.ok(dotted, label + " after isdecimal()", {"fn": dotted, "site": label, "guard": et + ".isdecimal()"})
                else:
                    f_ = Finding("C05.R2", _relfile(ctx, dotted), dotted, "int(·) after isdecimal() without a length bound",
                                 "isdecimal() does not imply that int() succeeds: CPython refuses to convert a decimal string of more than 4300 "
                                 "digits (sys.int_max_str_digits) and raises ValueError, which no enclosing handler catches here", node.lineno)
                    if ctx._c05_in_scope(dotted):
                        rr.bad(f_)
                    else:
                        rr.informational.append({"outside_expansion_closure": dotted, "site": label, "line": node.lineno})
                return
            if isinstance(e, ast.Call) and unparse(e.func).endswith(".group") and e.args and isinstance(e.args[0], ast.Constant):
                pat = _callback_pattern(ctx, dotted)
                if pat is not None and _digit_group(str(pat), e.args[0].value):
                    rr.ok(dotted, label + " of a digits-only regex group", {"fn": dotted, "site": label, "guard": "group of " + str(pat)})
                    return
            if ("isdigit", et) in facts or ("isnumeric", et) in facts:
                rr.bad(Finding("C05.R2", _relfile(ctx, dotted), dotted, label,
                               "guarded only by {}.isdigit(): isdigit() accepts characters such as '²' or '①' for which {}() raises "
                               "ValueError; use isdecimal() or a handler".format(et, node.func.id), node.lineno))
                return
            if not ctx._c05_in_scope(dotted):
                rr.informational.append({"outside_expansion_closure": dotted, "site": label, "line": node.lineno})
                return
            rr.bad(Finding("C05.R2", _relfile(ctx, dotted), dotted, label,
                           "conversion of text without a guard that implies success and outside any ValueError handler", node.lineno))

        gw.visit = visit
        gw.function(fn)
    return rr


# ---------------------------------------------------------------- R3
def _lambda_raises(lam: ast.Lambda) -> set:
    out = set()
    params = [a.arg for a in lam.args.args]

    def rec(e, safe_div_by: set):
        if isinstance(e, ast.IfExp):
            # `C if y == 0 else x / y`: in the else arm, division by exactly `y` is safe
            sd = set(safe_div_by)
            t = e.test
            if isinstance(t, ast.Compare) and len(t.ops) == 1 and isinstance(t.ops[0], ast.Eq) \
                    and isinstance(t.left, ast.Name) and isinstance(t.comparators[0], ast.Constant) and t.comparators[0].value == 0:
                rec(e.test, safe_div_by)
                rec(e.body, safe_div_by)
                rec(e.orelse, sd | {t.left.id})
                return
            if isinstance(t, ast.Compare) and len(t.ops) == 1 and isinstance(t.ops[0], ast.Lt) and isinstance(t.left, ast.Name) \
                    and isinstance(t.comparators[0], ast.Constant) and t.comparators[0].value == 0:
                # "sqrt of negative value" if x < 0 else math.sqrt(x)
                rec(e.body, safe_div_by)
                for c in ast.walk(e.orelse):
                    if isinstance(c, ast.Call) and unparse(c.func) == "math.sqrt" and unparse(c.args[0]) == t.left.id:
                        continue
                    if isinstance(c, ast.Call):
                        out.update(EXT_RAISES.get(unparse(c.func), {"Exception"}))
                return
        if isinstance(e, ast.BinOp):
            if isinstance(e.op, (ast.Div, ast.Mod, ast.FloorDiv)):
                if not (isinstance(e.right, ast.Name) and e.right.id in safe_div_by) \
                        and not (isinstance(e.right, ast.Constant) and e.right.value not in (0, 0.0)):
                    out.add("ZeroDivisionError")
                if isinstance(e.op, ast.Div):
                    out.add("OverflowError")  # int / int too large for a float
            elif isinstance(e.op, ast.Pow):
                out.update({"OverflowError", "ZeroDivisionError"})
        if isinstance(e, ast.Call):
            out.update(EXT_RAISES.get(unparse(e.func), {"Exception"}))
        for ch in ast.iter_child_nodes(e):
            if isinstance(ch, ast.expr):
                rec(ch, safe_div_by)

    rec(lam.body, set())
    return out


def _funcref_raises(ctx, ref: FuncRef) -> set:
    fn = ctx.index.func(ref.mod + "." + ref.name)
    out = set()
    for n in walk_no_nested(fn):
        if isinstance(n, ast.Call):
            out.update(EXT_RAISES.get(unparse(n.func), set()))
        if isinstance(n, ast.BinOp) and isinstance(n.op, (ast.Div, ast.Mod, ast.FloorDiv)):
            if not (isinstance(n.right, ast.Constant) and n.right.value not in (0, 0.0)):
                out.add("ZeroDivisionError")
        if isinstance(n, ast.BinOp) and isinstance(n.op, ast.Pow):
            out.update({"OverflowError", "ZeroDivisionError"})
    return out


def rule_r3(ctx) -> RuleResult:
    rr = RuleResult("C05.R3", "#expr operator applications and the final rendering are under a sufficient handler", min_instances=5)
    consts = ctx.index.consts("parserfns")
    tables = {k: v for k, v in consts.items() if isinstance(v, dict) and (k.endswith("_fns")) and v}
    if len(tables) < 8:
        raise AnalysisError("only {} #expr operator tables folded (10 confirmed by hand)".format(len(tables)))
    union = set()
    per = {}
    for tname, tb in tables.items():
        for op, v in tb.items():
            if isinstance(v, ExtRef):
                r = set(EXT_RAISES.get(v.dotted, {"Exception"}))
            elif isinstance(v, LambdaRef):
                r = _lambda_raises(v.node)
            elif isinstance(v, FuncRef):
                r = _funcref_raises(ctx, v)
            else:
                r = {"Exception"}
            if r:
                per["{}[{!r}]".format(tname, op)] = sorted(r)
            union |= r
    rr.instances["raising_table_entries"] = per
    rr.instances["union"] = sorted(union)
    fn = ctx.fn("parserfns.expr_fn")
    nested = {q.split(".")[-1]: f for q, f in ctx.index.mod("parserfns").funcs.items() if q.startswith("expr_fn.") and q.count(".") == 1}
    # application sites: calls whose callee is a local name bound from <table>.get(...) / parameter `fns`
    sites = []  # (closure name or None, call node, handlers)
    top_calls = []  # (callee closure, handlers) at expr_fn top level

    def collect(owner, f):
        def visit(node, facts, handlers):
            if isinstance(node, ast.Call) and isinstance(node.func, ast.Name):
                nm = node.func.id
                if nm == "fn":
                    sites.append((owner, node, handlers))
                elif nm in nested:
                    top_calls.append((owner, nm, handlers, node))
                elif owner is None and nm in ("int", "str") or unparse(node.func) in ("math.floor", "math.ceil", "math.trunc"):
                    if any(isinstance(a, ast.Name) and a.id == "ret" for a in node.args):
                        sites.append((owner, node, handlers))
            elif isinstance(node, ast.Call) and unparse(node.func) in ("math.floor",) and owner is None:
                sites.append((owner, node, handlers))

        gw = GuardWalker(visit)
        if owner is None:
            # top level of expr_fn without descending into the nested defs
            facts = frozenset()
            for st in f.body:
                if isinstance(st, (ast.FunctionDef, ast.AsyncFunctionDef)):
                    continue
                facts = gw.stmt(st, facts, ())
        else:
            gw.block(f.body, frozenset(), ())

    collect(None, fn)
    for nm, f in nested.items():
        collect(nm, f)
    need = sorted(union)

    def covers(handlers) -> bool:
        return all(caught_by(x, handlers) for x in need)

    # closure protection fixpoint: protected iff every call site is at top level under a
    # covering handler, or inside a protected closure
    protected = set(nested)
    changed = True
    called = {nm: [] for nm in nested}
    for owner, nm, handlers, node in top_calls:
        called[nm].append((owner, handlers))
    # closures passed as arguments (parser=parse_unary) count as calls from the receiving closure
    for nm, f in nested.items():
        for n in ast.walk(f):
            if isinstance(n, ast.Call):
                for a in n.args:
                    if isinstance(a, ast.Name) and a.id in nested:
                        called[a.id].append((nm, ()))
    while changed:
        changed = False
        for nm in list(protected):
            cs = called.get(nm, [])
            ok = bool(cs) and all((owner is None and covers(h)) or (owner is not None and (owner in protected or covers(h))) for owner, h in cs)
            if not ok:
                protected.discard(nm)
                changed = True
    if not sites:
        raise AnalysisError("expr_fn: no operator application sites found")
    for owner, node, handlers in sites:
        label = "{} in {}".format(unparse(node), "expr_fn." + owner if owner else "expr_fn")
        okk = covers(handlers) or (owner is not None and owner in protected)
        if okk:
            rr.ok("parserfns.expr_fn", label, {"site": label, "covered": need})
        else:
            missing = [x for x in need if not caught_by(x, handlers)]
            rr.bad(Finding("C05.R3", PFN, "parserfns.expr_fn" + ("." + owner if owner else ""), unparse(node),
                           "this application can raise {} (e.g. `ln 0`, `exp 1000`, `2 round 1.5`, `0 ^ -1`, `10 ^ 400`) and no enclosing "
                           "handler turns it into the in-band expression error".format(", ".join(missing)), node.lineno,
                           {"raising_entries": per}))
    return rr


# ---------------------------------------------------------------- R4
DATA_TABLES = {"NAMESPACE_DATA", "LOCALIZATION_DATA", "LOCAL_NS_NAME_BY_ID", "NS_ID_BY_LOCAL_NAME"}
R4_EXCLUDED = {
    ("core.Wtp.get_page", "LOCAL_NS_NAME_BY_ID"): "keyed by an integer id that callers take from the same table",
}


def rule_r4(ctx, cg, scope) -> RuleResult:
    rr = RuleResult("C05.R4", "data-table subscripts cannot raise KeyError", min_instances=15)
    data = ctx.data
    for dotted, fn in scope.items():
        gw = GuardWalker(None)

        def visit(node, facts, handlers, dotted=dotted, gw=gw):
            if not (isinstance(node, ast.Subscript) and isinstance(node.ctx, ast.Load)):
                return
            dotted = gw.owner(dotted)
            base = node.value
            tbl = None
            if isinstance(base, ast.Attribute) and base.attr in DATA_TABLES:
                tbl = base.attr
            elif isinstance(base, ast.Name) and base.id in ("interwiki_map",):
                tbl = base.id
            if tbl is None:
                return
            ctx.touched(dotted, _relfile(ctx, dotted))
            k = node.slice
            label = "{}[{}]".format(unparse(base), unparse(k))
            if (dotted, tbl) in R4_EXCLUDED:
                rr.informational.append({"site": label, "fn": dotted, "excluded": R4_EXCLUDED[(dotted, tbl)]})
                return
            if isinstance(k, ast.Constant):
                if tbl == "NAMESPACE_DATA":
                    miss = data.langs_missing_namespace_key(k.value)
                    if miss:
                        rr.bad(Finding("C05.R4", _relfile(ctx, dotted), dotted, label,
                                       "key {!r} is missing from namespaces.json of {} language(s) (e.g. {})".format(k.value, len(miss), miss[:3]), node.lineno))
                    else:
                        rr.ok(dotted, label + " present in all {} namespaces.json".format(len(data.namespaces)),
                              {"fn": dotted, "site": label, "files": len(data.namespaces)})
                elif tbl == "LOCALIZATION_DATA":
                    miss = data.langs_missing_localization_key(k.value)
                    if miss or k.value not in ("decimal_point", "grouping_separator", "grouping_method"):
                        rr.bad(Finding("C05.R4", _relfile(ctx, dotted), dotted, label, "key missing from {} localization.json".format(len(miss)), node.lineno))
                    else:
                        rr.ok(dotted, label + " present in all {} localization.json".format(len(data.localization)))
                else:
                    rr.ok(dotted, label)
                return
            kt, bt = unparse(k), unparse(base)
            if ("in", kt, bt) in facts or caught_by("KeyError", handlers):
                rr.ok(dotted, label + " guarded", {"fn": dotted, "site": label, "guard": "`in` test / handler"})
            else:
                weaker = [f for f in facts if f[0] == "in" and f[2] == bt]
                rr.bad(Finding("C05.R4", _relfile(ctx, dotted), dotted, label,
                               "computed key is not guarded by `{} in {}`{}; a page title such as `Talk:Foo` makes it raise KeyError".format(
                                   kt, bt, " (only `{} in ...` was tested)".format(weaker[0][1]) if weaker else ""), node.lineno))

        gw.visit = visit
        gw.function(fn)
    # entries carry all fields that are subscripted with constants
    for field in ("id", "name", "aliases"):
        miss = data.langs_missing_entry_field(field)
        if miss:
            rr.bad(Finding("C05.R4", "src/wikitextprocessor/data", "namespaces.json", "field " + field, "missing in {}".format(miss[:5]), 0))
        else:
            rr.ok("namespaces.json", "every entry has field " + field)
    return rr


# ---------------------------------------------------------------- R5
def rule_r5(ctx, cg, sf: SqlFacts) -> RuleResult:
    rr = RuleResult("C05.R5", "tables read on the expansion path are created by the constructor", min_instances=3)
    closure = cg.closure(["core.Wtp.expand"])
    ctor = cg.closure(["core.Wtp.__init__"])
    created = {s.table: s for s in sf.statements if s.kind == "CREATE TABLE" and s.function in ctor}
    for s in sf.statements:
        if s.function not in closure or s.kind not in ("SELECT", "INSERT", "UPDATE", "DELETE") or not s.table:
            continue
        if s.function.startswith("wikidata."):
            continue
        ctx.touched(s.function, s.relfile)
        label = "{} {}".format(s.kind, s.table)
        if s.table in created:
            rr.ok(s.function, label, {"fn": s.function, "sql": label, "created_in": created[s.table].function})
            continue
        # or the reader handles the missing table
        handled = []

        def visit(node, facts, handlers, s=s):
            if node is s.call and caught_by("sqlite3.OperationalError", handlers):
                handled.append(1)

        GuardWalker(visit).function(ctx.index.func(s.function))
        if handled:
            rr.ok(s.function, label + " (absence handled)")
        else:
            makers = sorted({x.function for x in sf.statements if x.kind == "CREATE TABLE" and x.table == s.table})
            rr.bad(Finding("C05.R5", s.relfile, s.function, label,
                           "table `{}` is created only by {} which the constructor does not reach; on a context that was not built by "
                           "process_dump this statement raises sqlite3.OperationalError (e.g. `{{{{fullurl:w:x}}}}`)".format(s.table, makers or "nobody"),
                           s.call.lineno))
    return rr


# ---------------------------------------------------------------- R6
class DepthGuard(Flow):
    """state: True once the depth test has been passed on this path"""

    def __init__(self):
        self.calls = []
        self.guard = None
        self.guard_true_arm = None

    def _is_depth_test(self, t):
        return isinstance(t, ast.Compare) and len(t.ops) == 1 and isinstance(t.ops[0], (ast.GtE, ast.Gt)) \
            and isinstance(t.left, ast.Call) and unparse(t.left.func) == "len" and unparse(t.left.args[0]).endswith(".expand_stack") \
            and isinstance(t.comparators[0], ast.Constant)

    def branch(self, test, state):
        (s,) = self.transfer_expr(test, state)
        if self._is_depth_test(test):
            self.guard = test
            return [("in_guard",)], [True]
        return [s], [s]

    def transfer_expr(self, node, state):
        if node is None:
            return [state]
        for c in ast.walk(node):
            if isinstance(c, ast.Call) and isinstance(c.func, ast.Name) and c.func.id in ("expand_recurse", "expand_parserfn", "expand_args"):
                self.calls.append((c, state))
        return [state]


def rule_r6(ctx) -> RuleResult:
    rr = RuleResult("C05.R6", "depth limit and loop detection guard every recursive call of the template branch", min_instances=8)
    tb = X.template_branch(ctx)
    w = DepthGuard()
    w.run_block(tb, {False})
    if w.guard is None:
        rr.bad(Finding("C05.R6", X.CORE, X.RECURSE, "if len(self.expand_stack) >= N", "the depth limit test vanished from the template branch", tb[0].lineno))
        return rr
    n = w.guard.comparators[0].value
    eff = n if isinstance(w.guard.ops[0], ast.GtE) else n + 1
    if isinstance(n, int) and 1 <= eff <= 200:
        rr.ok(X.RECURSE, "depth bound {} <= 200".format(eff), {"guard": unparse(w.guard)})
    else:
        rr.bad(Finding("C05.R6", X.CORE, X.RECURSE, unparse(w.guard),
                       "depth bound {} is not a literal <= 200: each level costs up to four Python frames, so deeper nesting ends in an "
                       "uncaught RecursionError instead of the in-band error".format(n), w.guard.lineno))
    agg = {}
    for c, st in w.calls:
        agg.setdefault(c, []).append(st)
    for c, sts in agg.items():
        label = unparse(c)[:60]
        if all(s is True for s in sts):
            rr.ok(X.RECURSE, label + " @{}".format(c.lineno), {"call": label, "dominated_by_depth_test": True})
        else:
            rr.bad(Finding("C05.R6", X.CORE, X.RECURSE, label,
                           "this recursive call of the template branch is reachable without passing the depth test; deeply nested "
                           "input of this shape raises RecursionError", c.lineno))
    # true arm of the guard: error element + self.error + continue
    gifs = [s for st in tb for s in ast.walk(st) if isinstance(s, ast.If) and s.test is w.guard]
    arm = gifs[0].body if gifs else []
    has_err = any(isinstance(c, ast.Call) and unparse(c.func) == "self.error" for s in arm for c in ast.walk(s))
    has_elem = any(isinstance(c, ast.Constant) and isinstance(c.value, str) and 'class="error"' in c.value for s in arm for c in ast.walk(s))
    ends = arm and isinstance(arm[-1], ast.Continue)
    if has_err and has_elem and ends:
        rr.ok(X.RECURSE, "too deep -> error element + self.error + continue")
    else:
        rr.bad(Finding("C05.R6", X.CORE, X.RECURSE, "depth-limit arm", "the depth-limit arm must append an error element, record an error and continue", w.guard.lineno))
    # loop detector: after the push of 'Template:' + name, before the argument loop / body
    det = [s for st in tb for s in ast.walk(st) if isinstance(s, ast.If) and "detect_expand_template_loop" in unparse(s.test)]
    if len(det) != 1:
        rr.bad(Finding("C05.R6", X.CORE, X.RECURSE, "if detect_expand_template_loop(self.expand_stack)", "loop detection vanished", tb[0].lineno))
        return rr
    d = det[0]
    idx = tb.index(d) if d in tb else -1
    prev = tb[idx - 1] if idx > 0 else None
    pushed = prev is not None and isinstance(prev, ast.Expr) and isinstance(prev.value, ast.Call) \
        and unparse(prev.value.func).endswith(".expand_stack.append") and "Template:" in unparse(prev.value) and "name" in unparse(prev.value)
    if pushed:
        rr.ok(X.RECURSE, "loop detector runs right after pushing 'Template:' + name")
    else:
        rr.bad(Finding("C05.R6", X.CORE, X.RECURSE, "position of detect_expand_template_loop", "the detector must run on the stack that already contains this call", d.lineno))
    later_calls = [c for c, _ in w.calls if c.lineno > d.end_lineno]
    earlier_body = [c for c, _ in w.calls if c.lineno < d.lineno and "encoded_body" in unparse(c)]
    if later_calls and not earlier_body:
        rr.ok(X.RECURSE, "argument and body expansion come after the loop test")
    a = d.body
    a_elem = any(isinstance(c, (ast.Constant, ast.JoinedStr)) and 'class="error"' in unparse(c) for s in a for c in ast.walk(s))
    a_pop = any(isinstance(c, ast.Call) and unparse(c.func).endswith(".expand_stack.pop") for s in a for c in ast.walk(s))
    a_warn = any(isinstance(c, ast.Call) and unparse(c.func) in ("self.warning", "self.error") for s in a for c in ast.walk(s))
    if a_elem and a_pop and a_warn and isinstance(a[-1], ast.Continue):
        rr.ok(X.RECURSE, "loop -> error element + pop + warning + continue")
    else:
        rr.bad(Finding("C05.R6", X.CORE, X.RECURSE, "loop-detected arm", "the arm must append an error element, pop, record a warning and continue", d.lineno))
    # the detector itself is bounded: only for/range loops over the stack length
    det_fn = ctx.fn("core.detect_expand_template_loop")
    if any(isinstance(n, ast.While) for n in ast.walk(det_fn)):
        rr.bad(Finding("C05.R6", X.CORE, "core.detect_expand_template_loop", "while loop", "the detector contains an unbounded loop", det_fn.lineno))
    else:
        rr.ok("core.detect_expand_template_loop", "bounded for/range loops only")
    return rr


# ---------------------------------------------------------------- R7
def rule_r7(ctx, cg) -> RuleResult:
    rr = RuleResult("C05.R7", "input-sized work is clamped", min_instances=4)
    targets = {d: ctx.index.func(d) for d in sorted(cg.registered_parser_functions) if d not in NETWORK_ONLY}
    for v in ctx.index.consts("parserfns").values():
        if isinstance(v, dict):
            for x in v.values():
                if isinstance(x, FuncRef) and x.name.startswith("binary_"):
                    targets[x.mod + "." + x.name] = ctx.index.func(x.mod + "." + x.name)
    for dotted, fn in targets.items():
        is_op = dotted.split(".")[-1].startswith("binary_")
        params = [a.arg for a in fn.args.args]
        tainted = set(params) if is_op else set()
        strings = set()
        clamped = set()
        body_nodes = list(walk_no_nested(fn))
        changed = True
        while changed:
            changed = False
            for n in body_nodes:
                if isinstance(n, ast.Assign) and len(n.targets) == 1 and isinstance(n.targets[0], ast.Name):
                    t = n.targets[0].id
                    v = n.value
                    vt = unparse(v)
                    if isinstance(v, ast.Call) and isinstance(v.func, ast.Name) and v.func.id == "int" and t not in tainted:
                        tainted.add(t)
                        changed = True
                    elif isinstance(v, ast.Call) and isinstance(v.func, ast.Name) and v.func.id == "min" and any(isinstance(a, ast.Constant) for a in v.args):
                        if t not in clamped:
                            clamped.add(t)
                            changed = True
                    elif any(isinstance(x, ast.Name) and x.id in tainted for x in ast.walk(v)) and t not in tainted \
                            and not (isinstance(v, ast.Call) and unparse(v.func) in ("len", "str")):
                        if not isinstance(v, (ast.Compare,)):
                            tainted.add(t)
                            changed = True
                    if ("expander(" in vt or isinstance(v, ast.Constant) and isinstance(v.value, str)) and t not in strings:
                        strings.add(t)
                        changed = True
        live = tainted - clamped
        if not live:
            continue
        for n in body_nodes:
            hit = None
            if isinstance(n, ast.Call) and isinstance(n.func, ast.Name) and n.func.id == "range" and n.args:
                if any(isinstance(x, ast.Name) and x.id in live for a in n.args for x in ast.walk(a)):
                    hit = ("range", n)
            if isinstance(n, ast.BinOp) and isinstance(n.op, ast.Mult):
                l, r = n.left, n.right
                for s_, c_ in ((l, r), (r, l)):
                    if isinstance(s_, ast.Name) and s_.id in strings and any(isinstance(x, ast.Name) and x.id in live for x in ast.walk(c_)):
                        hit = ("repeat", n)
            if isinstance(n, ast.AugAssign) and isinstance(n.op, ast.Mult) and isinstance(n.target, ast.Name) and n.target.id in strings:
                if any(isinstance(x, ast.Name) and x.id in live for x in ast.walk(n.value)):
                    hit = ("repeat", n)
            if hit:
                kind, node = hit
                ctx.touched(dotted, _relfile(ctx, dotted))
                # the finding is identified by WHAT is repeated in this function, not by how the count is spelled
                # (the count expression changes under every refactoring of the arithmetic)
                if kind == "repeat" and isinstance(node, ast.BinOp):
                    seq = node.left if isinstance(node.left, ast.Name) and node.left.id in strings else node.right
                    construct = "{} * <count>".format(unparse(seq))
                elif kind == "repeat":
                    construct = "{} *= <count>".format(unparse(node.target))
                else:
                    construct = unparse(node)
                rr.bad(Finding("C05.R7", _relfile(ctx, dotted), dotted, construct,
                               "{} sized by an integer taken from the input without an upper bound: `{{{{#expr:1e99999999}}}}` / "
                               "`{{{{padleft:x|999999999999|ab}}}}` do not return in bounded time/memory".format(
                                   "loop" if kind == "range" else "string repetition"), node.lineno))
    # positive obligations: functions that do clamp / have no such sink
    rr.obligations = len(targets)
    rr.discharged = len(targets) - len({f.function for f in rr.findings})
    for d in targets:
        rr.cases.add((d, "scanned for input-sized work"))
    rr.samples.append({"functions_scanned": len(targets)})
    return rr


# recursion on the expansion path that does not pass through expand_recurse's depth guard (R6):
# allowed only where it descends a finite structure of the input
STRUCTURAL_RECURSION = {
    "core.Wtp.expand.expand_recurse.expand_args": "descends the nesting of cookies; a cookie's arguments only hold older cookies",
    "luaexec.mw_text_jsondecode.recurse": "descends the decoded JSON value",
    "luaexec.mw_text_jsonencode.recurse": "descends the Lua value being encoded",
    "node_expand.to_wikitext.recurse": "descends the parse tree",
    "parser.": "the parser's handlers recurse on the nesting of the input text (C01 covers their totality)",
    "parserfns.expr_fn.parse_": "recursive-descent #expr parser: consumes at least one token per level",
}
# structural recursions that cost many interpreter frames per nesting level of the *input*: their entry
# call must sit under a handler for RecursionError (group prefix -> (function holding the entry call, why))
RECURSION_NEEDS_HANDLER = {
    "parserfns.expr_fn.parse_": ("parserfns.expr_fn", "one frame per precedence level (12) for every parenthesis: 50 nested parentheses exhaust "
                                                      "the interpreter's 1000-frame limit"),
}


def _structural_descent(ctx, cg, scc: set) -> tuple:
    """Size-change argument for a recursive group that is not in the table: every call from a member of the group to a member
    passes (a) a strict part of one of the caller's parameters -- an attribute / subscript / element of it, or of a local
    bound to such a part -- which counts as descent, or (b) a parameter unchanged, which is neutral.  The group terminates
    on finite acyclic inputs when every cycle contains a descending call, i.e. when the neutral calls alone form no cycle.
    Returns (proved, explanation)."""
    import itertools

    members = {f: ctx.index.func(f) for f in scc if ctx.index.has_func(f)}
    hooks: set = set()
    neutral_edges = set()
    n_desc = 0
    for f, fn in members.items():
        params = {a.arg for a in fn.args.args + fn.args.kwonlyargs} - {"self", "cls", "ctx", "wtp"}
        part, whole = set(), set(params)
        # locals bound to (parts of) parameters, to a fixed point
        for _ in range(4):
            for n in walk_no_nested(fn):
                tgt = val = None
                if isinstance(n, ast.Assign) and len(n.targets) == 1:
                    tgt, val = n.targets[0], n.value
                elif isinstance(n, (ast.For, ast.comprehension)):
                    tgt, val = n.target, n.iter
                    base = val
                    while isinstance(base, ast.Call) and isinstance(base.func, ast.Attribute) and base.func.attr in ("items", "values", "keys"):
                        base = base.func.value
                    while isinstance(base, ast.Call) and isinstance(base.func, ast.Name) and base.func.id in ("sorted", "reversed", "enumerate", "list", "tuple") and base.args:
                        base = base.args[0]
                    if _rooted(base, whole | part):
                        for x in ast.walk(tgt):
                            if isinstance(x, ast.Name):
                                part.add(x.id)
                    continue
                if tgt is None or not isinstance(tgt, ast.Name):
                    continue
                if isinstance(val, ast.Call) and unparse(val.func).split(".")[-1].endswith(("_fn", "_hook", "_handler")) \
                        and not {c_ for c_ in cg.callees_in(f, val) if not c_.startswith("%")} and any(_rooted(a, whole | part) for a in val.args):
                    # the replacement a caller-supplied hook returns for (a part of) the input: the hook's contract, assumed finite
                    part.add(tgt.id)
                    hooks.add(unparse(val.func))
                    continue
                if isinstance(val, ast.Name) and val.id in whole:
                    whole.add(tgt.id)
                elif isinstance(val, ast.Name) and val.id in part:
                    part.add(tgt.id)
                elif isinstance(val, (ast.Attribute, ast.Subscript)) and _rooted(val, whole | part):
                    part.add(tgt.id)
        # local aliases of members: `recurse = partial(member, a, b)` / `recurse = member`
        alias = {}
        for n in walk_no_nested(fn):
            if isinstance(n, ast.Assign) and len(n.targets) == 1 and isinstance(n.targets[0], ast.Name):
                v = n.value
                tgt_fn = None
                if isinstance(v, ast.Call) and unparse(v.func) in ("partial", "functools.partial") and v.args:
                    tgt_fn = v.args[0]
                elif isinstance(v, (ast.Name, ast.Attribute)):
                    tgt_fn = v
                if tgt_fn is not None:
                    hit = [q for q in members if q.split(".")[-1] == unparse(tgt_fn).split(".")[-1]]
                    if len(hit) == 1:
                        alias[n.targets[0].id] = hit[0]
        for c in walk_no_nested(fn):
            if not isinstance(c, ast.Call):
                continue
            if isinstance(c.func, ast.Name) and c.func.id in ("partial",) or unparse(c.func) == "functools.partial":
                continue  # building the alias is not a call of the member
            shallow = ast.copy_location(ast.Call(func=c.func, args=[], keywords=[]), c)   # the callee of THIS call, not of calls in its arguments
            callees = cg.callees_in(f, shallow) & set(members)
            if isinstance(c.func, ast.Name) and c.func.id in alias:
                callees = callees | {alias[c.func.id]}
            args = list(c.args) + [k.value for k in c.keywords]
            # map(g, xs) / filter: g is applied to the elements of xs
            if isinstance(c.func, ast.Name) and c.func.id in ("map", "filter") and len(c.args) >= 2:
                tgt_names = {q for q in members if isinstance(c.args[0], (ast.Name, ast.Attribute)) and q.split(".")[-1] == unparse(c.args[0]).split(".")[-1]}
                if isinstance(c.args[0], ast.Name) and c.args[0].id in alias:
                    tgt_names.add(alias[c.args[0].id])
                for q in tgt_names:
                    if all(_rooted(_strip_iter(a), whole | part) for a in c.args[1:]):
                        n_desc += 1
                    else:
                        neutral_edges.add((f, q))
                continue
            if not callees:
                continue
            desc = any((isinstance(a, (ast.Attribute, ast.Subscript)) and _rooted(a, whole | part)) or (isinstance(a, ast.Name) and a.id in part) for a in args)
            same = any(isinstance(a, ast.Name) and a.id in whole for a in args)
            for q in callees:
                if desc:
                    n_desc += 1
                elif same:
                    neutral_edges.add((f, q))
                else:
                    return False, "the call `{}` in {} passes nothing derived from a parameter".format(unparse(c)[:50], f)
    # do the neutral edges alone contain a cycle?
    adj = {}
    for a, b in neutral_edges:
        adj.setdefault(a, set()).add(b)
    state = {}

    def dfs(x) -> bool:
        state[x] = 1
        for y in adj.get(x, ()):
            if state.get(y) == 1 or (state.get(y) is None and dfs(y)):
                return True
        state[x] = 2
        return False

    for x in list(adj):
        if state.get(x) is None and dfs(x):
            return False, "a cycle of calls passes the parameter on unchanged"
    if n_desc == 0:
        return False, "no descending call found"
    return True, "every cycle of the group descends into a part of a parameter ({} descending call sites{})".format(
        n_desc, "; values returned by the caller-supplied hook {} are assumed finite".format(", ".join(sorted(hooks))) if hooks else "")


def _rooted(e, names: set) -> bool:
    """an attribute / subscript chain (or a bare name) rooted at one of the names"""
    while isinstance(e, (ast.Attribute, ast.Subscript)):
        e = e.value
    return isinstance(e, ast.Name) and e.id in names


def _strip_iter(e):
    while isinstance(e, ast.Call) and ((isinstance(e.func, ast.Attribute) and e.func.attr in ("items", "values", "keys"))
                                       or (isinstance(e.func, ast.Name) and e.func.id in ("sorted", "reversed", "enumerate", "list", "tuple") and e.args)):
        e = e.func.value if isinstance(e.func, ast.Attribute) else e.args[0]
    return e


def rule_r8(ctx, cg: CallGraph) -> RuleResult:
    """Every cycle of the call graph on the expansion path either passes through expand_recurse,
    whose depth and loop guards (R6) bound it, or is one of the enumerated structural recursions.
    Any other recursion (e.g. a page-lookup helper that follows redirects by calling itself) is
    driven by stored data, pushes nothing on the expansion path and ends in RecursionError."""
    rr = RuleResult("C05.R8", "recursion on the expansion path is guarded by the depth limit or structural", min_instances=15)
    closure = cg.closure(["core.Wtp.expand"])
    cut = {"core.Wtp.expand.expand_recurse"}

    def reach_without_cut(a):
        seen, st = set(), [a]
        while st:
            x = st.pop()
            for c in cg.edges.get(x, ()):
                if c in cut or c in seen:
                    continue
                seen.add(c)
                st.append(c)
        return seen

    for f in sorted(closure):
        if f in cut or not ctx.index.has_func(f):
            continue
        if f not in reach_without_cut(f):
            continue
        reason = next((why for pre, why in STRUCTURAL_RECURSION.items() if f == pre or (pre.endswith((".", "_")) and f.startswith(pre))), None)
        if reason:
            rr.ok(f, "structural recursion: " + reason, {"fn": f})
            continue
        scc = {g for g in reach_without_cut(f) if f in reach_without_cut(g)} | {f}
        proved, how = _structural_descent(ctx, cg, scc)
        if proved:
            rr.ok(f, "structural recursion (size-change argument): " + how, {"fn": f, "group": sorted(scc)})
        else:
            fn = ctx.index.func(f)
            rr.bad(Finding("C05.R8", ctx.index.mod(f.split(".")[0]).relpath, f, "recursive call cycle through " + f.split(".")[-1],
                           "this function is on a call cycle that does not pass through expand_recurse's depth/loop guards and is not a "
                           "structural recursion: stored data (e.g. a redirect cycle) drives it into RecursionError, which expand() does not catch",
                           fn.lineno))
    covers = {"RecursionError", "RuntimeError", "Exception", "BaseException"}
    for pre, (holder, why) in RECURSION_NEEDS_HANDLER.items():
        hf = ctx.fn(holder)
        parents = ctx.index.mod(holder.split(".")[0]).parents
        entries = [c for c in walk_no_nested(hf) if isinstance(c, ast.Call) and isinstance(c.func, ast.Name)
                   and (holder + "." + c.func.id).startswith(pre)]
        if not entries:
            raise AnalysisError("{}: entry call into the recursive group {}* not found".format(holder, pre))
        for c in entries:
            n, protected = c, False
            while n in parents and n is not hf:
                p_ = parents[n]
                if isinstance(p_, ast.Try) and n in p_.body:
                    for h in p_.handlers:
                        names = [unparse(x) for x in (h.type.elts if isinstance(h.type, ast.Tuple) else [h.type])] if h.type is not None else ["BaseException"]
                        if set(names) & covers:
                            protected = True
                n = p_
            if protected:
                rr.ok(holder, unparse(c) + " under a RecursionError handler", {"entry": unparse(c), "group": pre})
            else:
                rr.bad(Finding("C05.R8", ctx.index.mod(holder.split(".")[0]).relpath, holder, unparse(c),
                               "the entry into this recursive group is not under a handler for RecursionError ({}): the exception leaves "
                               "expand() instead of an in-band error".format(why), c.lineno))
    return rr


def rule_r9(ctx) -> RuleResult:
    """No AttributeError on the context: the class uses __slots__, so an attribute exists only once
    it has been assigned.  Every helper the constructor calls on itself (`self.init_*()`,
    `self.create_db()`) assigns the same set of attributes on every path to its exit -- an early
    return that skips one of them leaves a slot empty for some configurations (e.g. language
    editions without a localization file), and reading it later raises out of expand()."""
    from ..core.flow import Flow

    rr = RuleResult("C05.R9", "constructor helpers assign the same context attributes on every path", min_instances=3)
    init = ctx.fn("core.Wtp.__init__")
    helpers = []
    for c in walk_no_nested(init):
        if isinstance(c, ast.Call) and isinstance(c.func, ast.Attribute) and isinstance(c.func.value, ast.Name) and c.func.value.id == "self" \
                and ctx.index.has_func("core.Wtp." + c.func.attr):
            helpers.append("core.Wtp." + c.func.attr)
    if len(helpers) < 3:
        raise AnalysisError("Wtp.__init__: fewer than 3 self.<helper>() calls found (4 confirmed by hand)")

    class Assigned(Flow):
        def transfer(self, st, state):
            out = set(state)
            tgs = st.targets if isinstance(st, ast.Assign) else [st.target] if isinstance(st, ast.AnnAssign) and st.value is not None else []
            for t in tgs:
                for el in (t.elts if isinstance(t, (ast.Tuple, ast.List)) else [t]):
                    if isinstance(el, ast.Attribute) and isinstance(el.value, ast.Name) and el.value.id == "self":
                        out.add(el.attr)
            return [frozenset(out)]

    # walk the constructor in order: what is already assigned when a helper is called is not the helper's obligation
    assigned = frozenset()
    for st in init.body:
        called = [c for c in ast.walk(st) if isinstance(c, ast.Call) and isinstance(c.func, ast.Attribute) and isinstance(c.func.value, ast.Name)
                  and c.func.value.id == "self" and "core.Wtp." + c.func.attr in helpers]
        if called and isinstance(st, ast.Expr):
            h = "core.Wtp." + called[0].func.attr
            fn = ctx.fn(h)
            w = Assigned()
            out = w.run_function(fn, [assigned])
            exits = [s_ for s_ in out.fall] + [s_ for _, s_ in out.ret]
            if not exits:
                continue
            union = frozenset().union(*exits)
            inter = frozenset(exits[0]).intersection(*exits[1:]) if len(exits) > 1 else frozenset(exits[0])
            if union - inter:
                rr.bad(Finding("C05.R9", "src/wikitextprocessor/core.py", h, "self.{} assigned on some paths only".format(", self.".join(sorted(union - inter))),
                               "a path through this constructor helper returns without assigning {}: on a context built that way any later read of "
                               "the attribute raises AttributeError (the class has __slots__), e.g. out of {{{{formatnum:1|R}}}}".format(
                                   ", ".join(sorted(union - inter))), fn.lineno))
            else:
                rr.ok(h, "assigns {} on every path".format(", ".join(sorted(union - assigned)) or "nothing new"),
                      {"helper": h, "attrs": sorted(union - assigned), "exits": len(exits)})
            assigned = inter
        else:
            o = Assigned().run_block([st], {assigned})
            falls = list(o.fall)
            if falls:
                assigned = frozenset(falls[0]).intersection(*falls[1:]) if len(falls) > 1 else frozenset(falls[0])
    return rr


def rule_r10(ctx) -> RuleResult:
    """Sibling agreement of the cookie consumers: a character of the private-use cookie range that
    the input itself contains has no entry in the table.  Every `<ctx>.cookies[idx]` with an index
    computed from a character is dominated by a bound test of that index against the table's
    length (three of the four consumers have one -- the fourth raises IndexError out of expand())."""
    rr = RuleResult("C05.R10", "every consumer of a cookie index checks it against the table length", min_instances=3)
    for dotted, m, f in ctx.index.all_functions():
        parents = m.parents
        for n in walk_no_nested(f):
            if not (isinstance(n, ast.Subscript) and isinstance(n.value, ast.Attribute) and n.value.attr == "cookies"
                    and isinstance(n.ctx, ast.Load) and isinstance(n.slice, ast.Name)):
                continue
            idx = n.slice.id
            # a preceding `if idx >= len(<ctx>.cookies): ... continue/return/raise` (or `idx < len(...)` around the use)
            guarded = False
            for t in walk_no_nested(f):
                if isinstance(t, ast.If) and t.lineno < n.lineno and isinstance(t.test, ast.Compare) and len(t.test.ops) == 1 \
                        and isinstance(t.test.left, ast.Name) and t.test.left.id == idx and isinstance(t.test.ops[0], (ast.GtE, ast.Gt)) \
                        and "len(" in unparse(t.test.comparators[0]) and "cookies" in unparse(t.test.comparators[0]) \
                        and t.body and isinstance(t.body[-1], (ast.Continue, ast.Return, ast.Raise)):
                    guarded = True
            p_ = n
            while p_ in parents and parents[p_] is not f:
                p_ = parents[p_]
                if isinstance(p_, ast.If) and isinstance(p_.test, ast.Compare) and isinstance(p_.test.left, ast.Name) and p_.test.left.id == idx \
                        and isinstance(p_.test.ops[0], (ast.Lt, ast.LtE)) and "cookies" in unparse(p_.test.comparators[0]):
                    guarded = True
            if guarded:
                rr.ok(dotted, unparse(n) + " under a bound test", {"fn": dotted, "index": idx})
            else:
                rr.bad(Finding("C05.R10", m.relpath, dotted, unparse(n),
                               "the cookie table is indexed without the bound test its sibling consumers have: a private-use character "
                               "in the input (e.g. inside `{{{{{{...}}}}}}` or a template body) raises IndexError out of expand()", n.lineno))
    return rr


# ---------------------------------------------------------------- R11
def rule_r11(ctx) -> RuleResult:
    """The loop detector decides whether the tail of the expansion path is a repetition of some period.  Paths that end in the
    same frame can repeat with different periods (a template that re-enters itself along two routes of different length),
    so a detector that compares slices of the path for ONE candidate period only -- however that candidate is computed --
    misses cycles; with two or more recursive calls per step the expansion then runs for ~2^depth steps.  Necessary
    condition decided here: the comparison of path slices sits inside a loop (or comprehension) that enumerates candidates."""
    rr = RuleResult("C05.R11", "the template-loop detector enumerates candidate periods instead of testing a single one", min_instances=1)
    dotted = "core.detect_expand_template_loop"
    fn = ctx.fn(dotted)
    parents = ctx.index.mod("core").parents
    param = fn.args.args[0].arg if fn.args.args else "stack"

    def is_slice_of_path(e) -> bool:
        return any(isinstance(n, ast.Subscript) and isinstance(n.slice, ast.Slice) and isinstance(n.value, ast.Name) and n.value.id == param
                   for n in ast.walk(e))

    def derived_from_slice(e) -> bool:
        if is_slice_of_path(e):
            return True
        for n in ast.walk(e):
            if isinstance(n, ast.Name):
                for a in ast.walk(fn):
                    if isinstance(a, ast.Assign) and any(isinstance(t, ast.Name) and t.id == n.id for t in a.targets) and is_slice_of_path(a.value):
                        return True
        return False

    cmps = [n for n in ast.walk(fn) if isinstance(n, ast.Compare) and len(n.ops) == 1 and isinstance(n.ops[0], (ast.Eq, ast.NotEq))
            and (is_slice_of_path(n.left) or is_slice_of_path(n.comparators[0]))
            and derived_from_slice(n.left) and derived_from_slice(n.comparators[0])]
    if not cmps:
        raise AnalysisError("detect_expand_template_loop: the comparison of slices of the path was not recognised")
    loops_with_cmp: set = set()
    for c in cmps:
        n = c
        in_loop = False
        while n in parents and n is not fn:
            n = parents[n]
            if isinstance(n, (ast.For, ast.While, ast.GeneratorExp, ast.ListComp, ast.SetComp)):
                in_loop = True
        if in_loop:
            rr.ok(dotted, "`{}` is evaluated for every candidate of an enclosing loop".format(unparse(c)[:70]))
            loops_with_cmp.update(id(x) for x in _enclosing_loops(parents, c, fn))
        else:
            rr.bad(Finding("C05.R11", X.CORE, dotted, unparse(c)[:100],
                           "the repetition test is evaluated for a single candidate period: a cycle in which the template just entered occurs "
                           "twice per period (two routes of different length back to itself) is never recognised, and with several recursive "
                           "calls per step expand() runs for about 2^100 steps", c.lineno))
    # A verdict given inside the enumeration ends it.  `return True` is final by definition; a negative verdict (or the outcome of
    # one candidate's comparison) returned from inside the loop is right only if it says something about *all* remaining
    # candidates, which a test on the contents of the path for one candidate does not (seed C05-8A: return at the nearest
    # earlier occurrence of the frame just pushed).  Tests on sizes alone (`if 2 * size > len(stack): return False`) are fine.
    content = {param}
    changed = True
    while changed:
        changed = False
        for a in ast.walk(fn):
            if isinstance(a, ast.Assign) and len(a.targets) == 1 and isinstance(a.targets[0], ast.Name) and a.targets[0].id not in content:
                if _mentions_content(a.value, content, param):
                    content.add(a.targets[0].id)
                    changed = True
    content.discard(param)
    for lp in [n for n in ast.walk(fn) if isinstance(n, ast.For) and id(n) in loops_with_cmp]:
        for r in [n for b in lp.body for n in ast.walk(b) if isinstance(n, ast.Return)]:
            v = r.value
            if isinstance(v, ast.Constant) and v.value is True:
                continue
            conds = [t for t, truth in X.path_conditions(parents, r) if any(x is lp for x in _enclosing_loops(parents, t, fn))]
            if isinstance(v, ast.Constant) or v is None:
                dep = [t for t in conds if _mentions_content(t, content, param)]
                if not dep:
                    rr.ok(dotted, "early negative verdict depends on sizes only (line {})".format(r.lineno))
                    continue
                why = "under `{}`, a test on the contents of the path for this one candidate".format(unparse(dep[0])[:60])
            elif _mentions_content(v, content, param):
                why = "the outcome of one candidate's comparison is returned as the verdict"
            else:
                continue
            rr.bad(Finding("C05.R11", X.CORE, dotted, "return inside the enumeration of periods: `{}`".format(unparse(r)[:70]),
                           "the detector answers 'no loop' from inside the enumeration of candidate periods ({}); the remaining candidates are "
                           "never tried, so a cycle whose period contains the frame just entered more than once is not recognised".format(why),
                           r.lineno))
    # A candidate may be *skipped* (`continue`) on account of one fixed position of it -- only that rotation of a cycle is lost,
    # the others are still tried.  A skip that quantifies over all frames of the candidate (any()/all()/membership) removes
    # every rotation of every cycle that passes through such a frame: those cycles are never recognised (seed C05-10B: cycles
    # through an argument value, 2^depth expansions before the depth limit stops them).
    for lp in [n for n in ast.walk(fn) if isinstance(n, ast.For) and id(n) in loops_with_cmp]:
        for k in [n for b in lp.body for n in ast.walk(b) if isinstance(n, ast.Continue)]:
            conds = [t for t, truth in X.path_conditions(parents, k) if any(x is lp for x in _enclosing_loops(parents, t, fn))]
            for t in conds:
                if not _mentions_content(t, content, param):
                    continue
                quant = any((isinstance(x, ast.Call) and isinstance(x.func, ast.Name) and x.func.id in ("any", "all"))
                            or (isinstance(x, ast.Compare) and any(isinstance(o, (ast.In, ast.NotIn)) for o in x.ops)
                                and any(isinstance(c_, ast.Name) and c_.id in content for c_ in x.comparators))
                            for x in ast.walk(t))
                if quant:
                    rr.bad(Finding("C05.R11", X.CORE, dotted, "candidate skipped under `{}`".format(unparse(t)[:80]),
                                   "a candidate period is discarded because of a frame *anywhere* in it: every rotation of a cycle that passes "
                                   "through such a frame is discarded, the cycle is never reported, and with two re-entries per level the "
                                   "expansion runs for about 2^100 steps before the depth limit ends it", k.lineno))
                else:
                    rr.ok(dotted, "skip under `{}` looks at one fixed position of the candidate".format(unparse(t)[:60]))
    return rr


def _enclosing_loops(parents, node, fn):
    n = node
    while n in parents and n is not fn:
        n = parents[n]
        if isinstance(n, (ast.For, ast.While)):
            yield n


def _mentions_content(e, content: set, param: str) -> bool:
    """does the expression read elements of the path (the parameter other than through len(), or a name derived from it)?"""
    skip = set()
    for n in ast.walk(e):
        if isinstance(n, ast.Call) and isinstance(n.func, ast.Name) and n.func.id == "len" and len(n.args) == 1:
            skip |= {id(x) for x in ast.walk(n.args[0])}
    for n in ast.walk(e):
        if isinstance(n, ast.Name) and id(n) not in skip and (n.id == param or n.id in content):
            return True
    return False


def rule_r12(ctx) -> RuleResult:
    """The depth limit and the loop detector (R6, R11) read `expand_stack`.  The Lua bridge re-enters expand(); if any code
    but the constructor and start_page rebinds the list (e.g. expand() starting from a fresh path and restoring the old one
    afterwards), a nested expansion no longer sees the frames around it and a template cycle that passes through a Lua
    module is never cut (seed C05-7A).  Shared with C16.R2."""
    from ..core.report import shared
    from . import c16

    return shared(c16.rule_r2(ctx), "C05.R12", "the expansion path the recursion guards read is never rebound during a page (shared with C16.R2)",
                  "the depth limit and the loop detector no longer see the frames of the enclosing expansion", min_instances=8)


_FS_METHODS = {"is_file", "exists", "is_dir", "open", "read_text", "read_bytes", "stat", "lstat", "iterdir", "glob", "resolve", "is_symlink"}
_FS_FUNCS = {"open", "os.stat", "os.path.exists", "os.path.isfile", "os.path.isdir", "os.listdir", "os.path.getsize"}
_OSERROR_COVER = {"OSError", "IOError", "EnvironmentError", "Exception", "BaseException"}


def rule_r13(ctx, cg: CallGraph, scope: dict) -> RuleResult:
    """A path built from text that a page supplies (the module name of `#invoke`/`require`/`mw.loadData`) can be something the
    file system refuses to look up at all -- longer than NAME_MAX, an embedded NUL after a future change of the sanitiser --
    and then `Path.is_file()` / `open()` raise OSError (only ENOENT-like errors are swallowed by pathlib).  On the expansion
    path such a probe has to sit under a handler that covers OSError, or the exception leaves expand() instead of the in-band
    error element.  Genuine defect of the pinned tree: `{{#invoke:<5000 letters>|f}}` raised OSError(ENAMETOOLONG) out of
    expand() (F28)."""
    rr = RuleResult("C05.R13", "file-system probes of a path made from page text are under an OSError handler", min_instances=2)
    for dotted, top in scope.items():
        m = ctx.index.mod(dotted.split(".")[0])
        for fn in [top] + [n for n in ast.walk(top) if isinstance(n, (ast.FunctionDef, ast.AsyncFunctionDef)) and n is not top]:
            params = {a.arg for a in fn.args.args + fn.args.kwonlyargs} - {"self", "ctx", "wtp", "cls"}
            if not params:
                continue
            # names that depend on a parameter (forward propagation over plain assignments, loop targets and augmented assignments)
            dep = set(params)
            changed = True
            while changed:
                changed = False
                for n in walk_no_nested(fn):
                    tg = val = None
                    if isinstance(n, ast.Assign):
                        tg, val = n.targets, n.value
                    elif isinstance(n, ast.AugAssign):
                        tg, val = [n.target], n.value
                    elif isinstance(n, ast.AnnAssign) and n.value is not None:
                        tg, val = [n.target], n.value
                    if tg is None:
                        continue
                    if any(isinstance(x, ast.Name) and x.id in dep for x in ast.walk(val)):
                        for t in tg:
                            for x in ast.walk(t):
                                if isinstance(x, ast.Name) and x.id not in dep:
                                    dep.add(x.id)
                                    changed = True
            parents = {c: p_ for p_ in ast.walk(fn) for c in ast.iter_child_nodes(p_)}
            for c in walk_no_nested(fn):
                if not isinstance(c, ast.Call):
                    continue
                recv = None
                if isinstance(c.func, ast.Attribute) and c.func.attr in _FS_METHODS:
                    recv = c.func.value
                elif unparse(c.func) in _FS_FUNCS and c.args:
                    recv = c.args[0]
                if recv is None or not any(isinstance(x, ast.Name) and x.id in dep for x in ast.walk(recv)):
                    continue
                covered = False
                n = c
                while n in parents and n is not fn:
                    par = parents[n]
                    if isinstance(par, ast.Try) and any(n is b or any(n is x for x in ast.walk(b)) for b in par.body):
                        for h in par.handlers:
                            names = [unparse(e) for e in (h.type.elts if isinstance(h.type, ast.Tuple) else [h.type])] if h.type is not None else ["BaseException"]
                            if any(x.split(".")[-1] in _OSERROR_COVER for x in names):
                                covered = True
                    n = par
                ctx.touched(dotted, m.relpath)
                label = "{}@{}".format(unparse(c)[:50], c.lineno)
                if covered:
                    rr.ok(dotted, label + " under an OSError handler", {"fn": dotted, "probe": unparse(c)[:60]})
                else:
                    f = Finding("C05.R13", m.relpath, dotted, unparse(c)[:70],
                                "this file-system call is made on a path that depends on a parameter ({}) and no enclosing handler covers OSError: "
                                "a name the file system refuses (too long, ...) leaves expand() as an exception".format(
                                    ", ".join(sorted(x.id for x in ast.walk(recv) if isinstance(x, ast.Name) and x.id in dep))), c.lineno)
                    if getattr(ctx, "_c05_in_scope", lambda d: True)(dotted):
                        rr.bad(f)
                    else:
                        rr.informational.append({"outside_scope": dotted, "probe": unparse(c)[:60]})
    return rr


_OPTIONAL_RESULT_METHODS = {"utcoffset", "dst", "tzname"}   # datetime: None for a naive value


def rule_r14(ctx) -> RuleResult:
    """`datetime.utcoffset()`, `.dst()` and `.tzname()` return None for a naive datetime, and #time's parser produces naive values
    for `@<unix time>` with the local flag and for 14-digit MediaWiki timestamps.  An attribute of that result may be taken only
    where the same call has been tested (`X is None`, truthiness, in the test of the enclosing conditional or an earlier
    conjunct); otherwise AttributeError leaves expand() (seed C05-9A: `"Z": lambda ctx, t: int(t.utcoffset().total_seconds())`)."""
    rr = RuleResult("C05.R14", "the Optional results of datetime.utcoffset()/dst()/tzname() are dereferenced only after a None test", min_instances=2)
    m = ctx.index.mod("parserfns")
    parents = m.parents
    for n in ast.walk(m.tree):
        if not (isinstance(n, ast.Attribute) and isinstance(n.value, ast.Call) and isinstance(n.value.func, ast.Attribute)
                and n.value.func.attr in _OPTIONAL_RESULT_METHODS and not n.value.args):
            continue
        call_txt = unparse(n.value)
        guarded = False
        cur = n
        while cur in parents:
            par = parents[cur]
            if isinstance(par, ast.IfExp) and cur is not par.test and call_txt in unparse(par.test):
                guarded = True
            if isinstance(par, ast.If) and cur is not par.test and call_txt in unparse(par.test):
                guarded = True
            if isinstance(par, ast.BoolOp) and isinstance(par.op, ast.And):
                idx = [i for i, v in enumerate(par.values) if v is cur or any(x is cur for x in ast.walk(v))]
                if idx and any(call_txt in unparse(v) for v in par.values[:idx[0]]):
                    guarded = True
            if isinstance(par, (ast.FunctionDef, ast.Lambda)) and not isinstance(par, ast.Lambda):
                break
            cur = par
        label = "{}.{}".format(call_txt, n.attr)
        if guarded:
            rr.ok("parserfns", label + " under a test of " + call_txt, {"site": label, "line": n.lineno})
        else:
            rr.bad(Finding("C05.R14", m.relpath, "parserfns.time_fmt_map", label, "`{}` is None for a naive datetime (#timel with `@<unix time>`, 14-digit timestamps) and `.{}` is taken "
                           "without a test: AttributeError leaves expand()".format(call_txt, n.attr), n.lineno))
    return rr


def run(ctx) -> list:
    cg = CallGraph(ctx.index)
    sf = SqlFacts(ctx.index)
    scope = _scope(ctx, cg)
    results = [rule_r1(ctx, cg), rule_r2(ctx, cg, scope), rule_r3(ctx), rule_r4(ctx, cg, scope), rule_r5(ctx, cg, sf),
            rule_r6(ctx), rule_r7(ctx, cg), rule_r8(ctx, cg), rule_r9(ctx), rule_r10(ctx), rule_r11(ctx), rule_r12(ctx), rule_r13(ctx, cg, scope), rule_r14(ctx)]
    if ctx.thorough:
        from ..core.cgcheck import crosscheck

        results.append(crosscheck(ctx, cg, "C05.CG"))
    return results
