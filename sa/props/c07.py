"""C07 -- every Lua invocation is stopped by its time limit and the context stays usable.

Static analysis cannot bound wall time; it decides whether a program *can
defeat* the mechanism (a capability question) and whether the mechanism is
armed on every path.

R1  the hook cannot be removed or re-armed by a module: functions whose body
    calls debug.sethook are not reachable from the module environment.
R2  the timeout error cannot be swallowed: every error-catching primitive
    reachable from the environment (pcall, xpcall, coroutine.* through the
    retained module cache) is a sandbox wrapper that re-raises the marker.
R3  the limit is armed around the call: in _lua_invoke, _lua_set_timeout(timeout)
    is an unconditional statement that precedes both pcall sites.
R4  Python side: the error text is tested for the same marker string the hook
    raises; env/frame stacks are popped after the call on every path; the
    expansion path is restored in `finally`.
R5  arming is unconditional and bounded: every path through _lua_set_timeout
    installs a hook with a fresh start time; the limit is the caller's value
    only under a test bounding it by the maximum, else the maximum; the hook
    raises the marker when the deadline has passed.
"""

from __future__ import annotations

import ast

from ..core import lua as L
from ..core.index import unparse, walk_no_nested
from ..core.report import AnalysisError, Finding, RuleResult
from . import c06

EXPLANATION = (
    "Capability reachability on the parsed sandbox sources: which functions can change the debug hook "
    "and which error-catching primitives a module can obtain; a must-pass-through walk over the Lua "
    "AST of _lua_set_timeout and _lua_invoke shows the hook is installed on every path before module "
    "code runs; the marker string raised by the hook is compared with the one luaexec.py tests for; "
    "the Python call site is checked for the pops and the restore that keep the context usable after "
    "an error. The numeric overshoot bound is wall time and is not decided."
)
ASSUMPTIONS = [
    "the timeout is delivered by error() from a count hook (as in the shipped sources); an error raised inside pcall/xpcall/coroutine.resume is caught there",
    "Lua 5.1 semantics of debug.sethook, pcall, xpcall, coroutine.resume/wrap",
]
P1 = "src/wikitextprocessor/lua/_sandbox_phase1.lua"
P2 = "src/wikitextprocessor/lua/_sandbox_phase2.lua"
LX = "src/wikitextprocessor/luaexec.py"
CATCHERS = {"pcall", "xpcall"}


def _calls_path(p1, fn, path: str) -> list:
    out = []
    for c in L.calls_in(fn):
        if c.kind == "call":
            o = L.origin_of(p1, c.func)
            if o.kind == "global" and o.path == path:
                out.append(c)
    return out


def rule_r1(ctx) -> RuleResult:
    rr = RuleResult("C07.R1", "modules cannot remove or re-arm the timeout hook", min_instances=10)
    p1 = ctx.lua.file("_sandbox_phase1.lua")
    fn, assigns = c06._env_assignments(p1)
    n = 0
    for k, v, node in assigns:
        o = L.origin_of(p1, v)
        fns = []
        if o.kind == "function":
            fns.append((k, o.node))
        elif o.kind == "table":
            for fk, fo, fv in c06._table_field_origins(p1, o.node):
                if fo.kind == "function":
                    fns.append((k + "." + fk, fo.node))
        elif o.kind == "global" and o.path == "debug.sethook":
            rr.bad(Finding("C07.R1", P1, "env." + k, "env[{!r}] = debug.sethook".format(k), "debug.sethook itself is exposed", node.line))
        for key, f in fns:
            n += 1
            hooks = _calls_path(p1, f, "debug.sethook")
            # the reset function only *defines*/forwards; count direct calls in the function's own body (not nested defs of other exposed fns)
            if hooks and (f.name or key) != "_lua_reset_env":
                rr.bad(Finding("C07.R1", P1, "env." + key, "{} calls debug.sethook".format(f.name or key),
                               "a function that installs or clears the debug hook is callable from page modules: `{}()` {} the time limit".format(
                                   key, "removes" if not hooks[0].args else "re-arms (restarts the clock of)"), f.line))
            else:
                rr.ok("env." + key, "does not touch the debug hook")
    rr.instances["exposed_functions_examined"] = n
    return rr


def _is_marker_wrapper(p1, f, marker: str) -> bool:
    """wrapper shape: calls the original catcher, compares the message with the marker, re-raises with error()"""
    calls_orig = any(L.origin_of(p1, c.func).kind == "global" and L.origin_of(p1, c.func).path in CATCHERS for c in L.calls_in(f) if c.kind == "call")
    mentions = any(n.kind == "string" and marker in n.value for n in L.walk(f))
    reraises = bool(_calls_path(p1, f, "error"))
    return calls_orig and mentions and reraises


def rule_r2(ctx, marker: str) -> RuleResult:
    rr = RuleResult("C07.R2", "error-catching primitives reachable from modules re-raise the timeout", min_instances=2)
    p1 = ctx.lua.file("_sandbox_phase1.lua")
    fn, assigns = c06._env_assignments(p1)
    for k, v, node in assigns:
        o = L.origin_of(p1, v)
        if o.kind == "global" and o.path in CATCHERS:
            rr.bad(Finding("C07.R2", P1, "env." + k, "env[{!r}] = {}".format(k, o.path),
                           "the host {} is exposed: `while true do {}(loop) end` catches the 'Lua timeout error' raised by the hook and keeps "
                           "running past the limit".format(o.path, k), node.line))
        elif k in CATCHERS and o.kind == "function":
            if _is_marker_wrapper(p1, o.node, marker):
                rr.ok("env." + k, "wrapper re-raises the timeout marker", {"key": k})
            else:
                rr.bad(Finding("C07.R2", P1, "env." + k, "env[{!r}] = <function>".format(k), "wrapper does not re-raise the timeout marker", node.line))
    # coroutine library through the module cache
    retained = c06._retained_names(p1)
    cm = p1.func_named("_cached_mod")
    reads_host = cm is not None and any(n.kind == "index" and L.origin_of(p1, n.obj).kind == "global" and L.origin_of(p1, n.obj).path == "package.loaded"
                                        for n in L.walk(cm))
    if "coroutine" in retained and reads_host:
        rr.bad(Finding("C07.R2", P1, "retained_modules", "retained_modules.coroutine = true",
                       "require('coroutine') returns the host coroutine library: debug hooks are per coroutine in Lua 5.1, so a loop running inside "
                       "coroutine.create/wrap is never interrupted, and coroutine.resume also catches errors raised inside it", 0))
    else:
        rr.ok("require", "coroutine library not obtainable through require")
    return rr


def _top_level_call_index(fn, name: str):
    for i, st in enumerate(fn.body):
        if st.kind == "callstat" and st.call.kind == "call" and L.text(st.call.func) == name:
            return i
    return None


def _protected_callers(lf) -> set:
    """names of the functions defined in the file whose body, or the body of a file function they call, calls pcall / xpcall"""
    bodies = {}
    for n in L.walk(lf.chunk):
        if n.kind == "localfunction":
            bodies[n.name] = n.func
        elif n.kind == "function" and getattr(n, "name", None):
            bodies.setdefault(n.name, n)
    direct = {}
    for name, f in bodies.items():
        direct[name] = {L.text(c.func) for c in L.calls_in(f) if c.kind == "call"}
    out = set()
    changed = True
    while changed:
        changed = False
        for name, calls in direct.items():
            if name not in out and (calls & {"pcall", "xpcall"} or calls & out):
                out.add(name)
                changed = True
    out.discard("_lua_invoke")
    return out


def _toplevel_guard_locals(p2, inv) -> dict:
    """locals of _lua_invoke that record, BEFORE the invocation's own environment is pushed, whether an enclosing invocation
    exists: {name: True if the local is true for a nested invocation, False if it is true for a top-level one}.  Recognised:
    `local nested = _python_top_env() ~= nil` / `local top = _python_top_env() == nil` / `local outer = _python_top_env()`"""
    out = {}
    push_line = None
    for st in inv.body:
        if st.kind == "callstat" and L.text(st.call.func) == "_python_append_env":
            push_line = st.line
            break
    for st in inv.body:
        if st.kind != "local" or len(st.names) != 1 or not st.exprs:
            continue
        if push_line is not None and st.line > push_line:
            continue
        e = st.exprs[0]
        while e.kind == "paren":
            e = e.expr
        if e.kind == "call" and L.text(e.func) == "_python_top_env" and not e.args:
            out[st.names[0]] = True   # truthy iff an enclosing environment exists
        elif e.kind == "binop" and e.op in ("~=", "==") and {e.left.kind, e.right.kind} == {"call", "nil"}:
            c = e.left if e.left.kind == "call" else e.right
            if L.text(c.func) == "_python_top_env" and not c.args:
                out[st.names[0]] = (e.op == "~=")
    return out


def _only_when_top_level(cond, guards: dict) -> bool:
    """does the if-condition hold only for a top-level invocation?  (`not nested`, `top`, `nested == false`, `outer == nil`)"""
    while cond.kind == "paren":
        cond = cond.expr
    if cond.kind == "unop" and cond.op == "not" and cond.operand.kind == "name":
        return guards.get(cond.operand.id) is True
    if cond.kind == "name":
        return guards.get(cond.id) is False
    if cond.kind == "binop" and cond.op == "==" and cond.left.kind == "name" and cond.right.kind in ("nil", "false"):
        return guards.get(cond.left.id) is True
    if cond.kind == "binop" and cond.op == "and":
        return _only_when_top_level(cond.left, guards) or _only_when_top_level(cond.right, guards)
    return False


def _guarded_calls(inv, name: str, guards: dict) -> list:
    """[(call statement, unconditional?, only-when-top-level?)] for the statements `name(...)` of _lua_invoke"""
    out = []

    def rec(stmts, conds):
        for st in stmts:
            if st.kind == "callstat" and st.call.kind == "call" and L.text(st.call.func) == name:
                out.append((st, not conds, any(_only_when_top_level(c, guards) for c in conds if c is not None)))
            elif st.kind == "if":
                for i, (cnd, body) in enumerate(st.clauses):
                    rec(body, conds + ([cnd] if i == 0 else [cnd, None]))
                if st.orelse is not None:
                    rec(st.orelse, conds + [None])
            elif st.kind in ("do", "while", "repeat", "fornum", "forin"):
                rec(getattr(st, "body", []), conds + [None])

    def clean(conds):
        return [c for c in conds if c is not None]

    rec(inv.body, [])
    return [(st, unc, top) for st, unc, top in out]


def rule_r8(ctx) -> RuleResult:
    """_lua_invoke is re-entrant: frame:preprocess / expandTemplate / callParserFunction / extensionTag re-enter the expander,
    which runs {{#invoke:}} inside the running invocation.  There is ONE debug hook per Lua state, so what the nested
    invocation does to it is what the enclosing one is left with: removing the hook on return leaves the rest of the outer
    function without any time limit, re-arming it restarts the clock (a loop that invokes something before every deadline never
    ends).  Decided: every statement of _lua_invoke that sets or clears the hook is executed for a top-level invocation only
    (guarded by a local computed from _python_top_env() before the invocation's own environment is pushed)."""
    rr = RuleResult("C07.R8", "a nested invocation neither removes nor restarts the time limit of the enclosing one", min_instances=2)
    p2 = ctx.lua.file("_sandbox_phase2.lua")
    inv = p2.func_named("_lua_invoke")
    if inv is None:
        raise AnalysisError("_lua_invoke vanished")
    # re-entrancy is a fact of the Python bridge: a callback handed to Lua reaches call_lua_sandbox again
    from ..core.callgraph import CallGraph
    cg = CallGraph(ctx.index)
    callbacks = [e for e in cg.edges.get("luaexec.call_lua_sandbox", ()) if e.startswith("luaexec.call_lua_sandbox.make_frame.")]
    reentrant = any("luaexec.call_lua_sandbox" in cg.closure([cb]) for cb in callbacks)
    rr.instances["frame_callbacks_reaching_call_lua_sandbox"] = sorted(cb.split(".")[-1] for cb in callbacks if "luaexec.call_lua_sandbox" in cg.closure([cb]))
    rr.instances["reentrant_through_frame_callbacks"] = bool(reentrant)
    if not reentrant:
        rr.ok("_lua_invoke", "not re-entrant: no callback handed to Lua reaches call_lua_sandbox")
        return rr
    guards = _toplevel_guard_locals(p2, inv)
    sites = [("_lua_clear_timeout_hook", "removes"), ("_lua_set_timeout", "restarts")]
    n = 0
    for name, verb in sites:
        for st, unconditional, top_only in _guarded_calls(inv, name, guards):
            n += 1
            if top_only:
                rr.ok("_lua_invoke", "{}(...) only for a top-level invocation".format(name))
            else:
                rr.bad(Finding("C07.R8", P2, "_lua_invoke", L.text(st.call),
                               "an #invoke made from inside a running invocation (frame:preprocess('{{{{#invoke:...}}}}') and the other frame "
                               "methods) {} the one debug hook of the Lua state: the enclosing function {}".format(
                                   verb, "continues without any time limit" if verb == "removes" else "gets a fresh time budget after every nested call"),
                               st.line))
    if n == 0:
        raise AnalysisError("_lua_invoke: no statement sets or clears the timeout hook (2 confirmed by hand)")
    return rr


def rule_r3(ctx) -> RuleResult:
    rr = RuleResult("C07.R3", "the time limit is armed before any module code runs", min_instances=3)
    p2 = ctx.lua.file("_sandbox_phase2.lua")
    inv = p2.func_named("_lua_invoke")
    if inv is None:
        raise AnalysisError("_lua_invoke vanished")
    idx = _top_level_call_index(inv, "_lua_set_timeout")
    if idx is None:
        # `if not nested then _lua_set_timeout(timeout) end`: a nested invocation runs under the hook armed by the outermost one (R8)
        guards = _toplevel_guard_locals(p2, inv)
        for i, st in enumerate(inv.body):
            if st.kind == "if" and len(st.clauses) == 1 and st.orelse is None and _only_when_top_level(st.clauses[0][0], guards) \
                    and len(st.clauses[0][1]) == 1 and st.clauses[0][1][0].kind == "callstat" \
                    and L.text(st.clauses[0][1][0].call.func) == "_lua_set_timeout":
                idx = i
                inv = type(inv)("function", inv.line, params=inv.params, vararg=getattr(inv, "vararg", False),
                                body=inv.body[:i] + [st.clauses[0][1][0]] + inv.body[i + 1:], name=getattr(inv, "name", None))
                rr.informational.append({"arming": "guarded by a top-level test; nested invocations keep the enclosing hook"})
                break
    if idx is None:
        rr.bad(Finding("C07.R3", P2, "_lua_invoke", "_lua_set_timeout(timeout)",
                       "the hook is not armed by an unconditional top-level statement of _lua_invoke", inv.line))
        return rr
    arm = inv.body[idx]
    if [L.text(a) for a in arm.call.args] == ["timeout"]:
        rr.ok("_lua_invoke", "_lua_set_timeout(timeout) with the caller's limit", {"line": arm.line})
    else:
        rr.bad(Finding("C07.R3", P2, "_lua_invoke", L.text(arm.call), "the hook is not armed with the invocation's timeout argument", arm.line))
    # module code is run by pcall/xpcall here, or by a helper function of this file that (transitively) contains such a call
    runners = _protected_callers(p2)
    pcs = [c for c in L.calls_in(inv) if c.kind == "call" and (L.text(c.func) in ("pcall", "xpcall") or L.text(c.func) in runners)]
    if len(pcs) < 2:
        raise AnalysisError("_lua_invoke: fewer than 2 sites that run module code (2 confirmed by hand: the module's initialisation chunk, "
                            "the invoked function)")
    for c in pcs:
        if c.line > arm.line:
            rr.ok("_lua_invoke", "{} after arming".format(L.text(c)), {"call": L.text(c), "line": c.line})
        else:
            rr.bad(Finding("C07.R3", P2, "_lua_invoke", L.text(c), "module code is run before the time limit is armed", c.line))
    # returns before arming would skip it; there must be none that run module code (none at all before it)
    early = [st for st in inv.body[:idx] if st.kind in ("return",) or (st.kind == "if")]
    if not any(n.kind == "return" for st in inv.body[:idx] for n in L.walk(st)):
        rr.ok("_lua_invoke", "no exit before arming")
    return rr


def _lua_prefixes_error(ctx) -> str:
    """'' or a description of the return statement of _lua_invoke that concatenates a caught error behind a constant prefix"""
    p2 = ctx.lua.file("_sandbox_phase2.lua")
    inv = p2.func_named("_lua_invoke")
    if inv is None:
        raise AnalysisError("_lua_invoke vanished from _sandbox_phase2.lua")
    caught = set()
    for n in L.walk(inv):
        if n.kind in ("assign", "local"):
            exprs = getattr(n, "exprs", None) or []
            if len(exprs) == 1 and exprs[0].kind == "call" and L.text(exprs[0].func) in ("pcall", "xpcall"):
                tg = n.targets if n.kind == "assign" else n.names
                if len(tg) >= 2:
                    t = tg[1]
                    caught.add(t if isinstance(t, str) else L.text(t))
    for n in L.walk(inv):
        if n.kind == "return" and len(n.exprs) == 2:
            e = n.exprs[1]
            while e.kind == "paren":
                e = e.expr
            leaves = []

            def flat(x):
                while x.kind == "paren":
                    x = x.expr
                if x.kind == "binop" and x.op == "..":
                    flat(x.left)
                    flat(x.right)
                else:
                    leaves.append(x)
            flat(e)
            if len(leaves) >= 2 and leaves[0].kind == "string":
                for lf in leaves[1:]:
                    names = {L.text(x) for x in L.walk(lf) if x.kind == "name"}
                    if names & caught:
                        return "_lua_invoke (line {}: {!r} .. ... .. {})".format(n.line, leaves[0].value[:30], L.text(lf))
    return ""


def _truncating_assignments(fn, subject, before_line) -> str:
    """'' or the text of an assignment before `before_line` that makes `subject` a part of a string (split / slice / sub /
    partition / splitlines of something; trimming white space at the ends loses nothing)"""
    if not isinstance(subject, ast.Name):
        return ""
    for n in walk_no_nested(fn):
        if isinstance(n, ast.Assign) and n.lineno < before_line and any(isinstance(t, ast.Name) and t.id == subject.id for t in n.targets):
            for c in ast.walk(n.value):
                if isinstance(c, ast.Call) and isinstance(c.func, ast.Attribute) and c.func.attr in (
                        "split", "rsplit", "splitlines", "partition", "rpartition", "sub", "removeprefix", "removesuffix"):
                    return unparse(n)[:70]
                if isinstance(c, ast.Subscript) and isinstance(c.slice, ast.Slice):
                    return unparse(n)[:70]
    return ""


def rule_r4(ctx, marker: str) -> RuleResult:
    rr = RuleResult("C07.R4", "the Python side recognises the timeout and leaves the context usable", min_instances=4)
    fn = ctx.fn("luaexec.call_lua_sandbox")
    # where does Python probe the error text for the timeout marker?  `<const> in text` / `<const> not in text` as the test of
    # an `if` or of a conditional expression; the arm taken when the probe succeeds must produce the in-band element's text
    probes = []
    for n in walk_no_nested(fn):
        if isinstance(n, (ast.If, ast.IfExp)) and isinstance(n.test, ast.Compare) and len(n.test.ops) == 1 \
                and isinstance(n.test.ops[0], (ast.In, ast.NotIn)) and isinstance(n.test.left, ast.Constant) \
                and isinstance(n.test.left.value, str) and "timeout" in n.test.left.value.lower():
            pos = isinstance(n.test.ops[0], ast.In)
            arm = (n.body if pos else n.orelse)
            probes.append((n.test.left.value, n, arm if isinstance(arm, list) else [arm]))
    # position-dependent probes (startswith / == / slices of the text): wrong as soon as the Lua side can hand the
    # marker over behind a prefix, which _lua_invoke does for errors raised while the module is loading
    # (`return false, "\tLoading module failed ..." .. tostring(<pcall error>)`)
    prefixed = _lua_prefixes_error(ctx)
    for n in walk_no_nested(fn):
        c = None
        if isinstance(n, ast.Call) and isinstance(n.func, ast.Attribute) and n.func.attr in ("startswith", "endswith") and n.args:
            c = n.args[0]
        elif isinstance(n, ast.Compare) and len(n.ops) == 1 and isinstance(n.ops[0], (ast.Eq, ast.NotEq)):
            c = n.comparators[0] if isinstance(n.comparators[0], ast.Constant) else n.left
        if isinstance(c, ast.Constant) and isinstance(c.value, str) and "timeout" in c.value.lower() and prefixed:
            rr.bad(Finding("C07.R4", LX, "luaexec.call_lua_sandbox", unparse(n)[:80],
                           "the timeout marker is looked for at a fixed position of the error text, but {} hands it over behind a "
                           "prefix: such a timeout is reported as a generic Lua error".format(prefixed), n.lineno))
    for probe, node, arm in list(probes):
        subject = node.test.comparators[0]
        cut = _truncating_assignments(fn, subject, node.lineno)
        if cut and prefixed:
            rr.bad(Finding("C07.R4", LX, "luaexec.call_lua_sandbox", unparse(node.test),
                           "the timeout marker is looked for in `{}`, which holds only part of the error text ({}), but {} hands the "
                           "marker over behind a prefix / on a later line".format(unparse(subject), cut, prefixed), node.lineno))
            probes.remove((probe, node, arm))
    other = [c.value for c in walk_no_nested(fn) if isinstance(c, ast.Constant) and isinstance(c.value, str) and "timeout error" in c.value.lower()]
    if rr.findings:
        other = []
    if not probes and other:
        raise AnalysisError("call_lua_sandbox: a timeout message {!r} exists but the probe of the error text was not recognised "
                            "(known: `<marker> in text` as an if / conditional-expression test)".format(other[0]))
    if not probes and not rr.findings:
        rr.bad(Finding("C07.R4", LX, "luaexec.call_lua_sandbox", "marker test []",
                       "Python looks for nothing but the hook raises {!r}: a timeout is reported as a generic Lua error".format(marker), fn.lineno))
    for probe, node, arm in probes:
        if probe not in marker:
            rr.bad(Finding("C07.R4", LX, "luaexec.call_lua_sandbox", "marker test [{!r}]".format(probe),
                           "Python looks for {!r} but the hook raises {!r}: a timeout is reported as a generic Lua error".format(probe, marker), node.lineno))
            continue
        arm_consts = [c.value for a_ in arm for c in ast.walk(a_) if isinstance(c, ast.Constant) and isinstance(c.value, str)]
        if any("Lua timeout error" in c for c in arm_consts):
            rr.ok("luaexec.call_lua_sandbox", "tests `{!r} in text` and reports it in-band".format(probe), {"marker": marker, "probe": probe})
        else:
            rr.bad(Finding("C07.R4", LX, "luaexec.call_lua_sandbox", "; ".join(unparse(a_) for a_ in arm)[:80],
                           "the in-band message for a timeout changed (the arm taken when the marker is found no longer produces "
                           "'Lua timeout error')", node.lineno))
    # stacks popped after the try on every path
    trys = [n for n in fn.body if isinstance(n, ast.Try)]
    from . import _expand as X_
    ke, _ne = X_.lua_stack_cleanup(fn, "lua_env_stack")
    kf, _nf = X_.lua_stack_cleanup(fn, "lua_frame_stack")
    if trys and ke is not None and kf is not None:
        rr.ok("luaexec.call_lua_sandbox", "environment and frame stacks are popped after the call on every path")
    else:
        rr.bad(Finding("C07.R4", LX, "luaexec.call_lua_sandbox", "lua_env_stack.pop() / lua_frame_stack.pop() after the try",
                       "after a Lua error that propagates as an exception the per-invocation environment/frame stay on their stacks: the next "
                       "invocation runs in the stale environment and mw.getCurrentFrame() returns the failed call's frame", fn.lineno))
    # the frame is pushed inside the try (so that the pops above are balanced even when lua_invoke raises)
    if trys and any("lua_frame_stack.append(frame)" in unparse(s) for s in trys[-1].body):
        rr.ok("luaexec.call_lua_sandbox", "frame pushed inside the try")
    else:
        rr.bad(Finding("C07.R4", LX, "luaexec.call_lua_sandbox", "ctx.lua_frame_stack.append(frame)", "frame push moved out of the try", fn.lineno))
    # catches LuaError and restores the path in finally
    t = trys[-1] if trys else None
    if t is not None and any("LuaError" in unparse(h.type) for h in t.handlers if h.type is not None) and "expand_stack.pop()" in unparse(ast.Module(body=t.finalbody, type_ignores=[])):
        rr.ok("luaexec.call_lua_sandbox", "except lupa.LuaError + finally restores expand_stack")
    else:
        rr.bad(Finding("C07.R4", LX, "luaexec.call_lua_sandbox", "except lupa.LuaError / finally", "Lua errors are no longer caught and the path restored", fn.lineno))
    return rr


def _definitely_calls(stmts, pred) -> bool:
    """every path through the statement list that falls off its end or returns has executed a call satisfying pred"""
    for st in stmts:
        if st.kind == "return":
            return any(pred(c) for e in st.exprs for c in L.walk(e) if c.kind in ("call", "methcall"))
        if st.kind in ("callstat", "local", "assign"):
            if any(pred(c) for c in L.walk(st) if c.kind in ("call", "methcall") and not _inside_function(st, c)):
                return True
        elif st.kind == "do":
            if _definitely_calls(st.body, pred):
                return True
        elif st.kind == "if":
            branches = [b for _, b in st.clauses] + ([st.orelse] if st.orelse is not None else [[]])
            res = [_definitely_calls(b, pred) for b in branches]
            if all(res):
                return True
            # a branch that returns without the call makes the whole thing fail
            for b, r in zip(branches, res):
                if not r and any(s.kind == "return" for s in b):
                    return False
    return False


def _inside_function(st, c) -> bool:
    for f in L.walk(st):
        if f.kind == "function" and any(x is c for x in L.walk(f)):
            return True
    return False


def rule_r5(ctx, marker: str) -> RuleResult:
    rr = RuleResult("C07.R5", "arming is unconditional, fresh and bounded", min_instances=4)
    p1 = ctx.lua.file("_sandbox_phase1.lua")
    st = p1.func_named("_lua_set_timeout")
    if st is None:
        raise AnalysisError("_lua_set_timeout vanished")

    def is_sethook_with_fn(c):
        return c.kind == "call" and L.origin_of(p1, c.func).kind == "global" and L.origin_of(p1, c.func).path == "debug.sethook" \
            and c.args and c.args[0].kind == "function"

    if _definitely_calls(st.body, is_sethook_with_fn):
        rr.ok("_lua_set_timeout", "every path installs a hook", {"fn": "_lua_set_timeout"})
    else:
        rr.bad(Finding("C07.R5", P1, "_lua_set_timeout", "debug.sethook(function() ... end, '', N)",
                       "some path through _lua_set_timeout returns without installing a fresh hook (for instance when a deadline is already "
                       "set): a later invocation runs against a stale deadline or none", st.line))
    hooks = [c for c in L.calls_in(st) if is_sethook_with_fn(c)]
    if not hooks:
        return rr
    hook = hooks[0].args[0]
    # the comparison inside the hook
    cmp_ = [n for n in L.walk(hook) if n.kind == "binop" and n.op in (">", ">=") and "os.time" in L.text(n.left)]
    fresh = False
    uses_limit = False
    if cmp_:
        rhs = cmp_[0].right
        names = [n for n in L.walk(rhs) if n.kind == "name"]
        for nm in names:
            d = p1.res.ref.get(nm)
            if d is not None and d.func is st and d.value is not None and "os.time" in L.text(d.value) and not d.assigned_later:
                fresh = True
            if nm.id == "_lua_current_max_time":
                uses_limit = True
    if fresh and uses_limit:
        rr.ok("_lua_set_timeout", "hook compares os.time() with a start time taken in this call + the current limit")
    else:
        rr.bad(Finding("C07.R5", P1, "_lua_set_timeout", L.text(cmp_[0]) if cmp_ else "hook comparison",
                       "the deadline is not `start time taken by this call` + `_lua_current_max_time`: a stale or shared deadline is used", hook.line))
    errs = [c for c in L.calls_in(hook) if c.kind == "call" and L.text(c.func) == "error" and c.args and L.const_string(c.args[0]) == marker]
    if errs:
        rr.ok("_lua_set_timeout", "hook raises {!r}".format(marker))
    else:
        rr.bad(Finding("C07.R5", P1, "_lua_set_timeout", "error(<marker>)", "the hook does not raise the timeout marker", hook.line))
    # the limit: every value that can be stored in _lua_current_max_time is the maximum itself, or the caller's value on a
    # path / in an and-or arm whose condition bounds it by the maximum
    params = set(st.params) if hasattr(st, "params") else {"timeout"}

    def conj(e) -> list:
        while e.kind == "paren":
            e = e.expr
        if e.kind == "binop" and e.op == "and":
            return conj(e.left) + conj(e.right)
        return [e]

    def bounds(c, name: str) -> bool:
        while c.kind == "paren":
            c = c.expr
        if c.kind != "binop":
            return False
        l, r = L.text(c.left), L.text(c.right)
        return (c.op in ("<", "<=") and l == name and r == "_lua_max_time") or (c.op in (">", ">=") and r == name and l == "_lua_max_time")

    def results(e, guards: list) -> list:
        """[(value expr, guards)] of the and/or expression e"""
        while e.kind == "paren":
            e = e.expr
        if e.kind == "binop" and e.op == "or":
            return results(e.left, guards) + results(e.right, guards)
        if e.kind == "binop" and e.op == "and":
            return results(e.right, guards + conj(e.left))
        return [(e, guards)]

    def path_guards(target) -> list:
        out = []

        def rec(stmts, gs) -> bool:
            for x in stmts:
                if x is target:
                    out.extend(gs)
                    return True
                if x.kind == "if":
                    for i, (cnd, body) in enumerate(x.clauses):
                        if rec(body, gs + (conj(cnd) if i == 0 else [])):  # an elseif arm also carries negations: not used
                            return True
                    if x.orelse is not None and rec(x.orelse, gs):
                        return True
                elif x.kind in ("do", "while", "repeat", "fornum", "forin") and rec(getattr(x, "body", []), gs):
                    return True
            return False
        rec(st.body, [])
        return out

    assigns = [n for n in L.walk(st) if n.kind == "assign" and any(L.text(t) == "_lua_current_max_time" for t in n.targets)]
    unbounded, unknown = [], []
    for a in assigns:
        if len(a.exprs) != len(a.targets):
            unknown.append(L.text(a))
            continue
        e = a.exprs[[L.text(t) for t in a.targets].index("_lua_current_max_time")]
        for val, gs in results(e, path_guards(a)):
            v = L.text(val)
            if v == "_lua_max_time":
                continue
            if val.kind == "name" and val.id in params:
                if not any(bounds(g, val.id) for g in gs):
                    unbounded.append((a, v))
                continue
            if val.kind == "call" and L.text(val.func) == "math.min" and any(L.text(x) == "_lua_max_time" for x in val.args):
                continue
            unknown.append(v)
    if unbounded:
        rr.bad(Finding("C07.R5", P1, "_lua_set_timeout", "_lua_current_max_time = ...",
                       "the limit can be set above the maximum by the caller (`{}` is stored without a test bounding it by "
                       "_lua_max_time)".format(unbounded[0][1]), unbounded[0][0].line))
    elif not assigns or not _definitely_assigns(st.body, "_lua_current_max_time"):
        rr.bad(Finding("C07.R5", P1, "_lua_set_timeout", "_lua_current_max_time = ...",
                       "the limit is not set on every path through _lua_set_timeout: an invocation runs against the previous one's limit", st.line))
    elif unknown:
        raise AnalysisError("_lua_set_timeout: value `{}` stored in _lua_current_max_time is not a recognised shape (the maximum, a bounded "
                            "parameter, math.min(.., _lua_max_time))".format(unknown[0][:60]))
    else:
        rr.ok("_lua_set_timeout", "limit = caller's value only when below the maximum, else the maximum")
    return rr


def _definitely_assigns(stmts, name: str) -> bool:
    for st in stmts:
        if st.kind == "assign" and any(L.text(t) == name for t in st.targets):
            return True
        if st.kind == "if":
            branches = [b for _, b in st.clauses] + ([st.orelse] if st.orelse is not None else [[]])
            if all(_definitely_assigns(b, name) for b in branches):
                return True
        if st.kind == "return":
            return False
    return False


def _marker(ctx) -> str:
    p1 = ctx.lua.file("_sandbox_phase1.lua")
    st = p1.func_named("_lua_set_timeout")
    if st is None:
        raise AnalysisError("_lua_set_timeout vanished")
    for c in L.calls_in(st):
        if c.kind == "call" and L.text(c.func) == "error" and c.args and L.const_string(c.args[0]):
            return L.const_string(c.args[0])
    raise AnalysisError("_lua_set_timeout: the hook's error(...) marker was not found")


def rule_r6(ctx) -> RuleResult:
    """An invocation cut short by the time limit leaves nothing behind in the module
    cache: `_save_mod` is only ever called with the value *returned* by a module's
    initialisation chunk, after that chunk has run.  (A placeholder stored before the
    chunk runs survives a timeout for the retained modules and breaks every later
    require of that module on the same context.)"""
    rr = RuleResult("C07.R6", "the module cache receives only results of completed initialisation chunks", min_instances=1)
    for fname in ("_sandbox_phase1.lua", "_sandbox_phase2.lua"):
        lf = ctx.lua.file(fname)
        for c in L.calls_in(lf.chunk):
            if c.kind != "call" or L.text(c.func) != "_save_mod" or len(c.args) != 2:
                continue
            v = c.args[1]
            owner = lf.res.func_of.get(c)
            where = "{}:{}".format(fname, getattr(owner, "name", None) or "line {}".format(c.line))
            d = lf.res.ref.get(v) if v.kind == "name" else None
            srcs = []
            if d is not None and d.kind == "local":
                if d.value is not None:
                    srcs.append((d.value, d.node))
                elif d.node.kind == "local" and d.node.exprs and d.node.exprs[-1].kind in ("call", "methcall"):
                    srcs.append((d.node.exprs[-1], d.node))
                for val, st, _fn in d.assigned_later:
                    if val is None and st.exprs and st.exprs[-1].kind in ("call", "methcall"):
                        val = st.exprs[-1]
                    srcs.append((val, st))
            call_srcs = [(e, st) for e, st in srcs if e is not None and e.kind in ("call", "methcall")]
            other = [(e, st) for e, st in srcs if e is None or e.kind not in ("call", "methcall", "nil")]
            if d is None or other or not call_srcs or min(st.line for _, st in call_srcs) > c.line:
                rr.bad(Finding("C07.R6", "src/wikitextprocessor/lua/" + fname, where, L.text(c),
                               "the module cache is written with a value that is not the result of the module's completed initialisation "
                               "chunk; a timeout during initialisation leaves it behind for every later invocation", c.line))
            else:
                rr.ok(where, L.text(c), {"file": fname, "call": L.text(c), "value_from": [L.text(e) for e, _ in call_srcs]})
    return rr


def rule_r7(ctx) -> RuleResult:
    """The limit an invocation runs under is the one given to *this* expand() call: the value
    reaching `lua_invoke` is the `timeout` parameter of call_lua_sandbox, which receives the
    `timeout` parameter of Wtp.expand, and neither function rebinds it (in particular not from a
    context attribute, which would let a short limit of an earlier call cut off later, legitimate
    invocations on the same context)."""
    rr = RuleResult("C07.R7", "the time limit of an invocation is the parameter of the enclosing expand() call, never stored state", min_instances=3)
    ex = ctx.fn("core.Wtp.expand")
    cls = ctx.fn("luaexec.call_lua_sandbox")
    for dotted, fn, rel in (("core.Wtp.expand", ex, "src/wikitextprocessor/core.py"),
                            ("luaexec.call_lua_sandbox", cls, "src/wikitextprocessor/luaexec.py")):
        params = {a.arg for a in fn.args.args + fn.args.kwonlyargs}
        if "timeout" not in params:
            raise AnalysisError("{}: parameter `timeout` vanished".format(dotted))
        stores = [n for n in ast.walk(fn) if isinstance(n, ast.Name) and n.id == "timeout" and isinstance(n.ctx, (ast.Store, ast.Del))]
        if stores:
            for n in stores:
                rr.bad(Finding("C07.R7", rel, dotted, "timeout = ... (line {})".format(n.lineno),
                               "the time limit is rebound inside {}: the limit of an invocation no longer is the one passed to this call".format(dotted),
                               n.lineno))
        else:
            rr.ok(dotted, "`timeout` is never rebound", {"fn": dotted})
    calls = [c for c in ast.walk(ex) if isinstance(c, ast.Call) and unparse(c.func) == "call_lua_sandbox"]
    if not calls:
        raise AnalysisError("expand: call of call_lua_sandbox vanished")
    for c in calls:
        args = [unparse(a) for a in c.args] + [unparse(k.value) for k in c.keywords if k.arg == "timeout"]
        if "timeout" in args[4:] or any(k.arg == "timeout" and unparse(k.value) == "timeout" for k in c.keywords):
            rr.ok("core.Wtp.expand", unparse(c)[:70], {"passes": "timeout"})
        else:
            rr.bad(Finding("C07.R7", "src/wikitextprocessor/core.py", "core.Wtp.expand", unparse(c)[:80],
                           "call_lua_sandbox is not given expand()'s own timeout parameter", c.lineno))
    inv = [c for c in ast.walk(cls) if isinstance(c, ast.Call) and unparse(c.func).endswith("lua_invoke")]
    if not inv:
        raise AnalysisError("call_lua_sandbox: lua_invoke call vanished")
    for c in inv:
        if c.args and unparse(c.args[-1]) == "timeout":
            rr.ok("luaexec.call_lua_sandbox", "lua_invoke(..., timeout)")
        else:
            rr.bad(Finding("C07.R7", "src/wikitextprocessor/luaexec.py", "luaexec.call_lua_sandbox", unparse(c)[:80],
                           "lua_invoke is not given call_lua_sandbox's own timeout parameter", c.lineno))
    return rr


def rule_r9(ctx) -> RuleResult:
    """Whether an invocation is top-level (and so arms the hook, R8) is read from the environment stack that the Lua side was
    handed once, at initialisation.  If the per-page reset rebinds `lua_env_stack` instead of emptying it, Python pops a new
    deque while Lua keeps pushing on the old one: one environment stays behind, every later top-level #invoke looks nested
    and runs without any time limit (seed C07-7A).  Shared with C09.R8."""
    from ..core.report import shared
    from . import c09

    return shared(c09.rule_r8(ctx), "C07.R9", "the stacks the Lua side holds by identity are never rebound (shared with C09.R8)",
                  "after the next start_page a top-level #invoke is taken for a nested one and gets no timeout hook", min_instances=2)


def rule_r10(ctx, marker: str) -> RuleResult:
    """The time limit belongs to the outermost invocation.  Two things on the Python side of a *nested* invocation
    (frame:preprocess("{{#invoke:...}}"), expandTemplate, ...) decide whether the enclosing function can outlive it:

    (a) what the failed invocation removes from the Lua stacks.  `_lua_invoke` pushes the module environment only after it has
        cloned it; the clone is where most VM instructions of a small invocation are spent, so that is where the hook fires.
        If Python then pops "one entry" rather than cutting the stack back to its length at entry, it pops the *enclosing*
        invocation's environment; the stack is empty while that invocation still runs, and every later nested #invoke takes
        itself for an outermost one -- resets the sandbox, restarts the clock and removes the hook when it returns.
    (b) what it does with the time-limit error.  Returned as text, a loop around frame:preprocess absorbs every firing of the
        hook that lands in nested code (nearly all of them) and is never stopped; the error has to be passed on (a `raise`
        on the path where the marker was found and an enclosing invocation exists).

    Genuine defect of the pinned tree (both parts), found by the agent that seeded C07 in round 9 and confirmed with
    findings/repro/c07_nested_timeout.py; repaired by F27."""
    from . import _expand as X_

    rr = RuleResult("C07.R10", "a nested invocation pops only what it pushed and passes the time-limit error on to the enclosing one", min_instances=3)
    fn = ctx.fn("luaexec.call_lua_sandbox")
    for stack in ("lua_env_stack", "lua_frame_stack"):
        kind, node = X_.lua_stack_cleanup(fn, stack)
        if kind is None:
            raise AnalysisError("call_lua_sandbox: clean-up of ctx.{} after the Lua call not recognised".format(stack))
        if kind == "snapshot":
            rr.ok("luaexec.call_lua_sandbox", "ctx.{} is cut back to its length at entry".format(stack), {"stack": stack, "cleanup": unparse(node)[:80]})
        else:
            rr.bad(Finding("C07.R10", LX, "luaexec.call_lua_sandbox", "{}.pop() not bounded by the length at entry".format(stack),
                           "after the Lua call one entry is popped off ctx.{} whether or not this invocation had pushed one: a nested #invoke "
                           "that fails before `_python_append_env` (the hook firing while the environment is cloned) removes the environment of "
                           "the enclosing invocation, after which every nested #invoke restarts the clock and removes the hook -- the enclosing "
                           "function runs without a time limit".format(stack), node.lineno))
    # (b) a raise on the failure path, under a test for the marker and for nestedness
    parents = {c: p_ for p_ in ast.walk(fn) for c in ast.iter_child_nodes(p_)}
    snaps = {n.targets[0].id for n in walk_no_nested(fn) if isinstance(n, ast.Assign) and len(n.targets) == 1 and isinstance(n.targets[0], ast.Name)
             and unparse(n.value) in ("len(ctx.lua_env_stack)", "len(ctx.lua_frame_stack)")}
    passes_on = []
    for r in [n for n in walk_no_nested(fn) if isinstance(n, ast.Raise)]:
        conds = X_.path_conditions(parents, r)
        txt = " and ".join(unparse(t) for t, truth in conds if truth)
        has_marker = any(isinstance(c, ast.Constant) and isinstance(c.value, str) and c.value and c.value in marker
                         for t, truth in conds if truth for c in ast.walk(t))
        nested = "lua_env_stack" in txt or "lua_frame_stack" in txt or any(isinstance(x, ast.Name) and x.id in snaps for t, truth in conds if truth for x in ast.walk(t))
        if has_marker and nested:
            passes_on.append(r)
    # Lua side alternative: `error(...)` after the protected call under `nested`
    if passes_on:
        rr.ok("luaexec.call_lua_sandbox", "the time-limit error of a nested invocation is raised to the enclosing one", {"raise_line": passes_on[0].lineno})
    else:
        p2 = ctx.lua.file("_sandbox_phase2.lua")
        inv = p2.func_named("_lua_invoke")
        lua_reraise = False
        if inv is not None:
            for n in L.walk(inv):
                if n.kind == "if":
                    for cond, body in n.clauses:
                        if "nested" in L.text(cond) and "not nested" not in L.text(cond) \
                                and any(c.kind == "call" and L.text(c.func) == "error" for b in body for c in L.walk(b)):
                            lua_reraise = True
        if lua_reraise:
            rr.ok("_sandbox_phase2.lua:_lua_invoke", "a nested invocation re-raises the error of the protected call")
        else:
            rr.bad(Finding("C07.R10", LX, "luaexec.call_lua_sandbox", "nested time-limit error returned as text",
                           "when a nested #invoke hits the time limit the error is turned into the in-band element and handed back to the "
                           "enclosing function as the result of frame:preprocess/expandTemplate; a loop around such a call absorbs every firing "
                           "of the hook that lands in nested code and is never stopped", fn.lineno))
    return rr


def stack_cutback(ctx) -> RuleResult:
    """Part (a) of R10 on its own, for properties that depend on the stacks being back at their entry length after *every*
    invocation, failed ones included (C09: an entry left behind makes every later invocation of the page a `nested` one,
    which skips the environment reset and reuses the loaded modules)."""
    from . import _expand as X_

    rr = RuleResult("C07.R10", "the Lua stacks are cut back to their length at entry", min_instances=2)
    fn = ctx.fn("luaexec.call_lua_sandbox")
    for stack in ("lua_env_stack", "lua_frame_stack"):
        kind, node = X_.lua_stack_cleanup(fn, stack)
        if kind is None:
            raise AnalysisError("call_lua_sandbox: clean-up of ctx.{} after the Lua call not recognised".format(stack))
        if kind == "snapshot":
            rr.ok("luaexec.call_lua_sandbox", "ctx.{} is cut back to its length at entry".format(stack), {"stack": stack, "cleanup": unparse(node)[:80]})
        else:
            rr.bad(Finding("C07.R10", LX, "luaexec.call_lua_sandbox", "{} is not cut back to its length at entry".format(stack),
                           "after the Lua call ctx.{} is not restored to the length it had at entry on every path (one conditional pop "
                           "instead of a loop down to the saved length): an invocation that fails after it pushed -- a missing module is "
                           "reported after `_python_append_env` -- leaves its entry behind".format(stack), node.lineno))
    return rr


def rule_r11(ctx) -> RuleResult:
    """`_lua_invoke` decides from the environment stack whether it is the outermost invocation (and arms / removes the hook, R8).
    While an invocation runs, the only code that may shorten that stack is the clean-up of call_lua_sandbox, bounded by its
    own entry length (R10); the per-page reset empties it between pages.  Emptying it anywhere else -- e.g. "an #invoke written
    on the page itself is outermost, drop stale entries" -- empties it in the middle of an enclosing invocation that reached
    this point through frame:preprocess, and the nested #invoke then restarts the clock and removes the hook (seed C07-9B)."""
    rr = RuleResult("C07.R11", "the Lua environment/frame stacks are emptied only by the per-page reset", min_instances=2)
    allowed = {"core.Wtp.start_page", "core.Wtp.__init__"}
    n_ok = 0
    for dotted, m, f in ctx.index.all_functions():
        for c in walk_no_nested(f):
            if isinstance(c, ast.Call) and isinstance(c.func, ast.Attribute) and c.func.attr in ("clear", "popleft") \
                    and isinstance(c.func.value, ast.Attribute) and c.func.value.attr in ("lua_env_stack", "lua_frame_stack"):
                ctx.touched(dotted, m.relpath)
                if dotted in allowed or any(dotted.startswith(a + ".") for a in allowed):
                    rr.ok(dotted, "{} in the per-page reset".format(unparse(c)))
                    n_ok += 1
                else:
                    rr.bad(Finding("C07.R11", m.relpath, dotted, unparse(c),
                                   "the stack that tells a nested invocation from the outermost one is emptied outside the per-page reset: an "
                                   "#invoke reached through frame:preprocess/expandTemplate of a running invocation passes here too, takes itself "
                                   "for the outermost one, restarts the clock and removes the hook when it returns", c.lineno))
            if isinstance(c, (ast.Delete,)):
                pass
    if n_ok == 0 and not rr.findings:
        raise AnalysisError("the per-page reset no longer empties the Lua stacks in a recognised way")
    return rr


def run(ctx) -> list:
    marker = _marker(ctx)
    return [rule_r1(ctx), rule_r2(ctx, marker), rule_r3(ctx), rule_r4(ctx, marker), rule_r5(ctx, marker), rule_r6(ctx), rule_r7(ctx), rule_r8(ctx), rule_r9(ctx),
            rule_r10(ctx, marker), rule_r11(ctx)]
