"""C04 -- template expansion agrees with the reference transclusion semantics.

Equality with MediaWiki's output is not decidable statically.  Six narrow,
exact clauses are decided:

R1  the automatic newline is not bypassed: every path to the final append of a
    template expansion, and the single return of call_parser_function, passes
    the value through add_newline_to_expansion after its last other assignment.
R2  includable part: _template_to_body removes closed comments *first*, then
    noinclude (paired, then unclosed), then an unclosed comment, extracts
    onlyinclude, unwraps includeonly; every tag pattern is (?is).
R3  argument map: named arguments are recognised by an anchored DOTALL regex
    whose name and value groups are lazy and bracketed by \\s*; positional values
    are never rewritten except by expansion; arguments are expanded in the
    caller's frame; later duplicates win (plain ht[k] = arg).
R4  body pipeline: preprocess_text -> _encode -> expand_args(., ht) ->
    expand_recurse(., (resolved title, ht), .) on one def-use chain.
R5  #if / #ifeq / #switch return trimmed values on every return.
R6  missing templates become a link to the template page; undefined parameters
    without default stay literal.
"""

from __future__ import annotations

import ast
import re

import re._parser as sre_parse
import re._constants as sre_c

from ..core import rx
from ..core.flow import Flow
from ..core.index import unparse, walk_no_nested
from ..core.report import AnalysisError, Finding, RuleResult
from . import _expand as X

EXPLANATION = (
    "Must-pass-through and def-use analyses on the template branch of expand_recurse, on "
    "_template_to_body and on the three conditional parser functions, plus the structure of the "
    "named-argument regex read from its syntax tree. Thin with respect to the property: the rules are "
    "exact necessary conditions of the MediaWiki semantics named in the statement (newline rule, "
    "includable part, trimming, frames, pipeline order); equality of the output string is not decided."
)
ASSUMPTIONS = [
    "re._parser's syntax tree reflects what re matches",
    "the helper names add_newline_to_expansion / preprocess_text / _encode keep their meaning (C15 and common.py rules check them)",
]
PFN = "src/wikitextprocessor/parserfns.py"


class Newline(Flow):
    """state: True when `t` currently holds add_newline_to_expansion output"""

    def __init__(self, var: str):
        self.var = var
        self.finals = []

    def transfer_expr(self, node, state):
        if node is None:
            return [state]
        for c in ast.walk(node):
            if isinstance(c, ast.Call) and unparse(c.func) == "parts.append" and c.args and unparse(c.args[0]) == self.var:
                self.finals.append((c, state))
        return [state]

    def transfer(self, st, state):
        (s,) = self.transfer_expr(st, state)
        tgt = None
        if isinstance(st, ast.Assign) and len(st.targets) == 1:
            tgt = st.targets[0]
        elif isinstance(st, ast.AnnAssign) and st.value is not None:
            tgt = st.target
        if isinstance(tgt, ast.Name) and tgt.id == self.var:
            v = st.value
            if isinstance(v, ast.Call) and unparse(v.func) == "add_newline_to_expansion" and unparse(v.args[0]) == self.var:
                s = True
            elif isinstance(v, ast.Name) and v.id == "t2":
                pass  # replacement by post_template_fn: used verbatim (C13.R3)
            else:
                s = False
        return [s]


def rule_r1(ctx) -> RuleResult:
    rr = RuleResult("C04.R1", "expansions pass through add_newline_to_expansion", min_instances=3)
    tb = X.template_branch(ctx)
    w = Newline("t")
    w.run_block(tb, {False})
    if not w.finals:
        raise AnalysisError("template branch: final parts.append(t) not found")
    agg = {}
    for c, st in w.finals:
        agg[c] = agg.get(c, True) and st
    for c, ok in agg.items():
        if ok:
            rr.ok(X.RECURSE, "parts.append(t) after t = add_newline_to_expansion(t)", {"site": "template expansion", "line": c.lineno})
        else:
            rr.bad(Finding("C04.R1", X.CORE, X.RECURSE, "parts.append(t)",
                           "a template expansion can be emitted without the automatic newline check on the *expanded* text; a result "
                           "starting with * # : ; {| is glued to the preceding text", c.lineno))
    cp = ctx.fn("parserfns.call_parser_function")
    rets = [n for n in walk_no_nested(cp) if isinstance(n, ast.Return) and n.value is not None]
    def inline(e: ast.AST, line: int, depth: int = 0) -> ast.AST:
        """returned expression with names replaced by their nearest preceding assignment"""
        import copy

        class T(ast.NodeTransformer):
            def visit_Call(self, node):
                node.args = [self.visit(a) for a in node.args]
                if not isinstance(node.func, ast.Name):
                    node.func = self.visit(node.func)
                return node

            def visit_Name(self, node):
                if isinstance(node.ctx, ast.Load) and depth < 3:
                    v = X.resolve_name(cp.body, node.id, line)
                    if v is not None:
                        return inline(v, v.lineno, depth + 1)
                return node

        return T().visit(copy.deepcopy(e))

    inl = [(r, inline(r.value, r.lineno)) for r in rets]
    calls_fn = [(r, v) for r, v in inl if any(isinstance(c, ast.Call) and unparse(c.func) == "fn" for c in ast.walk(v))]
    if not calls_fn:
        raise AnalysisError("call_parser_function: return of fn(...) not found")
    for r, v in calls_fn:
        if isinstance(v, ast.Call) and unparse(v.func) == "add_newline_to_expansion":
            rr.ok("parserfns.call_parser_function", unparse(r)[:80], {"site": "parser function result"})
        else:
            rr.bad(Finding("C04.R1", PFN, "parserfns.call_parser_function", unparse(r)[:80],
                           "parser function results bypass add_newline_to_expansion", r.lineno))
    # the helper itself: markers
    an = ctx.fn("common.add_newline_to_expansion")
    tup = [n for n in ast.walk(an) if isinstance(n, ast.Tuple) and all(isinstance(e, ast.Constant) for e in n.elts)]
    markers = {e.value for t_ in tup for e in t_.elts}
    if markers == {"*", ";", ":", "#", "{|"}:
        rr.ok("common.add_newline_to_expansion", "markers * ; : # {|")
    else:
        rr.bad(Finding("C04.R1", "src/wikitextprocessor/common.py", "common.add_newline_to_expansion", "markers " + repr(sorted(markers)),
                       "the set of list/table markers that trigger the automatic newline changed", an.lineno))
    return rr


def _classify_tb_step(pat: str) -> str:
    low = pat.lower()
    if "<!--" in pat:
        return "comment_closed" if "-->" in pat and "\\z" not in low and "|" not in pat else ("comment_open" if "-->" not in pat else "comment_mixed")
    if "noinclude" in low:
        return "noinclude_paired" if "</noinclude" in low else "noinclude_open"
    if "onlyinclude" in low:
        return "onlyinclude"
    if "includeonly" in low:
        return "includeonly"
    return "other"


def rule_r2(ctx) -> RuleResult:
    rr = RuleResult("C04.R2", "_template_to_body: comments first, then noinclude, onlyinclude, includeonly; tag patterns (?is)", min_instances=7)
    fnname = "core.Wtp._template_to_body"
    fn = ctx.fn(fnname)
    steps = []
    for n in walk_no_nested(fn):
        if isinstance(n, ast.Call) and unparse(n.func) in ("re.sub", "re.finditer") and n.args:
            try:
                pat = ctx.index.fold("core", n.args[0])
            except Exception:  # noqa: BLE001
                raise AnalysisError("_template_to_body: pattern not foldable")
            steps.append((n.lineno, _classify_tb_step(pat), pat, n))
    steps.sort()
    kinds = [k for _, k, _, _ in steps]
    rr.instances["steps"] = kinds
    want = ["comment_closed", "noinclude_paired", "noinclude_open", "comment_open", "onlyinclude", "includeonly"]
    if kinds and kinds[0] == "comment_closed":
        rr.ok(fnname, "closed comments are removed first", {"order": kinds})
    else:
        rr.bad(Finding("C04.R2", X.CORE, fnname, "order " + ",".join(kinds),
                       "closed comments are not removed before the include tags are interpreted: a <noinclude> that is only "
                       "mentioned inside a comment cuts real text out of the transclusion", fn.lineno))
    if [k for k in kinds if k in want] == want:
        rr.ok(fnname, "step order " + " > ".join(want))
    else:
        rr.bad(Finding("C04.R2", X.CORE, fnname, "steps " + ",".join(kinds),
                       "the includable-part pipeline is not comment > noinclude > unclosed noinclude > unclosed comment > onlyinclude > includeonly", fn.lineno))
    for _, k, pat, n in steps:
        try:
            fl = sre_parse.parse(pat).state.flags
        except Exception as e:  # noqa: BLE001
            raise AnalysisError("unparsable pattern {!r}: {}".format(pat, e))
        if k.startswith("comment"):
            if fl & re.DOTALL:
                rr.ok(fnname, k + " is DOTALL")
            else:
                rr.bad(Finding("C04.R2", X.CORE, fnname, pat, "comment pattern is not DOTALL (multi-line comments survive)", n.lineno))
        elif k in ("noinclude_paired", "noinclude_open", "onlyinclude", "includeonly"):
            if (fl & re.DOTALL) and (fl & re.IGNORECASE):
                rr.ok(fnname, k + " is (?is)", {"step": k, "pattern": pat})
            else:
                rr.bad(Finding("C04.R2", X.CORE, fnname, pat, "tag pattern is not (?is): sibling patterns are", n.lineno))
            if k == "noinclude_paired":
                # what is removed is the section itself: every match begins with the opening tag and ends with the `>` of the
                # closing tag (language inclusion) -- a pattern that also takes the line break after it changes the includable text
                ref = r"(?is)<noinclude\s*>.*</noinclude\s*>"
                try:
                    cex = rx.included_in_prefix(str(pat), ref, thorough=ctx.thorough, full=True)
                except AnalysisError:
                    cex = None
                if cex is not None:
                    rr.bad(Finding("C04.R2", X.CORE, fnname, pat,
                                   "the noinclude removal can match {!r}, i.e. more than the section from <noinclude> to </noinclude>: text "
                                   "outside the section (here what follows the closing tag) disappears from the transcluded body".format(cex), n.lineno))
                else:
                    rr.ok(fnname, "noinclude removal matches exactly a <noinclude>...</noinclude> section")
            if k == "noinclude_paired" and ".*?" not in pat:
                rr.bad(Finding("C04.R2", X.CORE, fnname, pat, "paired noinclude removal is greedy: text between two noinclude blocks is lost", n.lineno))
    # no shortcut: every return comes after all reduction steps (a "nothing to do" fast path decides by
    # a different, textual test than the patterns -- e.g. a case-sensitive substring test in front of
    # case-insensitive patterns -- and stores such templates unreduced)
    last_step = max(n.lineno for _, k, _, n in steps if k in want) if steps else 0
    early = [r for r in walk_no_nested(fn) if isinstance(r, ast.Return) and r.lineno < last_step]
    parents = ctx.index.mod("core").parents
    for r in early:
        # accepted shape: `if LIT not in text [and LIT2 not in text ...]: return text` -- sound iff every
        # step pattern can only match inside a text that contains one of the literals
        guard = parents.get(r)
        lits = []
        ci = False
        shape_ok = isinstance(guard, ast.If) and guard.body == [r] and not guard.orelse and isinstance(r.value, ast.Name) \
            and parents.get(guard) is fn
        if shape_ok:
            conj = guard.test.values if isinstance(guard.test, ast.BoolOp) and isinstance(guard.test.op, ast.And) else [guard.test]
            for c in conj:
                subj = c.comparators[0] if isinstance(c, ast.Compare) and len(c.comparators) == 1 else None
                folded = isinstance(subj, ast.Call) and isinstance(subj.func, ast.Attribute) and subj.func.attr in ("lower", "casefold") and not subj.args
                if folded:
                    subj = subj.func.value   # `LIT not in text.lower()`: a case-insensitive containment test
                if isinstance(c, ast.Compare) and len(c.ops) == 1 and isinstance(c.ops[0], ast.NotIn) and isinstance(c.left, ast.Constant) \
                        and isinstance(c.left.value, str) and c.left.value and isinstance(subj, ast.Name) \
                        and subj.id == r.value.id and (not folded or c.left.value == c.left.value.lower()):
                    lits.append(c.left.value)
                    ci = ci or folded
                else:
                    shape_ok = False
        if not shape_ok or not lits:
            raise AnalysisError("_template_to_body: early return at line {} has a guard outside the supported fragment "
                                "(`LIT not in text and ...: return text`)".format(r.lineno))
        container = ("(?si)" if ci else "(?s)") + ".*(?:" + "|".join(re.escape(x) for x in lits) + ").*"
        later = [(k, pat, n) for _, k, pat, n in steps if n.lineno > r.lineno]
        bad_step = None
        for k, pat, n in later:
            cex = rx.included_in_prefix(pat, container, thorough=ctx.thorough, full=True)
            if cex is not None:
                bad_step = (k, pat, cex)
                break
        if bad_step:
            k, pat, cex = bad_step
            rr.bad(Finding("C04.R2", X.CORE, fnname, unparse(guard.test)[:70],
                           "the shortcut returns the text unreduced although the {} step would still match it: {!r} matches {!r} but contains "
                           "none of {} (the patterns are case-insensitive, the substring test is not)".format(k, pat[:40], cex, lits), r.lineno))
        else:
            rr.ok(fnname, "shortcut `{}` implies that no later step matches".format(unparse(guard.test)[:50]), {"literals": lits})
    if not early:
        rr.ok(fnname, "every return follows all reduction steps")
    # onlyinclude: the result is the concatenation of group(1) of *every* match, in order -- as a comprehension over the
    # matches or as an accumulation loop
    def is_finditer(e) -> bool:
        if isinstance(e, ast.Call) and unparse(e.func) in ("list", "tuple") and len(e.args) == 1:
            e = e.args[0]
        if isinstance(e, ast.Name):
            defs = [n.value for n in walk_no_nested(fn) if isinstance(n, ast.Assign) and len(n.targets) == 1 and unparse(n.targets[0]) == e.id]
            return len(defs) == 1 and is_finditer(defs[0])
        return isinstance(e, ast.Call) and isinstance(e.func, ast.Attribute) and e.func.attr == "finditer"

    def body_of(elt, var) -> bool:
        # `m.group(1) or ""`  /  `m.group(1) if m.group(1) else ""` / `m[1] or ""`
        txt = unparse(elt).replace('"', "'")
        return txt in ("{0}.group(1) or ''".format(var), "{0}[1] or ''".format(var),
                       "{0}.group(1) if {0}.group(1) else ''".format(var), "{0}.group(1) if {0}.group(1) is not None else ''".format(var))

    joins = [c for c in walk_no_nested(fn) if isinstance(c, ast.Call) and isinstance(c.func, ast.Attribute) and c.func.attr == "join"
             and isinstance(c.func.value, ast.Constant) and c.func.value.value == "" and len(c.args) == 1]
    verdict = None
    for j in joins:
        a = j.args[0]
        if isinstance(a, (ast.GeneratorExp, ast.ListComp)) and len(a.generators) == 1 and isinstance(a.generators[0].target, ast.Name):
            g = a.generators[0]
            if isinstance(g.iter, ast.Subscript) and is_finditer(g.iter.value):
                verdict = ("bad", "only the matches `{}` are joined".format(unparse(g.iter)), j)
            elif is_finditer(g.iter) and not g.ifs and body_of(a.elt, g.target.id):
                verdict = ("ok", "join of group(1) of every match", j)
            elif is_finditer(g.iter):
                verdict = ("bad", "the joined pieces are `{}`{}, not the body of every match".format(
                    unparse(a.elt)[:40], " (filtered)" if g.ifs else ""), j)
        elif isinstance(a, ast.Name):
            for lp in [n for n in walk_no_nested(fn) if isinstance(n, ast.For) and isinstance(n.target, ast.Name) and is_finditer(n.iter)]:
                apps = [c for c in ast.walk(lp) if isinstance(c, ast.Call) and unparse(c.func) == a.id + ".append" and c.args]
                if len(apps) == 1 and any(apps[0] is getattr(st, "value", None) for st in lp.body) and body_of(apps[0].args[0], lp.target.id):
                    verdict = ("ok", "accumulation of group(1) of every match", j)
                elif apps:
                    verdict = ("bad", "the accumulated pieces are `{}` (or not every match is appended)".format(unparse(apps[0].args[0])[:40]), j)
        if verdict:
            break
    if verdict is None:
        raise AnalysisError("_template_to_body: how the <onlyinclude> bodies are combined was not recognised")
    if verdict[0] == "ok":
        rr.ok(fnname, "onlyinclude: " + verdict[1])
    else:
        rr.bad(Finding("C04.R2", X.CORE, fnname, "onlyinclude join",
                       "when onlyinclude is present the result is not the concatenation of all its bodies: " + verdict[1], verdict[2].lineno))
    return rr


def _check_named_regex(pat: str):
    """structure: ^ \\s* (lazy name) \\s* = \\s* (lazy value) \\s* $  with DOTALL"""
    tree = sre_parse.parse(pat)
    if not (tree.state.flags & re.DOTALL):
        return "not DOTALL: a named value containing a newline is no longer recognised as named"
    items = list(tree)

    def is_ws_star(it):
        op, av = it
        return op is sre_c.MAX_REPEAT and av[0] == 0 and av[1] == sre_c.MAXREPEAT and len(av[2]) == 1 \
            and av[2][0][0] is sre_c.IN and (sre_c.CATEGORY, sre_c.CATEGORY_SPACE) in av[2][0][1]

    def is_lazy_group(it, gid):
        op, av = it
        return op is sre_c.SUBPATTERN and av[0] == gid and len(av[3]) == 1 and av[3][0][0] is sre_c.MIN_REPEAT

    shape = [
        lambda it: it[0] is sre_c.AT and it[1] is sre_c.AT_BEGINNING,
        is_ws_star,
        lambda it: is_lazy_group(it, 1),
        is_ws_star,
        lambda it: it == (sre_c.LITERAL, ord("=")),
        is_ws_star,
        lambda it: is_lazy_group(it, 2),
        is_ws_star,
        lambda it: it[0] is sre_c.AT and it[1] is sre_c.AT_END,
    ]
    if len(items) != len(shape):
        return "shape changed ({} items)".format(len(items))
    for i, (it, pred) in enumerate(zip(items, shape)):
        if not pred(it):
            return "element {} of the pattern is not as required (anchors, \\s* around lazy groups, '=')".format(i)
    # value group: lazy over ANY
    v = items[6][1][3][0][1]
    if not (len(v[2]) == 1 and v[2][0][0] is sre_c.ANY and v[0] == 0):
        return "value group is not (.*?)"
    n = items[2][1][3][0][1]
    if n[0] < 1:
        return "name group can be empty"
    return None


def _match_var(lp, site):
    for a in ast.walk(lp):
        if isinstance(a, ast.Assign) and a.value is site and len(a.targets) == 1 and isinstance(a.targets[0], ast.Name):
            return a.targets[0].id
        if isinstance(a, ast.NamedExpr) and a.value is site:
            return a.target.id
    return None


def _is_named_test(t, mv) -> bool:
    return mv is not None and unparse(t) in (mv, "{} is not None".format(mv), "bool({})".format(mv))


def _named_only_strip(lp, tg, av, site) -> bool:
    """`tg` trims the value on the named path only: `if m: v = v.strip()` / `v = v.strip() if m else v` (m = the match object of
    the named-argument regex).  Positional values are never reached by it."""
    mv = _match_var(lp, site)
    v = tg.value if isinstance(tg, ast.Assign) else None
    strip = lambda e: isinstance(e, ast.Call) and isinstance(e.func, ast.Attribute) and e.func.attr == "strip" and not e.args and unparse(e.func.value) == av
    if v is None:
        return False
    if isinstance(v, ast.IfExp) and _is_named_test(v.test, mv) and strip(v.body) and unparse(v.orelse) == av:
        return True
    if strip(v):
        for n in ast.walk(lp):
            if isinstance(n, ast.If) and _is_named_test(n.test, mv) and any(tg is x for b in n.body for x in ast.walk(b)):
                return True
    return False


def rule_r12(ctx) -> RuleResult:
    """MediaWiki trims a named argument's value when it is *read*: `trim(expand(value))` (PPTemplateFrame_Hash::getNamedArgument).
    The named-argument regex trims the text as written; that is the same thing only while the expansion of the value neither
    starts nor ends with white space.  `{{t|x={{pad}}}}` with `Template:pad` = " b " passes "b" in the reference and " b " when
    the value is not trimmed again after it was expanded.  Rule: on the named path, between the expansion of the value and the
    store into the argument map, the value is stripped.  Found on the unchanged tree after the agent seeding C08 in round 10
    remarked on it; repaired by F30."""
    rr = RuleResult("C04.R12", "a named argument's value is trimmed after it has been expanded", min_instances=1)
    tb = X.template_branch(ctx)
    loops = [n for st in tb for n in ast.walk(st) if isinstance(n, ast.For) and "args[1:]" in unparse(n.iter)]
    if not loops:
        raise AnalysisError("template branch: argument loop vanished")
    lp = loops[-1]
    av = unparse(lp.target)
    sites = [n for n in ast.walk(lp) if isinstance(n, ast.Call) and (unparse(n.func) in ("re.match", "re.fullmatch") or (
        isinstance(n.func, ast.Attribute) and n.func.attr in ("match", "fullmatch") and unparse(n.func.value) != "re"))]
    if not sites:
        raise AnalysisError("argument loop: named-argument regex not found")
    exps = [a for a in ast.walk(lp) if isinstance(a, ast.Assign) and unparse(a.targets[0]) == av and isinstance(a.value, ast.Call)
            and unparse(a.value.func) == "expand_recurse" and a.value.args and unparse(a.value.args[0]) == av]
    if not exps:
        raise AnalysisError("argument loop: expansion of the argument value not recognised (inconclusive)")
    after = [a for a in ast.walk(lp) if isinstance(a, ast.Assign) and unparse(a.targets[0]) == av and a.lineno > exps[-1].lineno
             and _named_only_strip(lp, a, av, sites[0])]
    wrapped = [a for a in exps if False]
    if after:
        rr.ok(X.RECURSE, "named path: `{}` after the expansion".format(unparse(after[0])))
    else:
        rr.bad(Finding("C04.R12", X.CORE, X.RECURSE, "named argument value stored as expanded",
                       "on the named path the value is trimmed by the regex before it is expanded and not again afterwards: white space at the "
                       "ends of a nested call's expansion (`{{t|x={{pad}}}}`, Template:pad = ` b `) reaches the parameter, where the reference "
                       "semantics passes the trimmed text", exps[-1].lineno))
    return rr


def rule_r3(ctx) -> RuleResult:
    rr = RuleResult("C04.R3", "named arguments trimmed by the regex, positional ones untouched, caller's frame, later duplicates win", min_instances=5)
    tb = X.template_branch(ctx)
    loops = [n for st in tb for n in ast.walk(st) if isinstance(n, ast.For) and "args[1:]" in unparse(n.iter)]
    if not loops:
        raise AnalysisError("template branch: argument loop vanished")
    lp = loops[-1]
    av = unparse(lp.target)
    # the regex
    matches = [n for n in ast.walk(lp) if isinstance(n, ast.Call) and unparse(n.func) in ("re.match", "re.fullmatch")]
    compiled = [n for n in ast.walk(lp) if isinstance(n, ast.Call) and isinstance(n.func, ast.Attribute)
                and n.func.attr in ("match", "fullmatch") and unparse(n.func.value) != "re"]
    pat = None
    site = None
    if matches:
        site = matches[0]
        try:
            pat = ctx.index.fold("core", site.args[0])
        except Exception:  # noqa: BLE001
            pat = None
    elif compiled:
        site = compiled[0]
        try:
            pat = ctx.index.fold("core", site.func.value)
        except Exception:  # noqa: BLE001
            pat = None
    if pat is None:
        raise AnalysisError("argument loop: named-argument regex not found / not foldable")
    problem = _check_named_regex(str(pat))
    if problem is None:
        rr.ok(X.RECURSE, "named-argument regex", {"pattern": str(pat)})
    else:
        rr.bad(Finding("C04.R3", X.CORE, X.RECURSE, "named-argument regex {!r}".format(str(pat)), problem, site.lineno))
    # assignments to the loop variable
    for n in ast.walk(lp):
        tg = None
        if isinstance(n, ast.Assign):
            for t in n.targets:
                names = [x.id for x in ast.walk(t) if isinstance(x, ast.Name)]
                if av in names:
                    tg = n
        elif isinstance(n, ast.AugAssign) and unparse(n.target) == av:
            tg = n
        if tg is None:
            continue
        v = tg.value
        txt = unparse(tg)
        if isinstance(v, ast.Call) and unparse(v.func).endswith(".groups"):
            rr.ok(X.RECURSE, txt, {"assign": txt, "kind": "named: name/value from the regex groups"})
        elif isinstance(v, ast.Call) and unparse(v.func) == "expand_recurse" and unparse(v.args[0]) == av:
            if unparse(v.args[1]) == "parent":
                rr.ok(X.RECURSE, txt, {"assign": txt, "kind": "expanded in the caller's frame"})
            else:
                rr.bad(Finding("C04.R3", X.CORE, X.RECURSE, txt, "argument values are not expanded in the caller's frame (`parent`)", tg.lineno))
        elif _named_only_strip(lp, tg, av, site):
            rr.ok(X.RECURSE, txt, {"assign": txt, "kind": "named path only: trimmed again after expansion"})
        else:
            rr.bad(Finding("C04.R3", X.CORE, X.RECURSE, txt,
                           "the argument value is rewritten by something other than the named-argument regex or expansion "
                           "(positional values must stay verbatim)", tg.lineno))
    # later duplicates win
    stores = [n for n in ast.walk(lp) if isinstance(n, ast.Assign) and isinstance(n.targets[0], ast.Subscript) and unparse(n.targets[0].value) == "ht"]
    if len(stores) == 1 and unparse(stores[0]) == "ht[k] = {}".format(av) and stores[0] in lp.body:
        rr.ok(X.RECURSE, "ht[k] = {} (unconditional)".format(av))
    else:
        rr.bad(Finding("C04.R3", X.CORE, X.RECURSE, "; ".join(unparse(s) for s in stores) or "ht[k] = arg",
                       "the argument map is not filled by an unconditional `ht[k] = value`: later duplicates no longer win", lp.lineno))
    # positional numbering
    src = unparse(lp)
    if "k = num" in src and "num += 1" in src:
        rr.ok(X.RECURSE, "positional: k = num; num += 1")
    else:
        rr.bad(Finding("C04.R3", X.CORE, X.RECURSE, "k = num; num += 1", "positional numbering changed", lp.lineno))
    return rr


def rule_r4(ctx) -> RuleResult:
    rr = RuleResult("C04.R4", "body: preprocess_text -> _encode -> expand_args(., ht) -> expand_recurse(., (title, ht), .)", min_instances=4)
    tb = X.template_branch(ctx)
    assigns = [n for st in tb for n in ast.walk(st) if isinstance(n, ast.Assign) and len(n.targets) == 1 and isinstance(n.value, ast.Call)]

    def find(fn_suffix):
        return [a for a in assigns if unparse(a.value.func).endswith(fn_suffix)]

    pp = [a for a in find("preprocess_text") if unparse(a.targets[0]) == "body"]
    if not pp:
        # the step may sit in a helper method whose every return is preprocess_text(...)
        for a in assigns:
            f = a.value.func
            if unparse(a.targets[0]) == "body" and isinstance(f, ast.Attribute) and isinstance(f.value, ast.Name) and f.value.id == "self" \
                    and ctx.index.has_func("core.Wtp." + f.attr):
                h = ctx.index.func("core.Wtp." + f.attr)
                rets = [r for r in walk_no_nested(h) if isinstance(r, ast.Return)]
                if rets and all(isinstance(r.value, ast.Call) and unparse(r.value.func).endswith("preprocess_text") for r in rets):
                    pp.append(a)
    enc = find("._encode")
    ea = [a for a in find("expand_args") if len(a.value.args) >= 2]  # a third argument appears when the closure is lifted and `parent` becomes explicit
    er = [a for a in assigns if unparse(a.value.func) == "expand_recurse" and unparse(a.targets[0]) == "t"]
    if not (len(pp) == 1 and len(enc) == 1 and len(ea) == 1 and len(er) == 1):
        raise AnalysisError("template body pipeline: steps not found (preprocess {}, encode {}, expand_args {}, expand_recurse {})".format(
            len(pp), len(enc), len(ea), len(er)))
    pp, enc, ea, er = pp[0], enc[0], ea[0], er[0]
    def from_page_body(e: ast.AST, line: int, hops: int = 0) -> bool:
        """the expression is the stored body of the resolved template page (optionally with the list-marker newline prefix)"""
        if unparse(e) == "template_page.body":
            return True
        if hops > 5:
            return False
        if isinstance(e, ast.Name):
            v = X.resolve_name(tb, e.id, line)
            return v is not None and from_page_body(v, v.lineno, hops + 1)
        if isinstance(e, ast.BinOp) and isinstance(e.op, ast.Add) and isinstance(e.left, ast.Constant) and e.left.value == "\n":
            return from_page_body(e.right, line, hops + 1)
        if isinstance(e, ast.Call) and unparse(e.func) == "add_newline_to_expansion" and len(e.args) == 1:
            return from_page_body(e.args[0], line, hops + 1)
        return False

    chain = [
        (pp, "body", bool(pp.value.args) and from_page_body(pp.value.args[0], pp.lineno)),
        (enc, unparse(enc.targets[0]), unparse(enc.value.args[0]) == "body"),
        (ea, unparse(ea.targets[0]), unparse(ea.value.args[0]) == unparse(enc.targets[0]) and unparse(ea.value.args[1]) == "ht"),
        (er, "t", unparse(er.value.args[0]) == unparse(ea.targets[0])),
    ]
    order_ok = pp.lineno < enc.lineno < ea.lineno < er.lineno
    for node, var, ok in chain:
        if ok:
            rr.ok(X.RECURSE, unparse(node)[:70], {"step": unparse(node)[:70]})
        else:
            rr.bad(Finding("C04.R4", X.CORE, X.RECURSE, unparse(node)[:80], "this pipeline step does not consume the previous step's output", node.lineno))
    if not order_ok:
        rr.bad(Finding("C04.R4", X.CORE, X.RECURSE, "pipeline order", "preprocess_text, _encode, expand_args, expand_recurse are not in this order", pp.lineno))
    # new parent frame
    np_name = unparse(er.value.args[1])
    npv = [a for st in tb for a in ast.walk(st) if isinstance(a, ast.Assign) and unparse(a.targets[0]) == np_name]
    if npv and unparse(npv[-1].value) == "(template_page.title, ht)":
        rr.ok(X.RECURSE, "{} = (template_page.title, ht)".format(np_name))
    else:
        rr.bad(Finding("C04.R4", X.CORE, X.RECURSE, "{} = {}".format(np_name, unparse(npv[-1].value) if npv else "?"),
                       "the body is not expanded in a new frame made of the resolved page title and this call's argument map", er.lineno))
    return rr


def rule_r5(ctx) -> RuleResult:
    rr = RuleResult("C04.R5", "#if/#ifeq/#switch results are trimmed on every return", min_instances=3)  # at least one return per function
    for f in ("if_fn", "ifeq_fn", "switch_fn"):
        dotted = "parserfns." + f
        fn = ctx.fn(dotted)
        rets = [n for n in walk_no_nested(fn) if isinstance(n, ast.Return)]
        if not rets:
            raise AnalysisError(dotted + ": no return statement found")
        for r in rets:
            v = r.value
            ok = False
            if v is None:
                ok = False
            elif _is_trimmed(v, fn):
                ok = True
            if ok:
                rr.ok(dotted, unparse(r), {"fn": dotted, "return": unparse(r)})
            else:
                rr.bad(Finding("C04.R5", PFN, dotted, unparse(r), "this return is not an expander(...).strip() value (or a constant / a name bound to one)", r.lineno))
    return rr


def _is_trimmed(v: ast.AST, fn: ast.AST, depth: int = 0) -> bool:
    if isinstance(v, ast.Constant) and isinstance(v.value, str):
        return True
    if isinstance(v, ast.Call) and isinstance(v.func, ast.Attribute) and v.func.attr == "strip" and not v.args:
        return True
    if isinstance(v, ast.BoolOp) and isinstance(v.op, ast.Or):
        return all(_is_trimmed(x, fn, depth + 1) for x in v.values)
    if isinstance(v, ast.Name) and depth < 3:
        vals = [n.value for n in walk_no_nested(fn) if isinstance(n, ast.Assign) and any(unparse(t) == v.id for t in n.targets)]
        vals += [n.value for n in walk_no_nested(fn) if isinstance(n, ast.AnnAssign) and unparse(n.target) == v.id and n.value is not None]
        vals = [x for x in vals if not (isinstance(x, ast.Constant) and x.value is None)]
        return bool(vals) and all(_is_trimmed(x, fn, depth + 1) for x in vals)
    return False


def rule_r6(ctx) -> RuleResult:
    rr = RuleResult("C04.R6", "missing template -> link to the template page; undefined parameter without default stays literal", min_instances=2)
    tb = X.template_branch(ctx)
    links = [n for st in tb for n in ast.walk(st) if isinstance(n, ast.Assign) and unparse(n.targets[0]) == "t" and isinstance(n.value, ast.JoinedStr)]
    ok = False
    for a in links:
        parts = a.value.values
        if isinstance(parts[0], ast.Constant) and parts[0].value.startswith("[[:") and isinstance(parts[-1], ast.Constant) \
                and parts[-1].value.endswith("]]") and any(isinstance(p, ast.FormattedValue) and unparse(p.value) == "name" for p in parts):
            ok = True
            rr.ok(X.RECURSE, unparse(a), {"missing_template": unparse(a.value)})
    if not ok:
        rr.bad(Finding("C04.R6", X.CORE, X.RECURSE, "t = f'[[:<Template ns>:{name}]]'", "a missing template no longer becomes a link to the template page", tb[0].lineno))
    ea = ctx.fn(X.ARGS)
    arms = X.kind_arms(X.main_loop(ea), ctx=ctx)
    arm = arms.get("A")
    if arm is None:
        raise AnalysisError("expand_args: argument-reference arm not found")
    calls = [c for st in arm for c in ast.walk(st) if isinstance(c, ast.Call) and unparse(c.func).endswith("._unexpanded_arg")]
    if calls and "k" in unparse(calls[-1].args[0]):
        rr.ok(X.ARGS, unparse(calls[-1]), {"undefined_parameter": unparse(calls[-1])})
    else:
        rr.bad(Finding("C04.R6", X.CORE, X.ARGS, "self._unexpanded_arg([str(k)], nowiki)", "an undefined parameter without default is no longer re-emitted literally", arm[0].lineno))
    # default used only when the argument is undefined
    gets = [n for st in arm for n in ast.walk(st) if isinstance(n, ast.Assign) and isinstance(n.value, ast.Call) and unparse(n.value.func) == "argmap.get"]
    if gets and any(isinstance(n, ast.If) and unparse(n.test) == unparse(gets[0].targets[0]) + " is not None" for st in arm for n in ast.walk(st)):
        rr.ok(X.ARGS, "value if defined, else default, else literal")
    else:
        rr.bad(Finding("C04.R6", X.CORE, X.ARGS, "v = argmap.get(k, None); if v is not None", "parameter lookup precedence changed", arm[0].lineno))
    return rr


def rule_r7(ctx) -> RuleResult:
    """#switch fall-through: a bare case that matched selects the next `k=v` result no
    matter how many further bare cases follow.  The flags that carry this through the
    argument loop (initialised False before the loop) are latches: inside the loop they
    are only ever set to True, or-ed with themselves, or cleared under a test of the flag
    itself (consumption)."""
    rr = RuleResult("C04.R7", "#switch fall-through flags are latches and every keyed entry is offered to the match test", min_instances=4)
    dotted = "parserfns.switch_fn"
    fn = ctx.fn(dotted)
    loops = [n for n in fn.body if isinstance(n, ast.For)]
    if len(loops) != 1:
        raise AnalysisError("switch_fn: argument loop not found")
    lp = loops[0]
    flags = []
    for st in fn.body:
        if st is lp:
            break
        if isinstance(st, ast.Assign) and len(st.targets) == 1 and isinstance(st.targets[0], ast.Name) \
                and isinstance(st.value, ast.Constant) and st.value.value is False:
            flags.append(st.targets[0].id)
    used = {n.id for n in ast.walk(lp) if isinstance(n, ast.Name) and isinstance(n.ctx, ast.Load)}
    flags = [f for f in flags if f in used]
    if not flags:
        raise AnalysisError("switch_fn: no fall-through flag found (a False-initialised name read in the argument loop)")

    def visit(stmts, guards):
        for st in stmts:
            if isinstance(st, ast.If):
                names = {n.id for n in ast.walk(st.test) if isinstance(n, ast.Name)}
                visit(st.body, guards | names)
                visit(st.orelse, guards | names)
                continue
            if isinstance(st, (ast.For, ast.While, ast.With, ast.Try)):
                for fld in ("body", "orelse", "finalbody"):
                    visit(getattr(st, fld, []) or [], guards)
                for h in getattr(st, "handlers", []) or []:
                    visit(h.body, guards)
                continue
            tgt = val = None
            if isinstance(st, ast.Assign) and len(st.targets) == 1 and isinstance(st.targets[0], ast.Name):
                tgt, val = st.targets[0].id, st.value
            elif isinstance(st, ast.AnnAssign) and isinstance(st.target, ast.Name) and st.value is not None:
                tgt, val = st.target.id, st.value
            elif isinstance(st, ast.AugAssign) and isinstance(st.target, ast.Name):
                tgt, val = st.target.id, st
            if tgt not in flags:
                continue
            ok = False
            if isinstance(val, ast.Constant) and val.value is True:
                ok = True
            elif isinstance(val, ast.Constant) and val.value is False and tgt in guards:
                ok = True
            elif isinstance(val, ast.BoolOp) and isinstance(val.op, ast.Or) and any(isinstance(x, ast.Name) and x.id == tgt for x in val.values):
                ok = True
            elif isinstance(val, ast.AugAssign) and isinstance(val.op, ast.BitOr):
                ok = True
            if ok:
                rr.ok(dotted, unparse(st), {"flag": tgt, "assignment": unparse(st)})
            else:
                rr.bad(Finding("C04.R7", PFN, dotted, unparse(st),
                               "the fall-through flag `{}` is overwritten inside the argument loop: a later bare case resets an earlier match, "
                               "so {{{{#switch:a|a|b|c=X}}}} no longer selects X".format(tgt), st.lineno))

    visit(lp.body, set())

    # every keyed entry (`k=v`) is offered to the match test: on every path of the loop body that
    # has destructured the entry, the test that reads the fall-through flag is evaluated before the
    # iteration ends (an entry that can skip it -- e.g. `#default=` handled in an exclusive branch --
    # is lost as the target of a fall-through group or of a direct match)
    match_flags = set()
    for n in ast.walk(lp):
        if isinstance(n, ast.If) and any(isinstance(r, ast.Return) for b in n.body for r in ast.walk(b)):
            match_flags |= {x.id for x in ast.walk(n.test) if isinstance(x, ast.Name) and x.id in flags}
    if not match_flags:
        raise AnalysisError("switch_fn: the test that selects a keyed entry (reads a fall-through flag and returns) was not found")

    from ..core.flow import Flow

    class MatchTested(Flow):
        # state: (keyed: bool, tested: bool)
        def transfer(self, st, state):
            keyed, tested = state
            if isinstance(st, ast.Assign) and isinstance(st.targets[0], (ast.Tuple, ast.List)) and isinstance(st.value, ast.Call) \
                    and isinstance(st.value.func, ast.Attribute) and st.value.func.attr == "groups":
                keyed = True
            return [(keyed, tested)]

        def branch(self, test, state):
            keyed, tested = state
            if any(isinstance(x, ast.Name) and x.id in match_flags for x in ast.walk(test)) and \
                    any(isinstance(x, ast.Compare) for x in ast.walk(test)):
                tested = True
            return [(keyed, tested)], [(keyed, tested)]

    w = MatchTested()
    out = w.run_block(lp.body, {(False, False)})
    ends = set(out.fall) | {s_ for _, s_ in out.cont}
    if any(k and not t for k, t in ends):
        rr.bad(Finding("C04.R7", PFN, dotted, "if k == val or {}: return ...".format("/".join(sorted(match_flags))),
                       "some keyed entry can finish its loop iteration without being offered to the match test: "
                       "{{{{#switch:a|a|#default=D|b=B}}}} no longer selects D", lp.lineno))
    else:
        rr.ok(dotted, "every keyed entry reaches the match test", {"paths": len(ends)})
    return rr


def rule_r8(ctx) -> RuleResult:
    """'later duplicates win': `{{t|1=x|a}}` passes `a` as parameter 1, `{{t|a|1=x}}` passes `x`.  That is the case exactly when
    the argument map is filled by ONE pass over the call's arguments in the order in which they were written, each store
    overwriting what an earlier argument put there.  Filling it in several passes (all positional arguments first, then the
    named ones) gives one group precedence whatever the order."""
    rr = RuleResult("C04.R8", "the argument map of a template call is filled in one pass in call order (later duplicates win)", min_instances=1)
    tb = X.template_branch(ctx)
    parents = ctx.index.mod("core").parents
    sites = X.map_fill_sites(tb, "ht", parents)
    if not sites:
        raise AnalysisError("template branch: no store into the argument map `ht` found")
    vec = {"args[1:]"}
    loops = []
    for store, ls in sites:
        own = [l for l in ls if isinstance(l, (ast.For, ast.DictComp))]
        if not own:
            rr.bad(Finding("C04.R8", X.CORE, X.RECURSE, unparse(store)[:70], "an entry is put into the argument map outside the loop over the call's arguments", store.lineno))
            continue
        loops.append((store, own[0]))
    distinct = {id(l) for _, l in loops}
    for store, l in loops:
        if not X.iterates_vector(l, vec):
            what = unparse(l.iter)[:50] if isinstance(l, ast.For) else unparse(l.generators[0].iter)[:50]
            rr.bad(Finding("C04.R8", X.CORE, X.RECURSE, unparse(store)[:70],
                           "this entry is stored by a loop over `{}`, not over the call's arguments in the order written: with the map filled in "
                           "several passes one group of arguments always wins, so `{{{{t|1=x|a}}}}` passes `x` as parameter 1 where the later "
                           "`a` must win".format(what), store.lineno))
    if not rr.findings:
        if len(distinct) == 1:
            rr.ok(X.RECURSE, "all {} stores into ht sit in the one loop over args[1:]".format(len(loops)))
        else:
            rr.bad(Finding("C04.R8", X.CORE, X.RECURSE, "ht filled by {} loops".format(len(distinct)),
                           "the argument map is filled by more than one pass over the arguments", loops[0][0].lineno))
    return rr


class _KeyNorm(Flow):
    """State: the normal-form facts known about the text in the key variable -- frozenset of 'int' (converted to an integer
    index), 'collapsed' (white-space runs replaced by one blank), 'stripped' (no leading/trailing white space).  Any other
    assignment from a computation resets the facts; an assignment that only unpacks or renames keeps none either."""

    def __init__(self, ctx, var: str, sink):
        self.ctx, self.var, self.sink = ctx, var, sink
        self.at_sink: list = []  # (node, state)

    def _steps(self, e, state):
        """facts about the value of expression e, given the facts of the variable"""
        if isinstance(e, ast.Name) and e.id == self.var:
            return state
        if isinstance(e, ast.Call):
            f = e.func
            if isinstance(f, ast.Name) and f.id == "int":
                return frozenset({"int"})
            if isinstance(f, ast.Attribute) and f.attr == "strip" and not e.args:
                inner = self._steps(f.value, state)
                return (inner - {"int"}) | {"stripped"}
            if isinstance(f, ast.Attribute) and f.attr == "sub" and len(e.args) >= 2:
                # re.sub(P, " ", x) / COMPILED.sub(" ", x)
                if unparse(f.value) == "re" and len(e.args) >= 3:
                    pat, rep, subj = e.args[0], e.args[1], e.args[2]
                else:
                    pat, rep, subj = f.value, e.args[0], e.args[1]
                try:
                    pv = str(self.ctx.index.fold("core", pat))
                except Exception:  # noqa: BLE001
                    pv = None
                if pv is not None and hasattr(pv, "pattern"):
                    pv = pv.pattern
                inner = self._steps(subj, state)
                if pv in (r"\s+", r"(?s)\s+") and isinstance(rep, ast.Constant) and rep.value == " ":
                    # collapsing can leave one blank at either end, so 'stripped' survives only if it held before
                    return (inner - {"int"}) | {"collapsed"}
                return frozenset({"unknown"})
            if unparse(f).split(".")[-1] in ("expand_recurse", "expand_args", "groups", "group", "expand", "str"):
                return frozenset()  # fresh text: nothing is known about its white space
            return frozenset({"unknown"})
        if isinstance(e, ast.Name):
            return frozenset({"int"}) if e.id == "num" else frozenset({"unknown"})
        if isinstance(e, (ast.Constant, ast.Subscript)):
            return frozenset()
        return frozenset({"unknown"})

    def transfer(self, st, state):
        for n in ast.walk(st):
            if self.sink(n):
                self.at_sink.append((n, state))
        if isinstance(st, ast.Assign) and len(st.targets) == 1:
            t = st.targets[0]
            if isinstance(t, ast.Name) and t.id == self.var:
                return [self._steps(st.value, state)]
            if isinstance(t, ast.Tuple) and any(isinstance(x, ast.Name) and x.id == self.var for x in t.elts):
                return [frozenset()]
        if isinstance(st, ast.AnnAssign) and isinstance(st.target, ast.Name) and st.target.id == self.var and st.value is not None:
            return [self._steps(st.value, state)]
        return [state]

    def transfer_expr(self, node, state):
        return [state]


def rule_r9(ctx) -> RuleResult:
    """`{{t|first  name=x}}` and `{{{first name}}}` name the same parameter: both the site that stores a named argument and the
    site that looks a reference up bring a non-numeric name into one normal form (white-space runs collapsed to one blank, ends
    stripped).  If one site skips the normalisation on some path, names that differ only in white space are one key there and two
    keys at the other site (seed C04-8A: names without a template call stored as written)."""
    rr = RuleResult("C04.R9", "argument names reach the argument map and the lookup in one normal form on every path", min_instances=2)
    # writer: stores into ht inside the fill loop
    tb = X.template_branch(ctx)
    parents = ctx.index.mod("core").parents
    sites = X.map_fill_sites(tb, "ht", parents)
    loops = [l for store, ls in sites for l in ls if isinstance(l, ast.For)]
    if not loops:
        raise AnalysisError("template branch: fill loop of the argument map not found")
    lp = loops[0]
    stores = [st for st, _ in sites if isinstance(st, ast.Assign) and isinstance(st.targets[0], ast.Subscript) and isinstance(st.targets[0].slice, ast.Name)]
    if not stores:
        raise AnalysisError("template branch: `ht[<name>] = value` not found")
    kvar = stores[0].targets[0].slice.id
    w = _KeyNorm(ctx, kvar, lambda n: isinstance(n, ast.Assign) and any(n is s_ for s_ in stores))
    w.run_block(lp.body, {frozenset()})
    # reader: argmap.get(k) in the argument-reference arm of expand_args
    afn = ctx.fn(X.ARGS)
    arms = X.kind_arms(X.main_loop(afn), ctx=ctx)
    if "A" not in arms:
        raise AnalysisError("expand_args: `kind == 'A'` arm not found")
    amap = afn.args.args[1].arg if len(afn.args.args) > 1 else "argmap"
    def is_lookup(n):
        if isinstance(n, ast.Call) and isinstance(n.func, ast.Attribute) and n.func.attr == "get" and unparse(n.func.value) == amap and n.args:
            return isinstance(n.args[0], ast.Name)
        return isinstance(n, ast.Subscript) and unparse(n.value) == amap and isinstance(n.slice, ast.Name)
    looks = [n for st in arms["A"] for n in ast.walk(st) if is_lookup(n)]
    if not looks:
        raise AnalysisError("expand_args: lookup of the argument name in the map not found")
    rvar = looks[0].args[0].id if isinstance(looks[0], ast.Call) else looks[0].slice.id
    r = _KeyNorm(ctx, rvar, lambda n: any(n is l_ for l_ in looks))
    r.run_block(arms["A"], {frozenset()})
    for label, fl, where in (("stored", w, X.RECURSE), ("looked up", r, X.ARGS)):
        if not fl.at_sink:
            raise AnalysisError("{}: the key never reaches the map on the analysed paths".format(where))
        unk = [n for n, st in fl.at_sink if "unknown" in st]
        if unk:
            raise AnalysisError("{}: the argument name goes through a step the rule does not know before it is {} (line {})".format(
                where, label, unk[0].lineno))
        bad = [(n, st) for n, st in fl.at_sink if "int" not in st and not {"collapsed", "stripped"} <= st]
        good = [(n, st) for n, st in fl.at_sink if not ("int" not in st and not {"collapsed", "stripped"} <= st)]
        for n, st in bad:
            rr.bad(Finding("C04.R9", X.CORE, where, "argument name {} without white-space normalisation".format(label),
                           "on some path a non-numeric argument name is {} as {} (missing: {}) while the other site collapses white-space "
                           "runs and strips the ends: `{{{{t|first  name=x}}}}` no longer binds `{{{{{{first  name}}}}}}`".format(
                               label, "written" if not st else "only " + "+".join(sorted(st)),
                               ", ".join(sorted({"collapsed", "stripped"} - st))), n.lineno))
        if good and not bad:
            rr.ok(where, "every path: the name is {} as an integer index or collapsed+stripped ({} path states)".format(label, len(good)))
    return rr


def rule_r10(ctx) -> RuleResult:
    """A template may occur on the expansion path more than once without any recursion: `{{wrap|{{#if:1|{{wrap|x}}}}}}` expands
    the inner call while the outer one is still open (arguments are expanded in the caller's frame).  The reference semantics
    reports a loop only when the path *repeats*.  So the loop detector may answer True only under -- or as the value of -- an
    equality test between parts of the path (a pattern against what precedes it); answering True because the entry just pushed
    is merely *present* further down turns such nestings into "Template loop detected" (seed C04-9B)."""
    rr = RuleResult("C04.R10", "the loop detector answers True only where part of the path equals another part of it", min_instances=1)
    dotted = "core.detect_expand_template_loop"
    fn = ctx.fn(dotted)
    parents = ctx.index.mod("core").parents
    param = fn.args.args[0].arg if fn.args.args else "stack"
    derived = {param}
    changed = True
    while changed:
        changed = False
        for a in ast.walk(fn):
            if isinstance(a, ast.Assign) and len(a.targets) == 1 and isinstance(a.targets[0], ast.Name) and a.targets[0].id not in derived \
                    and any(isinstance(x, ast.Subscript) and isinstance(x.value, ast.Name) and x.value.id in derived for x in ast.walk(a.value)):
                derived.add(a.targets[0].id)
                changed = True

    def seq_part(e) -> bool:
        return any((isinstance(x, ast.Subscript) and isinstance(x.slice, ast.Slice) and isinstance(x.value, ast.Name) and x.value.id in derived)
                   or (isinstance(x, ast.Name) and x.id in derived - {param}) for x in ast.walk(e))

    def repetition_test(e) -> bool:
        return any(isinstance(c, ast.Compare) and len(c.ops) == 1 and isinstance(c.ops[0], ast.Eq) and seq_part(c.left) and seq_part(c.comparators[0])
                   and any(isinstance(x, ast.Subscript) and isinstance(x.slice, ast.Slice) for x in ast.walk(c))
                   for c in ast.walk(e))

    rets = [r for r in walk_no_nested(fn) if isinstance(r, ast.Return) and r.value is not None]
    if not rets:
        raise AnalysisError("detect_expand_template_loop: no return found")
    n_true = 0
    for r in rets:
        v = r.value
        if isinstance(v, ast.Constant) and v.value is False:
            continue
        n_true += 1
        conds = [t for t, truth in X.path_conditions(parents, r) if truth]
        # any(...)/all(...) over a generator whose element is the repetition test counts as the value being the test
        if repetition_test(v) or any(repetition_test(t) for t in conds):
            rr.ok(dotted, "`{}` under / as a repetition test".format(unparse(r)[:50]))
        else:
            rr.bad(Finding("C04.R10", X.CORE, dotted, unparse(r)[:70],
                           "the detector can answer True here without having compared one part of the path with another: a template that is "
                           "merely present further down the path -- nested inside the value of its own argument through a parser function or "
                           "another template -- is reported as a loop and its expansion is replaced by the error element", r.lineno))
    if n_true == 0:
        raise AnalysisError("detect_expand_template_loop: no return that can answer True")
    return rr


def rule_r11(ctx) -> RuleResult:
    """`{{t|0=x}}` binds `{{{0}}}`: whether a name is turned into an integer index is decided once where the argument is stored
    and once where a reference is looked up, and the two decisions have to be the same predicate -- a name that is an integer
    at one site and a string at the other is never found (seed C04-10A: `0` stored as the integer 0, looked up as "0")."""
    from . import c14
    rr = RuleResult("C04.R11", "a name is an integer index where it is stored iff it is one where it is looked up", min_instances=2)
    c14._CTX = ctx
    tb = X.template_branch(ctx)
    loops = [n for st in tb for n in ast.walk(st) if isinstance(n, ast.For) and "args[1:]" in unparse(n.iter)]
    if not loops:
        raise AnalysisError("template branch: loop over the call's arguments not found")
    afn = ctx.fn(X.ARGS)
    arms = X.kind_arms(X.main_loop(afn), ctx=ctx)
    if "A" not in arms:
        raise AnalysisError("expand_args: `kind == 'A'` arm not found")
    wp = c14._int_key_predicates(loops[-1])
    rp = c14._int_key_predicates(ast.Module(body=list(arms["A"]), type_ignores=[]))
    if not wp or not rp:
        raise AnalysisError("{}: integer-key predicate not found (inconclusive)".format(X.RECURSE if not wp else X.ARGS))
    (wt, wn), (rt, rn) = wp[0], rp[0]
    if wt == rt:
        rr.ok(X.RECURSE, "stored as an integer iff `{}`".format(wt))
        rr.ok(X.ARGS, "looked up as an integer iff `{}`".format(rt))
    else:
        rr.bad(Finding("C04.R11", X.CORE, X.RECURSE, "stored as an integer iff `{}`, looked up as one iff `{}`".format(wt, rt),
                       "the store and the lookup disagree about which names are integer indexes: a name for which only one of the two "
                       "predicates holds (e.g. `0`, `+1`) is stored under one key type and looked up under the other, so "
                       "`{{t|0=x}}` no longer binds `{{{0}}}`", wn.lineno))
    return rr


def run(ctx) -> list:
    return [rule_r10(ctx), rule_r1(ctx), rule_r2(ctx), rule_r3(ctx), rule_r4(ctx), rule_r5(ctx), rule_r6(ctx), rule_r7(ctx), rule_r8(ctx), rule_r9(ctx), rule_r11(ctx), rule_r12(ctx)]
