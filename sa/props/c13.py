"""C13 -- selective expansion expands exactly the selected templates and honours the hooks.

R1  selection function: check_template_need_expand evaluated on all consistent
    valuations of (found, E given, N given, name in E, name in N, need_pre_expand)
    equals  found & (in-E | need_pre_expand) & ~in-N ; its call site passes
    (name, templates_to_expand, templates_to_not_expand) and is bypassed only
    by expand_all.
R2  every exit of the template branch is one of: error element, whole
    re-emission through the formatter (all arguments, in order), parser-function
    result, override function result, or the final expansion `t`.  The
    expand_parserfns/expand_invoke early returns re-emit name and all args.
R3  hook discipline: on every path to the final `parts.append(t)` template_fn is
    called exactly once when given (never when None), with the call's name and
    the completed argument map, outside any inner loop, before the body lookup;
    the default body is computed only under `t is None`; post_template_fn sees
    the final t and its non-None result replaces it.
R4  formatter <-> encoder agreement: what each _unexpanded_* formatter writes is
    consumed by the corresponding _encode regex; the nowiki variants decode to
    the plain variants.
"""

from __future__ import annotations

import ast
import html
import re

from ..core.flow import Flow
from ..core.index import unparse, walk_no_nested
from ..core.report import AnalysisError, Finding, RuleResult
from ..core.skeleton import Skeleton, valuations
from . import _expand as X

EXPLANATION = (
    "The selection predicate is a boolean function of six atoms; its extracted AST is evaluated on "
    "all consistent valuations against the statement. Every exit of the template branch of "
    "expand_recurse is classified by def-use (expansion, whole re-emission, error element, ...); a "
    "flow walk counts template_fn/post_template_fn calls on every path to the final append; the "
    "formatter literals are constant-folded and matched against the encoder's regex constants. "
    "Character-level identity of re-emitted text is not decided."
)
ASSUMPTIONS = [
    "re.fullmatch on regex constants recovered from the source is constant evaluation, not execution of the package",
    "hooks are pure with respect to the context (do not change expand_stack or cookies)",
]
FN_SEL = "core.Wtp.check_template_need_expand"


def _sel_atom(e: ast.AST):
    if isinstance(e, ast.Compare) and len(e.ops) == 1:
        op, l, r = e.ops[0], unparse(e.left), unparse(e.comparators[0])
        if isinstance(op, (ast.Is, ast.IsNot)) and r == "None":
            neg = isinstance(op, ast.Is)
            if l == "page":
                return ("found", neg)
            if l == "expand_names":
                return ("E", neg)
            if l == "not_expand_names":
                return ("N", neg)
        if isinstance(op, (ast.In, ast.NotIn)) and l == "name":
            neg = isinstance(op, ast.NotIn)
            if r == "expand_names":
                return ("inE", neg)
            if r == "not_expand_names":
                return ("inN", neg)
    if isinstance(e, ast.Attribute) and e.attr == "need_pre_expand" and unparse(e.value) == "page":
        return ("P", False)
    return None


def rule_r1(ctx) -> RuleResult:
    rr = RuleResult("C13.R1", "selection = found & (name in expand | need_pre_expand) & name not in not_expand", min_instances=30)
    fn = ctx.fn(FN_SEL)
    body = [s for s in fn.body if not (isinstance(s, ast.Assign) and unparse(s.targets[0]) == "page")
            and not (isinstance(s, ast.Expr) and isinstance(s.value, ast.Constant))]
    # the page lookup must be in the template namespace with the given name
    look = [s for s in fn.body if isinstance(s, ast.Assign) and unparse(s.targets[0]) == "page"]
    if len(look) == 1 and isinstance(look[0].value, ast.Call) and unparse(look[0].value.func).endswith(".get_page") \
            and unparse(look[0].value.args[0]) == "name" and "Template" in unparse(look[0].value.args[1]):
        rr.ok(FN_SEL, "page = get_page(name, <Template ns>)")
    else:
        rr.bad(Finding("C13.R1", X.CORE, FN_SEL, unparse(look[0]) if look else "page = ...",
                       "the selection no longer looks the template up by name in the template namespace", fn.lineno))
    sk = Skeleton(_sel_atom)
    atoms = ["found", "E", "N", "inE", "inN", "P"]
    n = 0
    for val in valuations(atoms):
        if (val["inE"] and not val["E"]) or (val["inN"] and not val["N"]):
            continue  # inconsistent: membership in a set that was not given
        n += 1
        outs = sk.run(body, val)
        rets = {o[1] for o in outs if o[0] == "return"}
        label = " ".join("{}={}".format(a, int(val[a])) for a in atoms)
        if len(rets) != 1 or any(o[0] != "return" for o in outs):
            rr.bad(Finding("C13.R1", X.CORE, FN_SEL, "valuation " + label, "outcome is not a single boolean: {}".format(sorted(map(str, outs))), fn.lineno))
            continue
        got = rets.pop()
        expect = val["found"] and (val["inE"] or val["P"]) and not val["inN"]
        if not val["found"]:
            expect = False
        if got is expect or got == expect:
            rr.ok(FN_SEL, label, {"valuation": label, "expand": bool(got)})
        else:
            rr.bad(Finding("C13.R1", X.CORE, FN_SEL, "valuation " + label,
                           "returns {} but the statement requires {}".format(got, expect), fn.lineno))
    rr.instances["consistent_valuations"] = n
    if sk.unknown_tests:
        raise AnalysisError("check_template_need_expand: tests outside the atom fragment: {}".format(sorted(sk.unknown_tests)))
    # call site
    tb = X.template_branch(ctx)
    sites = [c for st in tb for c in ast.walk(st) if isinstance(c, ast.Call) and unparse(c.func).endswith(".check_template_need_expand")]
    if len(sites) != 1:
        raise AnalysisError("expand_recurse: expected one call of check_template_need_expand, found {}".format(len(sites)))
    c = sites[0]
    if [unparse(a) for a in c.args] == ["name", "templates_to_expand", "templates_to_not_expand"]:
        rr.ok(X.RECURSE, unparse(c))
    else:
        rr.bad(Finding("C13.R1", X.CORE, X.RECURSE, unparse(c), "selection is called with the wrong arguments / order", c.lineno))
    parents = ctx.index.mod("core").parents
    n_ = c
    while n_ in parents and not isinstance(n_, ast.If):
        n_ = parents[n_]
    t_ = n_.test if isinstance(n_, ast.If) else None
    if isinstance(t_, ast.BoolOp) and isinstance(t_.op, ast.And) and len(t_.values) == 2 \
            and unparse(t_.values[0]) == "not expand_all" \
            and isinstance(t_.values[1], ast.UnaryOp) and isinstance(t_.values[1].op, ast.Not) and t_.values[1].operand is c:
        rr.ok(X.RECURSE, "if not expand_all and not <selected>: re-emit")
    else:
        rr.bad(Finding("C13.R1", X.CORE, X.RECURSE, unparse(n_.test) if isinstance(n_, ast.If) else unparse(c),
                       "the re-emission branch is not `not expand_all and not selected`", c.lineno))
    return rr


def _is_parts_append(n: ast.AST) -> bool:
    return isinstance(n, ast.Call) and isinstance(n.func, ast.Attribute) and n.func.attr == "append" \
        and isinstance(n.func.value, ast.Name) and n.func.value.id == "parts" and len(n.args) == 1


_USE_LINE = [10**9]


_CLOSURES: dict = {}


def _whole_args(e: ast.AST, stmts: list, depth: int = 0, root: str = "args", line=None) -> bool:
    """e denotes all of `args` in order: `args`, or a name bound to
    tuple(f(x) for x in args) / list comprehension over the whole of args, possibly
    computed by a local helper closure that maps its whole parameter"""
    line = _USE_LINE[0] if line is None else line
    if isinstance(e, ast.Name):
        if e.id == root:
            return True
        v = X.resolve_name(stmts, e.id, line)
        return v is not None and depth < 6 and _whole_args(v, stmts, depth + 1, root, v.lineno)
    if isinstance(e, ast.Call) and isinstance(e.func, ast.Name) and e.func.id in ("tuple", "list") and len(e.args) == 1:
        return _whole_args(e.args[0], stmts, depth + 1, root, line)
    if isinstance(e, ast.Call) and isinstance(e.func, ast.Name) and e.func.id in _CLOSURES and len(e.args) == 1 and not e.keywords \
            and depth < 6:
        cl = _CLOSURES[e.func.id]
        params = [a.arg for a in cl.args.args]
        rets = [r for r in walk_no_nested(cl) if isinstance(r, ast.Return)]
        if len(params) == 1 and len(rets) == 1 and rets[0].value is not None:
            return _whole_args(e.args[0], stmts, depth + 1, root, line) and \
                _whole_args(rets[0].value, cl.body, depth + 1, params[0], rets[0].lineno)
        return False
    if isinstance(e, (ast.GeneratorExp, ast.ListComp)) and len(e.generators) == 1:
        g = e.generators[0]
        if g.ifs:
            return False
        if not (isinstance(g.iter, ast.Name) and g.iter.id == root):
            return False
        # element must be a function of the loop variable only (expand_recurse(x, ...))
        tv = unparse(g.target)
        return any(isinstance(n, ast.Name) and n.id == tv for n in ast.walk(e.elt))
    return False


def _classify(e: ast.AST, stmts: list, depth: int = 0) -> str:
    if isinstance(e, ast.Name) and depth < 4:
        if e.id == "t":
            return "expansion"
        if e.id == "ch":
            return "cookie"
        v = X.resolve_name(stmts, e.id, _USE_LINE[0])
        if v is not None:
            return _classify(v, stmts, depth + 1)
        return "unknown:" + e.id
    if isinstance(e, ast.Call):
        f = unparse(e.func)
        if f.endswith(("._unexpanded_template", "._unexpanded_arg", "._unexpanded_link", "._unexpanded_extlink")):
            return "re-emission" if e.args and _whole_args(e.args[0], stmts) else "partial re-emission"
        if f == "m.group" and len(e.args) == 1 and isinstance(e.args[0], ast.Constant) and e.args[0].value == 0:
            return "cookie"
        if f == "expand_args":
            return "expansion"
        if f == "expand_parserfn":
            return "parser function result"
        if isinstance(e.func, ast.Subscript) and "template_override_funcs" in unparse(e.func.value):
            return "override function"
        if isinstance(e.func, ast.Attribute) and e.func.attr == "format" and isinstance(e.func.value, (ast.Constant, ast.JoinedStr)):
            return _classify(e.func.value, stmts, depth + 1)
    if isinstance(e, ast.Subscript) and isinstance(e.value, ast.Name) and e.value.id == "coded" and isinstance(e.slice, ast.Slice):
        return "text between cookies"
    if isinstance(e, ast.Constant) and isinstance(e.value, str):
        return "error element" if e.value.lstrip().startswith('<strong class="error">') else "literal"
    if isinstance(e, ast.JoinedStr):
        first = e.values[0] if e.values else None
        if isinstance(first, ast.Constant) and str(first.value).startswith('<strong class="error">'):
            return "error element"
        return "literal"
    if isinstance(e, ast.BinOp) and isinstance(e.op, ast.Add):
        return _classify(e.left, stmts, depth + 1)
    return "unknown:" + unparse(e)[:40]


def rule_r2(ctx) -> RuleResult:
    rr = RuleResult("C13.R2", "every exit of the template branch is an expansion, an error element or a whole re-emission", min_instances=9)
    fnr = X.expand_shared_arms(ctx.fn(X.RECURSE), ctx)
    lp = X.main_loop(fnr)
    _CLOSURES.clear()
    _CLOSURES.update({n.name: n for n in fnr.body if isinstance(n, ast.FunctionDef)})
    tb = [lp] + [s for s in fnr.body if s.lineno > lp.lineno]
    allowed = {"expansion", "re-emission", "error element", "parser function result", "override function",
               "text between cookies", "cookie"}
    appends = []
    for st in tb:
        for n in ast.walk(st):
            if _is_parts_append(n):
                appends.append(n)
    if len(appends) < 15:
        raise AnalysisError("expand_recurse: only {} parts.append sites (20 confirmed by hand)".format(len(appends)))
    for a in appends:
        before = [s for s in lp.body if s.lineno <= a.lineno]
        _USE_LINE[0] = a.lineno
        kind = _classify(a.args[0], before)
        label = "parts.append({})".format(unparse(a.args[0])[:60])
        if kind in allowed:
            rr.ok(X.RECURSE, label, {"append": unparse(a.args[0])[:70], "kind": kind})
        else:
            rr.bad(Finding("C13.R2", X.CORE, X.RECURSE, label,
                           "this exit of the template branch emits something that is neither the expansion of this call nor the "
                           "call re-emitted with all its arguments ({})".format(kind), a.lineno))
    # early returns of expand_parserfn: name and all args are re-emitted
    pf = ctx.fn(X.PARSERFN)
    parents = ctx.index.mod("core").parents
    for n in walk_no_nested(pf):
        if isinstance(n, ast.Return) and isinstance(n.value, ast.BinOp):
            txt = unparse(n.value)
            p = parents.get(n)
            noargs = isinstance(p, ast.If) and unparse(p.test) == "not args" and n in p.body
            sample = () if noargs else ("a", "b c", "d=e")
            try:
                v = ctx.index.fold("core", n.value, {"fn_name": "FN", "args": sample})
            except Exception as e:  # noqa: BLE001
                raise AnalysisError("expand_parserfn: early return not foldable: {}".format(e))
            name = "#invoke" if "#invoke" in v else "FN"
            expect = "{{" + name + "}}" if noargs else "{{" + name + ":" + "|".join(sample) + "}}"
            if v == expect:
                rr.ok(X.PARSERFN, txt, {"return": txt, "emits_for_sample": v})
            else:
                rr.bad(Finding("C13.R2", X.CORE, X.PARSERFN, txt,
                               "a disabled parser function call (name FN, args {}) is re-emitted as {!r}, not {!r}".format(sample, v, expect),
                               n.lineno))
    return rr


class Hooks(Flow):
    """state = (template_fn known: None/True/False, n template_fn calls, t_is_none known: None/True/False, n post calls)"""

    def __init__(self):
        self.final = []
        self.body_lookups = []
        self.tf_calls = []
        self.loop_depth = 0

    def transfer_expr(self, node, state):
        if node is None:
            return [state]
        tf, n, tn, pn = state
        calls = [c for c in ast.walk(node) if isinstance(c, ast.Call)]
        calls.sort(key=lambda c: (c.end_lineno, c.end_col_offset))
        for c in calls:
            f = unparse(c.func)
            if f == "template_fn":
                n += 1
                self.tf_calls.append((c, state, self.loop_depth))
            elif f == "post_template_fn":
                pn += 1
            elif f.endswith(".get_page_resolve_redirect"):
                self.body_lookups.append((c, (tf, n, tn, pn)))
            elif _is_parts_append(c) and isinstance(c.args[0], ast.Name) and c.args[0].id == "t":
                self.final.append((c, (tf, n, tn, pn)))
        return [(tf, n, tn, pn)]

    def transfer(self, st, state):
        (s,) = self.transfer_expr(st, state)
        tf, n, tn, pn = s
        if isinstance(st, (ast.Assign, ast.AnnAssign)):
            tgt = st.targets[0] if isinstance(st, ast.Assign) else st.target
            if isinstance(tgt, ast.Name) and tgt.id == "t":
                v = st.value
                if isinstance(v, ast.Constant) and v.value is None:
                    tn = True
                elif isinstance(v, ast.Call) and unparse(v.func) == "template_fn":
                    tn = None
                else:
                    tn = False
        return [(tf, n, tn, pn)]

    def branch(self, test, state):
        (s,) = self.transfer_expr(test, state)
        tf, n, tn, pn = s
        t = unparse(test)
        if t == "template_fn is not None":
            return [(True, n, tn, pn)], [(False, n, tn, pn)]
        if t == "t is None":
            a = [] if tn is False else [(tf, n, True, pn)]
            b = [] if tn is True else [(tf, n, False, pn)]
            return a, b
        return [s], [s]

    def run_stmt(self, st, states):
        if isinstance(st, (ast.For, ast.While)):
            self.loop_depth += 1
            try:
                return super().run_stmt(st, states)
            finally:
                self.loop_depth -= 1
        return super().run_stmt(st, states)


def rule_r3(ctx) -> RuleResult:
    rr = RuleResult("C13.R3", "template_fn once per expanded call with the final argument map; post_template_fn sees and may replace t",
                    min_instances=6)
    tb = X.template_branch(ctx)
    w = Hooks()
    w.run_block(tb, {(None, 0, None, 0)})
    if not w.final:
        raise AnalysisError("template branch: final parts.append(t) not found")
    for c, (tf, n, tn, pn) in w.final:
        want = 1 if tf is True else 0
        label = "path to parts.append(t) with template_fn {}".format({True: "given", False: "None", None: "untested"}[tf])
        if tf is None and n > 0:
            rr.bad(Finding("C13.R3", X.CORE, X.RECURSE, label, "template_fn is called without the `is not None` test", c.lineno))
        elif n != want:
            rr.bad(Finding("C13.R3", X.CORE, X.RECURSE, label,
                           "template_fn is called {} time(s) on this path; the statement requires exactly {}".format(n, want), c.lineno))
        else:
            rr.ok(X.RECURSE, label + " calls={}".format(n), {"path": label, "template_fn_calls": n, "post_template_fn_calls": pn})
        if pn > 1:
            rr.bad(Finding("C13.R3", X.CORE, X.RECURSE, label + " post", "post_template_fn is called more than once", c.lineno))
    for c, st, depth in w.tf_calls:
        if depth > 0:
            rr.bad(Finding("C13.R3", X.CORE, X.RECURSE, unparse(c), "template_fn is called inside an inner loop (once per argument, not once per call)", c.lineno))
        args = [unparse(a) for a in c.args]
        if len(args) == 2 and "name" in args[0] and args[1] == "ht":
            rr.ok(X.RECURSE, unparse(c), {"call": unparse(c)})
        else:
            rr.bad(Finding("C13.R3", X.CORE, X.RECURSE, unparse(c), "template_fn must receive (name, ht)", c.lineno))
    # argument map complete before the hook: the arg loop precedes the call lexically and is not nested around it
    arg_loops = [n for st in tb for n in ast.walk(st) if isinstance(n, ast.For) and "args[1:]" in unparse(n.iter)]
    if not arg_loops:
        raise AnalysisError("template branch: argument loop vanished")
    al = arg_loops[-1]
    for c, st, depth in w.tf_calls:
        if c.lineno > al.end_lineno:
            rr.ok(X.RECURSE, "template_fn after the argument loop")
        else:
            rr.bad(Finding("C13.R3", X.CORE, X.RECURSE, unparse(c), "template_fn is called before the argument map is complete", c.lineno))
    # default body only under `t is None`
    for c, (tf, n, tn, pn) in w.body_lookups:
        if tn is True:
            rr.ok(X.RECURSE, "body lookup under t is None")
        else:
            rr.bad(Finding("C13.R3", X.CORE, X.RECURSE, unparse(c)[:70],
                           "the default body is computed although the hook's result may be set (not under `t is None`)", c.lineno))
    # post_template_fn: `t2 = post_template_fn(name, ht, t)`; `if t2 is not None: t = t2`
    posts = [n for st in tb for n in ast.walk(st) if isinstance(n, ast.Assign) and isinstance(n.value, ast.Call)
             and unparse(n.value.func) == "post_template_fn"]
    if len(posts) != 1:
        rr.bad(Finding("C13.R3", X.CORE, X.RECURSE, "post_template_fn(...)", "expected exactly one post_template_fn call site, found {}".format(len(posts)),
                       tb[0].lineno))
    else:
        p = posts[0]
        a = [unparse(x) for x in p.value.args]
        ok_args = len(a) == 3 and "name" in a[0] and a[1] == "ht" and a[2] == "t"
        tv = unparse(p.targets[0])
        repl = any(isinstance(n, ast.If) and unparse(n.test) == tv + " is not None"
                   and any(unparse(s) == "t = " + tv for s in n.body) for st in tb for n in ast.walk(st))
        if ok_args and repl:
            rr.ok(X.RECURSE, unparse(p))
        else:
            rr.bad(Finding("C13.R3", X.CORE, X.RECURSE, unparse(p),
                           "post_template_fn must receive (name, ht, t) and its non-None result must replace t", p.lineno))
        # t is final: no assignment to t between add_newline_to_expansion and the hook other than that
        later = [n for st in tb for n in ast.walk(st) if isinstance(n, ast.Assign) and unparse(n.targets[0]) == "t"
                 and n.lineno > p.lineno and unparse(n.value) != tv]
        if later:
            rr.bad(Finding("C13.R3", X.CORE, X.RECURSE, unparse(later[0]), "t is modified after post_template_fn has seen it", later[0].lineno))
    return rr


def rule_r4(ctx) -> RuleResult:
    rr = RuleResult("C13.R4", "formatter delimiters are consumed by the encoder's regexes; nowiki variants decode to the plain ones",
                    min_instances=12)
    consts = ctx.index.consts("core")
    table = {
        "T": ("core.Wtp._unexpanded_template", "TEMPLATES", ("a", "b")),
        "A": ("core.Wtp._unexpanded_arg", "TEMPLATE_ARGUMENTS", ("a", "b")),
        "L": ("core.Wtp._unexpanded_link", "LINKS", ("a", "b")),
        "E": ("core.Wtp._unexpanded_extlink", "EXTERNAL_LINKS", ("http://a b",)),
    }
    for kind, (fname, rxname, sample) in table.items():
        fn = ctx.fn(fname)
        if rxname not in consts:
            raise AnalysisError("regex constant core.{} not foldable".format(rxname))
        rx = consts[rxname]
        plain = nowiki = None
        for n in walk_no_nested(fn):
            if isinstance(n, ast.Return) and n.value is not None:
                parents = ctx.index.mod("core").parents
                under_nowiki = isinstance(parents.get(n), ast.If) and unparse(parents[n].test) == "nowiki"
                try:
                    v = ctx.index.fold("core", n.value, {"args": sample})
                except Exception as e:  # noqa: BLE001
                    raise AnalysisError("{}: return expression not foldable: {}".format(fname, e))
                if under_nowiki:
                    nowiki = v
                else:
                    plain = v
        if plain is None or nowiki is None:
            raise AnalysisError(fname + ": plain/nowiki return not found")
        m = re.fullmatch(rx, plain)
        if m is not None:
            rr.ok(fname, "plain form {!r} matches {}".format(plain, rxname), {"kind": kind, "emitted": plain, "regex": rxname})
        else:
            rr.bad(Finding("C13.R4", X.CORE, fname, "emits {!r}".format(plain),
                           "a call re-emitted by this formatter is not recognised by the encoder regex {} any more".format(rxname), fn.lineno))
        if m is not None:
            inner = m.group(1)
            if inner == "|".join(sample):
                rr.ok(fname, "content group == '|'.join(args)")
            else:
                rr.bad(Finding("C13.R4", X.CORE, fname, "inner {!r}".format(inner),
                               "the encoder extracts {!r} from the re-emitted call instead of the arguments joined by '|'".format(inner), fn.lineno))
        if html.unescape(nowiki) == plain:
            rr.ok(fname, "nowiki form decodes to the plain form", {"kind": kind, "nowiki": nowiki})
        else:
            rr.bad(Finding("C13.R4", X.CORE, fname, "nowiki form {!r}".format(nowiki),
                           "html.unescape of the nowiki form is {!r}, not the plain form {!r}".format(html.unescape(nowiki), plain), fn.lineno))
    # vbar_split splits on the joiner
    vs = ctx.fn("core.Wtp._encode.vbar_split")
    src = unparse(vs)
    if '"|" + v' in src.replace("'", '"') or "'|' + v" in src:
        rr.ok("core.Wtp._encode.vbar_split", "splits on '|'")
    else:
        rr.bad(Finding("C13.R4", X.CORE, "core.Wtp._encode.vbar_split", "'|' + v", "argument splitter no longer splits on the formatter's joiner", vs.lineno))
    return rr


def rule_r5(ctx) -> RuleResult:
    """the non-expanding exits leave the expansion path balanced (shared with C16.R1)"""
    from . import c16

    r = c16.rule_r1(ctx)
    rr = RuleResult("C13.R5", "re-emitting exits leave the expansion path balanced (shared with C16.R1)", min_instances=5)
    scope = ("core.Wtp.expand.expand_recurse",)
    for f in r.findings:
        if f.function.startswith(scope):
            rr.bad(Finding("C13.R5", f.file, f.function, f.construct,
                           f.message + "; after ~100 such re-emitted calls every later call on the page is replaced by a 'too deep recursion' error",
                           f.line))
    keep = {c for c in r.cases if c[0].startswith(scope)}
    rr.cases = keep
    rr.obligations = len(keep)
    rr.discharged = len(keep) - len(rr.findings)
    rr.samples = [s_ for s_ in r.samples if str(s_.get("fn", "")).startswith(scope)]
    return rr


def rule_r6(ctx) -> RuleResult:
    """The selection function reads need_pre_expand through the memoised get_page: a flag set by
    set_template_pre_expand()/add_page()/analyze_templates() is only seen if those writers
    invalidate the memo (shared with C10.R1)."""
    from ..core.sqlfacts import SqlFacts
    from . import c10

    r = c10.rule_r1(ctx, SqlFacts(ctx.index))
    rr = RuleResult("C13.R6", "the selection function sees flags written earlier on the same context (shared with C10.R1)", min_instances=3)
    for f in r.findings:
        rr.bad(Finding("C13.R6", f.file, f.function, f.construct,
                       f.message + "; a template flagged after it was first looked up is re-emitted unexpanded under pre_expand and its hooks never run", f.line))
    rr.cases = set(r.cases)
    rr.obligations = r.obligations
    rr.discharged = r.discharged
    rr.samples = list(r.samples)
    return rr


def rule_r7(ctx) -> RuleResult:
    """A parser-function call that is not expanded comes back under the name it was written with:
    the name that the re-emitting returns of expand_parserfn concatenate has not been mapped through
    `parser_function_aliases` -- neither inside expand_parserfn before those returns nor in the
    helper that produced it (`{{#si:x|a}}` must not come back as `{{#if:x|a}}`)."""
    from ..core.callgraph import CallGraph

    rr = RuleResult("C13.R7", "re-emitted parser-function calls keep the name as written (no alias mapping before the re-emitting exits)",
                    min_instances=2)
    fn = ctx.fn(X.PARSERFN)
    params = [a.arg for a in fn.args.args]
    if not params:
        raise AnalysisError("expand_parserfn: parameters vanished")
    name_param = params[0]
    rets = [r for r in walk_no_nested(fn) if isinstance(r, ast.Return) and r.value is not None
            and any(isinstance(x, ast.Name) and x.id == name_param for x in ast.walk(r.value))
            and any(isinstance(x, ast.Constant) and isinstance(x.value, str) and "{{" in x.value for x in ast.walk(r.value))]
    if not rets:
        raise AnalysisError("expand_parserfn: no re-emitting return that uses `{}` found".format(name_param))
    assigns = sorted([n for n in walk_no_nested(fn) if isinstance(n, ast.Assign) and any(isinstance(t, ast.Name) and t.id == name_param for t in n.targets)],
                     key=lambda n: n.lineno)
    for r in rets:
        tainted = [a for a in assigns if a.lineno < r.lineno and "parser_function_aliases" in unparse(a.value)]
        if tainted:
            rr.bad(Finding("C13.R7", X.CORE, X.PARSERFN, unparse(r)[:70],
                           "the name re-emitted here was replaced through parser_function_aliases at line {}: a call written with a localized "
                           "alias comes back under another name".format(tainted[0].lineno), r.lineno))
        else:
            rr.ok(X.PARSERFN, unparse(r)[:60] + " uses the name as passed in", {"return": unparse(r)[:60]})
    # tests of the name against a canonical function name need the canonical name: they come after the
    # alias mapping (a switch such as expand_invoke must also cover `{{#invoque:...}}`)
    alias_assigns = [a for a in assigns if "parser_function_aliases" in unparse(a.value)]
    if alias_assigns:
        first_alias = min(a.lineno for a in alias_assigns)
        for c in walk_no_nested(fn):
            if isinstance(c, ast.Compare) and isinstance(c.left, ast.Name) and c.left.id == name_param and len(c.comparators) == 1 \
                    and isinstance(c.comparators[0], ast.Constant) and isinstance(c.comparators[0].value, str) \
                    and c.comparators[0].value.startswith("#"):
                if c.lineno < first_alias:
                    rr.bad(Finding("C13.R7", X.CORE, X.PARSERFN, unparse(c),
                                   "the function name is compared with {!r} before localized aliases are mapped (line {}): a call written with an "
                                   "alias of that function escapes the switch this test implements".format(c.comparators[0].value, first_alias),
                                   c.lineno))
                else:
                    rr.ok(X.PARSERFN, unparse(c) + " after alias mapping", {"test": unparse(c)})
    # producers of the name at the call sites
    cg = CallGraph(ctx.index)
    rec = ctx.fn(X.RECURSE)
    producers = set()
    for c in walk_no_nested(rec):
        if isinstance(c, ast.Call) and isinstance(c.func, ast.Name) and c.func.id == "expand_parserfn" and c.args and isinstance(c.args[0], ast.Name):
            v = c.args[0].id
            for a in walk_no_nested(rec):
                if isinstance(a, ast.Assign) and any(isinstance(t, ast.Name) and t.id == v for t in a.targets) and a.lineno < c.lineno:
                    for cc in ast.walk(a.value):
                        if isinstance(cc, ast.Call) and isinstance(cc.func, ast.Attribute) and ctx.index.has_func("core.Wtp." + cc.func.attr):
                            producers.add("core.Wtp." + cc.func.attr)
                    if "parser_function_aliases" in unparse(a.value):
                        rr.bad(Finding("C13.R7", X.CORE, X.RECURSE, unparse(a)[:70], "the function name is alias-mapped before expand_parserfn sees it", a.lineno))
    for pfn in sorted(producers):
        hit = None
        for f in sorted({pfn} | cg.closure([pfn])):
            if ctx.index.has_func(f) and any(isinstance(x, ast.Attribute) and x.attr == "parser_function_aliases" for x in ast.walk(ctx.index.func(f))):
                hit = f
                break
        if hit:
            rr.bad(Finding("C13.R7", X.CORE, pfn, "parser_function_aliases consulted in " + hit,
                           "{} feeds the name that expand_parserfn re-emits and maps it through the alias table: with expand_parserfns off, "
                           "`{{{{#si:x|a|b}}}}` comes back as `{{{{#if:x|a|b}}}}`".format(pfn.split(".")[-1]), ctx.index.func(pfn).lineno))
        else:
            rr.ok(pfn, "normalises spelling only (no alias mapping)", {"producer": pfn})
    return rr


class _ExpandOnce(Flow):
    """state = (frozenset((var, origin)), frozenset(expanded origins)).  An *origin* names one piece of
    raw (unexpanded) argument text; variables assigned from one another share it."""

    def __init__(self, rr, relfile, qual, rule):
        self.rr, self.relfile, self.qual, self.rule = rr, relfile, qual, rule

    @staticmethod
    def _key(e):
        if isinstance(e, ast.Name):
            return e.id
        if isinstance(e, ast.Subscript) and isinstance(e.value, ast.Name) and isinstance(e.slice, ast.Constant):
            return "{}[{}]".format(e.value.id, e.slice.value)
        return None

    def _rebind(self, binds, expanded, var, origin):
        """bind `var` to a fresh `origin`; variables still aliasing the previous text keep its status"""
        binds = dict(binds)
        prev = (origin, "prev")
        for v, o in list(binds.items()):
            if o == origin and v != var:
                binds[v] = prev
        expanded = set(expanded)
        if origin in expanded:
            expanded.discard(origin)
            if any(o == prev for o in binds.values()):
                expanded.add(prev)
        if origin is None:
            binds.pop(var, None)
        else:
            binds[var] = origin
        return binds, expanded

    def _expansions(self, node, binds, expanded, where):
        calls = [c for c in ast.walk(node) if isinstance(c, ast.Call) and isinstance(c.func, ast.Name) and c.func.id == "expander" and c.args]
        calls.sort(key=lambda c: (c.end_lineno, c.end_col_offset))
        for c in calls:
            k = self._key(c.args[0])
            if k is None:
                continue
            o = binds.get(k, k if "[" in k else None)
            if o is None:
                continue
            if o in expanded:
                self.rr.bad(Finding(self.rule, self.relfile, self.qual, unparse(c)[:60],
                                    "this argument text has already been expanded on the same path (line {}): templates inside it are expanded "
                                    "twice, so template_fn/post_template_fn run twice for one call on the page".format(where.lineno), where.lineno))
            expanded.add(o)
        return expanded

    def transfer(self, st, state):
        binds, expanded = dict(state[0]), set(state[1])
        expanded = self._expansions(st, binds, expanded, st)
        if isinstance(st, ast.Assign) and len(st.targets) == 1:
            t, v = st.targets[0], st.value
            if isinstance(t, ast.Name):
                k = self._key(v)
                if k is not None:
                    o = binds.get(k, k if "[" in k else None)
                    b2 = dict(binds)
                    if o is None:
                        b2.pop(t.id, None)
                    else:
                        b2[t.id] = o
                    binds = b2
                else:
                    binds, expanded = self._rebind(binds, expanded, t.id, None)
            elif isinstance(t, (ast.Tuple, ast.List)):
                for el in t.elts:
                    if isinstance(el, ast.Name):
                        binds, expanded = self._rebind(binds, expanded, el.id, "{}@{}".format(el.id, st.lineno))
        return [(frozenset(binds.items()), frozenset(expanded))]

    def transfer_expr(self, node, state):
        if node is None:
            return [state]
        binds, expanded = dict(state[0]), set(state[1])
        expanded = self._expansions(node, binds, expanded, node)
        return [(frozenset(binds.items()), frozenset(expanded))]

    def for_target(self, node, state):
        binds, expanded = dict(state[0]), set(state[1])
        if isinstance(node.target, ast.Name):
            binds, expanded = self._rebind(binds, expanded, node.target.id, "{}@{}".format(node.target.id, node.lineno))
        return [(frozenset(binds.items()), frozenset(expanded))]


def expand_once(ctx, rule: str) -> RuleResult:
    """Parser functions receive their arguments unexpanded and expand them through the `expander`
    callback.  On no path does a registered parser function expand the same piece of argument text
    twice: templates inside it would be expanded twice, and the hooks would run twice for one call."""
    from ..core.callgraph import CallGraph

    rr = RuleResult(rule, "a parser function expands each piece of argument text at most once per path", min_instances=30)
    cg = CallGraph(ctx.index)
    for dotted in sorted(cg.registered_parser_functions):
        if not ctx.index.has_func(dotted):
            continue
        fn = ctx.index.func(dotted)
        if not any(isinstance(c, ast.Call) and isinstance(c.func, ast.Name) and c.func.id == "expander" for c in walk_no_nested(fn)):
            continue
        before = len(rr.findings)
        w = _ExpandOnce(rr, ctx.index.mod(dotted.split(".")[0]).relpath, dotted, rule)
        try:
            w.run_function(fn, [(frozenset(), frozenset())])
        except AnalysisError:
            raise
        if len(rr.findings) == before:
            rr.ok(dotted, "no argument text expanded twice", {"fn": dotted})
    return rr


def rule_r8(ctx) -> RuleResult:
    return expand_once(ctx, "C13.R8")


EXPANDERS = {"expand", "expand_recurse", "expander", "expand_all_templates", "expand_args", "expand_parserfn", "call_parser_function",
             "expandTemplate", "callParserFunction", "preprocess"}


def _expander_call(e) -> bool:
    if not isinstance(e, ast.Call):
        return False
    f = e.func
    name = f.id if isinstance(f, ast.Name) else (f.attr if isinstance(f, ast.Attribute) else "")
    return name in EXPANDERS


def memoised_expansions(fn) -> list:
    """[(store statement, container text, call)] where the result of an expansion call is stored into `C[key]` and that store is
    control-dependent on a miss in the same container (`r = C.get(key)` / `C[key]` / `key in C` tested above it): the
    memo-table signature.  A map that is only filled (the argument map of a template call) or only read is not one."""
    parents = {c: p_ for p_ in ast.walk(fn) for c in ast.iter_child_nodes(p_)}
    # names holding an expansion result
    holders: dict = {}
    for n in walk_no_nested(fn):
        if isinstance(n, ast.Assign):
            calls = [c for c in ast.walk(n.value) if _expander_call(c)]
            if calls:
                for t in n.targets:
                    for x in ast.walk(t):
                        if isinstance(x, ast.Name):
                            holders[x.id] = calls[0]
    out = []
    for n in walk_no_nested(fn):
        if not isinstance(n, ast.Assign):
            continue
        subs = [t for t in n.targets if isinstance(t, ast.Subscript)]
        if not subs:
            continue
        call = next((c for c in ast.walk(n.value) if _expander_call(c)), None)
        if call is None and isinstance(n.value, ast.Name) and n.value.id in holders:
            call = holders[n.value.id]
        if call is None:
            continue
        cont = unparse(subs[0].value)
        # names bound to a lookup in the same container
        probes = set()
        for a in walk_no_nested(fn):
            if isinstance(a, ast.Assign) and len(a.targets) == 1 and isinstance(a.targets[0], ast.Name):
                v = a.value
                if (isinstance(v, ast.Call) and isinstance(v.func, ast.Attribute) and v.func.attr == "get" and unparse(v.func.value) == cont) \
                        or (isinstance(v, ast.Subscript) and unparse(v.value) == cont):
                    probes.add(a.targets[0].id)
        def probing(t) -> bool:
            for x in ast.walk(t):
                if isinstance(x, ast.Name) and x.id in probes:
                    return True
                if isinstance(x, ast.Compare) and any(isinstance(o, (ast.In, ast.NotIn)) for o in x.ops) and any(unparse(c) == cont for c in x.comparators):
                    return True
                if isinstance(x, ast.Call) and isinstance(x.func, ast.Attribute) and x.func.attr == "get" and unparse(x.func.value) == cont:
                    return True
            return False
        st = n
        conds = X.path_conditions(parents, st)
        # also the conditions under which the call itself ran (the store may follow the guarded block)
        cst = call
        while cst in parents and not isinstance(cst, ast.stmt):
            cst = parents[cst]
        conds += X.path_conditions(parents, cst)
        if any(probing(t) for t, _ in conds):
            out.append((n, cont, call))
    return out


def rule_r9(ctx) -> RuleResult:
    """Hooks see every expanded call, and an expansion depends on more than its text (the calling frame's arguments, the page
    state, what the hooks return).  So no expansion entry point may answer from a table of earlier results: neither a memo
    decorator on a function that expands, nor a hand-written `r = cache.get(key); if r is None: r = cache[key] = expand(...)`.
    (Seeds C13-8A: parser-function arguments memoised by their text -- the hooks run once for several identical calls; C08-8A:
    frame:preprocess results memoised per page by (template title, text) -- the frame's arguments are not in the key.)"""
    rr = RuleResult("C13.R9", "no expansion entry point answers from a table of earlier results", min_instances=20)
    n_calls = 0
    for dotted, m, f in ctx.index.all_functions():
        if dotted.split(".")[0] not in ("core", "parserfns", "luaexec", "node_expand"):
            continue
        calls = [c for c in walk_no_nested(f) if _expander_call(c)]
        if not calls:
            continue
        ctx.touched(dotted, m.relpath)
        n_calls += len(calls)
        for d in f.decorator_list:
            dn = unparse(d.func if isinstance(d, ast.Call) else d).split(".")[-1]
            if dn in ("lru_cache", "cache", "cached_property", "memoize", "memoized"):
                rr.bad(Finding("C13.R9", m.relpath, dotted, "@" + unparse(d)[:40],
                               "a function that expands wikitext is memoised: a repeated call returns the earlier result without running the hooks "
                               "and whatever the frame or the page state is by then", f.lineno))
        memos = memoised_expansions(f)
        for st, cont, call in memos:
            rr.bad(Finding("C13.R9", m.relpath, dotted, "{} = {}".format(unparse(st.targets[0])[:40], unparse(call)[:40]),
                           "the result of `{}` is kept in `{}` and reused on a hit: the hooks (template_fn / post_template_fn) do not run for the "
                           "repeated call, and whatever the expansion depends on besides the key (the calling frame's arguments, the page state) "
                           "is ignored".format(unparse(call.func), cont), st.lineno))
        if not memos:
            rr.ok(dotted, "{} expansion call(s), none memoised".format(len(calls)))
    rr.instances["expansion_calls"] = n_calls
    return rr


def rule_r10(ctx) -> RuleResult:
    """Whether `{{name}}` is a parser function / magic variable or a template is decided by looking the canonicalised name up in
    the registry.  Function names (`#if`, `lc`) are case-insensitive and registered in lower case; magic variables (`PAGENAME`)
    are case-sensitive and registered in upper case.  The canonicalisation may therefore lower-case a name that is not in the
    registry, but it may never map a name *to* another case that is: `{{pagename}}` is a call of Template:pagename, which has
    to be checked against the selection, handed to template_fn and re-emitted under its own name (seed C13-9B:
    `if name.upper() in PARSER_FUNCTIONS: return name.upper()`)."""
    rr = RuleResult("C13.R10", "name canonicalisation never turns a template name into a registered magic variable", min_instances=1)
    dotted = "core.Wtp._canonicalize_parserfn_name"
    fn = ctx.fn(dotted)
    raising = [c for c in walk_no_nested(fn) if isinstance(c, ast.Call) and isinstance(c.func, ast.Attribute)
               and c.func.attr in ("upper", "title", "capitalize", "swapcase") and not c.args]
    rets = [r for r in walk_no_nested(fn) if isinstance(r, ast.Return) and r.value is not None]
    if not rets:
        raise AnalysisError("_canonicalize_parserfn_name: no return found")
    if raising:
        for c in raising:
            rr.bad(Finding("C13.R10", X.CORE, dotted, unparse(c)[:50],
                           "the name is mapped to another case (`{}`) on the way to the registry lookup: a template whose name spells a "
                           "magic variable in different case is expanded as the variable -- never checked against the selection, never "
                           "handed to template_fn, and re-emitted under the variable's name".format(unparse(c)[:40]), c.lineno))
    else:
        rr.ok(dotted, "only lower-casing / white-space normalisation ({} returns)".format(len(rets)))
    return rr


def run(ctx) -> list:
    return [rule_r1(ctx), rule_r2(ctx), rule_r3(ctx), rule_r4(ctx), rule_r5(ctx), rule_r6(ctx), rule_r7(ctx), rule_r8(ctx), rule_r9(ctx), rule_r10(ctx)]
