"""C03 -- tables, HTML elements, links and template calls parse to their written structure.

R1  placement typestate (shared with C01.R8): rows only under tables, cells
    only under rows, captions only under tables.
R2  the allowed-tag table is consumable by the tokenizer: keys are lower case,
    in the tag-name class of both regexes, free of regex metacharacters; values
    use only the four HTMLTagData fields.
R3  cookie kinds: the kinds accepted by _save_value are produced only by the
    encoder's producers and dispatched by every consumer.
R4  attribute grammar: over the URL-safe alphabet, every attribute that tag_fn's
    start-tag regex accepts is consumed in full by parse_attrs' regex; same
    for the table-attribute pair regex.
R5  the T, A, L (and URL) arms of magic_fn agree: push, arguments processed with
    begin-of-line handling disabled, `|` between arguments, pop loop that stops
    at ROOT or at the pushed kind.
R6  attribute names and values flow from the regex groups into node.attrs with
    no transformation other than stripping the quotes.
R7  `||` continues the kind of the *last* cell of the row.
"""

from __future__ import annotations

import ast
import re

import re._parser as sre_parse
import re._constants as sre_c

from ..core import rx
from ..core.index import unparse, walk_no_nested
from ..core.report import AnalysisError, Finding, RuleResult
from . import _expand as X
from . import _parser as P
from . import c01, c10

EXPLANATION = (
    "Placement typestate (rows/cells/captions) shared with C01; agreement between the HTML tag table "
    "and the tokenizer's tag-name class; exhaustiveness of the cookie-kind dispatch in all four "
    "consumers against the producer set; regex language inclusion (full match, restricted to the "
    "URL-safe alphabet of the property) between the attribute grammar tag_fn accepts and what "
    "parse_attrs consumes; feature-wise comparison of the sibling arms of magic_fn; def-use from the "
    "attribute regex groups to node.attrs. Thin: r x c shape and cell contents are runtime values."
)
ASSUMPTIONS = [
    "URL-safe alphabet = ASCII letters, digits and -._~:/?#@!$&()*+,;=% (attribute values of the property's quantifier)",
    "handlers are reached only through tokenops / process_text",
]
URLSAFE = set("ABCDEFGHIJKLMNOPQRSTUVWXYZabcdefghijklmnopqrstuvwxyz0123456789-._~:/?#@!$&()*+,;%")


def rule_r1(ctx) -> RuleResult:
    r = c01.rule_r8(ctx)
    rr = RuleResult("C03.R1", "rows only under tables, cells only under rows, captions only under tables", min_instances=4)
    for f in r.findings:
        if "LIST_ITEM" not in f.construct:
            rr.bad(Finding("C03.R1", f.file, f.function, f.construct, f.message, f.line))
    keep = {c for c in r.cases if "LIST_ITEM" not in c[1]}
    rr.cases = keep
    rr.obligations = len(keep)
    rr.discharged = len(keep) - len(rr.findings)
    rr.samples = [s for s in r.samples if s.get("push") != "LIST_ITEM"]
    return rr


def rule_r2(ctx) -> RuleResult:
    rr = RuleResult("C03.R2", "allowed-tag table agrees with the tokenizer's tag-name class", min_instances=70)
    tags = ctx.index.const("wikihtml", "ALLOWED_HTML_TAGS")
    fields = {"parents", "content", "close-next", "no-end-tag"}
    WH = "src/wikitextprocessor/wikihtml.py"
    name_re = re.compile(r"[-a-zA-Z0-9]+\Z")
    for k, v in tags.items():
        probs = []
        if k != k.lower():
            probs.append("not lower case (tag_fn lower-cases the name before the lookup)")
        if not name_re.match(k):
            probs.append("outside the tag-name class [-a-zA-Z0-9]+ of the tokenizer")
        if re.escape(k) != k.replace("-", r"\-") and re.escape(k) != k:
            probs.append("contains a regex metacharacter (set_inside_html_tags_re joins keys unescaped)")
        extra = set(v) - fields
        if extra:
            probs.append("unknown fields {}".format(sorted(extra)))
        if probs:
            rr.bad(Finding("C03.R2", WH, "wikihtml.ALLOWED_HTML_TAGS", repr(k), "; ".join(probs), 0))
        else:
            rr.ok("wikihtml.ALLOWED_HTML_TAGS", k)
    rr.samples.append({"tags": len(tags)})
    return rr


KINDS = {"T", "A", "L", "E", "N"}


def rule_r3(ctx) -> RuleResult:
    rr = RuleResult("C03.R3", "every cookie kind that can be saved is dispatched by every consumer", min_instances=9)
    sv = ctx.fn("core.Wtp._save_value")
    accepted = None
    for n in walk_no_nested(sv):
        if isinstance(n, ast.Assert) and isinstance(n.test, ast.Compare) and unparse(n.test.left) == "kind":
            accepted = {e.value for e in n.test.comparators[0].elts if isinstance(e, ast.Constant)}
    if accepted is None:
        raise AnalysisError("_save_value: kind assertion vanished")
    rr.instances["accepted_kinds"] = sorted(accepted)
    consumers = {
        "parser.magic_fn": ctx.fn("parser.magic_fn"),
        X.ARGS: X.main_loop(ctx.fn(X.ARGS)),
        X.RECURSE: X.main_loop(ctx.fn(X.RECURSE)),
        X.cookie_replacer(ctx)[0]: X.cookie_replacer(ctx)[1],
    }
    for name, node in consumers.items():
        arms = {k for k in X.kind_arms(node, ctx=ctx) if not k.startswith("%")}
        relfile = ctx.index.mod(name.split(".")[0]).relpath
        if arms == accepted:
            rr.ok(name, "dispatches " + ",".join(sorted(arms)), {"consumer": name, "kinds": sorted(arms)})
        else:
            rr.bad(Finding("C03.R3", relfile, name, "kind dispatch {}".format(sorted(arms)),
                           "consumer handles {} but _save_value accepts {}: kinds {} fall into the error arm / are dropped".format(
                               sorted(arms), sorted(accepted), sorted(accepted ^ arms)), getattr(node, "lineno", 0)))
    n_prod = 0
    for dotted, m, f in ctx.index.all_functions():
        for c in walk_no_nested(f):
            if isinstance(c, ast.Call) and unparse(c.func).endswith("._save_value") and c.args:
                a = c.args[0]
                n_prod += 1
                if isinstance(a, ast.Constant):
                    if a.value in accepted:
                        rr.ok(dotted, "_save_value({!r}, ...)".format(a.value))
                    else:
                        rr.bad(Finding("C03.R3", m.relpath, dotted, unparse(c)[:60], "producer uses a kind that _save_value rejects", c.lineno))
                elif unparse(a) == "kind":
                    rr.ok(dotted, "_save_value(kind, ...) re-saves an existing cookie's kind")
                else:
                    rr.bad(Finding("C03.R3", m.relpath, dotted, unparse(c)[:60], "producer's kind is not a constant", c.lineno))
    rr.instances["producer_sites"] = n_prod
    return rr


def _group_items(tree, gid):
    def find(items):
        for op, av in items:
            if op is sre_c.SUBPATTERN:
                if av[0] == gid:
                    return av[3]
                r = find(av[3])
                if r is not None:
                    return r
            elif op in (sre_c.MAX_REPEAT, sre_c.MIN_REPEAT):
                r = find(av[2])
                if r is not None:
                    return r
            elif op is sre_c.BRANCH:
                for alt in av[1]:
                    r = find(alt)
                    if r is not None:
                        return r
        return None

    return find(tree)


def rule_r4(ctx) -> RuleResult:
    rr = RuleResult("C03.R4", "attributes accepted by the tag regexes are consumed in full by the attribute parser", min_instances=2)
    START, END = c01._tag_fn_patterns(ctx)
    tree = sre_parse.parse(START)
    one_attr = _group_items(tree, 3)  # (\b name (\s*=\s*value)? \s*)
    if one_attr is None:
        raise AnalysisError("tag_fn start regex: attribute group not found")
    pa = ctx.fn("parser.parse_attrs")
    pats = [c for c in walk_no_nested(pa) if isinstance(c, ast.Call) and unparse(c.func) == "re.finditer"]
    if len(pats) != 1:
        raise AnalysisError("parse_attrs: finditer vanished")
    ppat = ctx.index.fold("parser", pats[0].args[0])
    ptree = sre_parse.parse(ppat)
    allowed = lambda ch: ch in URLSAFE or ch in " \"'="  # noqa: E731
    # drop the leading \b of the tag_fn group: it is relative to the preceding tag name / whitespace
    a_items = [it for it in one_attr if not (it[0] is sre_c.AT)]
    b_items = [it for it in ptree if not (it[0] is sre_c.AT)]
    cex = rx.included_in_prefix(None, None, thorough=ctx.thorough, items_a=a_items, items_b=b_items,
                                flags_a=0, flags_b=ptree.state.flags, full=True, allowed=allowed)
    st = dict(rx.included_in_prefix.last_stats)
    if cex is None:
        rr.ok("parser.parse_attrs", "L(tag_fn attribute) within L(parse_attrs pair) over the URL-safe alphabet",
              {"product_states": st.get("states"), "tag_fn_attr": "group 3 of the start-tag regex", "parse_attrs": ppat})
    else:
        rr.bad(Finding("C03.R4", P.PARSER, "parser.parse_attrs", "attribute regex {!r}".format(ppat),
                       "tag_fn accepts the attribute text {!r} but parse_attrs' pattern does not consume it as one name[=value] pair: "
                       "the element's attribute map differs from what was written".format(cex), pa.lineno))
    # table attributes: attr_assignment_pair must accept what parse_attrs needs, i.e. each pair it accepts is parsed in full
    pair = ctx.index.const("parser", "attr_assignment_pair")
    cex = rx.included_in_prefix(str(pair), None, thorough=ctx.thorough, items_b=b_items, flags_b=ptree.state.flags, full=True,
                                allowed=lambda ch: ch in URLSAFE or ch in "\"'=")
    if cex is None:
        rr.ok("parser.attr_assignment_pair", "table attribute pairs are consumed in full by parse_attrs")
    else:
        rr.bad(Finding("C03.R4", P.PARSER, "parser.attr_assignment_pair", str(pair),
                       "check_for_attributes accepts {!r} as attribute text but parse_attrs does not parse it as one pair".format(cex), 0))
    return rr


def _arm_features(ctx, arm: list) -> dict:
    src = [unparse(s) for s in arm]
    pushes = [c for s in arm for c in ast.walk(s) if isinstance(c, ast.Call) and unparse(c.func) == "_parser_push"]
    withs = [s for st in arm for s in ast.walk(st) if isinstance(s, ast.With) and "begline_disabled" in unparse(s.items[0].context_expr)]
    feats = {"pushes": len(pushes), "with_begline_disabled": len(withs)}
    if withs:
        w = withs[0]
        body = [unparse(s) for s in w.body]
        feats["first_arg"] = bool(body) and body[0] == "process_text(ctx, args[0])"
        loops = [s for s in w.body if isinstance(s, ast.For)]
        if loops:
            lb = [unparse(s) for s in loops[0].body]
            feats["rest_iter"] = unparse(loops[0].iter)
            feats["rest_body"] = lb
    loops = [s for st in arm for s in ast.walk(st) if isinstance(s, ast.While) and any(unparse(c.func) == "_parser_pop" for c in ast.walk(s) if isinstance(c, ast.Call))]
    if loops:
        ends = set()
        for k in P.all_kinds(ctx):
            w = P.TopKind(ctx, "parser.magic_fn")
            o = w.run_block(loops[0].body, {(frozenset([k]), frozenset())})
            if (o.brk or o.ret) and not o.fall and not o.cont:
                ends.add(k)
        feats["pop_loop_ends_at"] = sorted(ends)
    pk = P.kind_name(ctx, pushes[0].args[1]) if pushes else None
    feats["pushed"] = sorted(pk) if pk else None
    return feats


def rule_r5(ctx) -> RuleResult:
    rr = RuleResult("C03.R5", "the template / argument / link / URL arms of magic_fn process their arguments the same way", min_instances=4)
    fn = ctx.fn("parser.magic_fn")
    arms = X.kind_arms(fn, ctx=ctx)
    retype = {"TEMPLATE": {"PARSER_FN"}}
    feats = {}
    for k in ("T", "A", "L"):
        if k not in arms:
            raise AnalysisError("magic_fn: arm {} vanished".format(k))
        feats[k] = _arm_features(ctx, arms[k])
    # URL sub-arm of E
    e_if = [s for s in arms.get("E", []) if isinstance(s, ast.If)]
    if e_if:
        feats["E"] = _arm_features(ctx, e_if[0].body)
    for k, f in feats.items():
        label = "arm {}".format(k)
        probs = []
        if f["pushes"] != 1:
            probs.append("pushes {} nodes".format(f["pushes"]))
        if f.get("with_begline_disabled") != 1:
            probs.append("arguments are not processed under `with ctx.begline_disabled`")
        if not f.get("first_arg"):
            probs.append("args[0] is not processed first")
        if f.get("rest_iter") != "args[1:]" or f.get("rest_body") != ["vbar_fn(ctx, '|')", "process_text(ctx, arg)"]:
            probs.append("further arguments are not `vbar_fn(ctx, '|')` then `process_text(ctx, arg)` ({})".format(f.get("rest_body")))
        pushed = set(f.get("pushed") or [])
        want_ends = {"ROOT"} | pushed | set().union(*[retype.get(p, set()) for p in pushed])
        if set(f.get("pop_loop_ends_at", [])) != want_ends:
            probs.append("closing loop ends at {} instead of {}".format(f.get("pop_loop_ends_at"), sorted(want_ends)))
        if probs:
            rr.bad(Finding("C03.R5", P.PARSER, "parser.magic_fn", label, "; ".join(probs) + " -- the sibling arms do it differently",
                           arms[k][0].lineno if k in arms else fn.lineno))
        else:
            rr.ok("parser.magic_fn", label, {"arm": k, "features": {kk: vv for kk, vv in f.items() if kk != "rest_body"}})
    return rr


def rule_r6(ctx) -> RuleResult:
    rr = RuleResult("C03.R6", "attribute names and values are stored as written", min_instances=2)
    fn = ctx.fn("parser.parse_attrs")
    stores = [n for n in walk_no_nested(fn) if isinstance(n, ast.Assign) and isinstance(n.targets[0], ast.Subscript)
              and unparse(n.targets[0].value) == "node.attrs"]
    if len(stores) != 1:
        raise AnalysisError("parse_attrs: node.attrs[...] store vanished")
    st = stores[0]
    kname, vname = unparse(st.targets[0].slice), unparse(st.value)
    assigns = {}
    for n in walk_no_nested(fn):
        if isinstance(n, ast.Assign) and isinstance(n.targets[0], ast.Name):
            assigns.setdefault(n.targets[0].id, []).append(n)
    for role, var in (("name", kname), ("value", vname)):
        for a in assigns.get(var, []):
            bad = c10._case_altering(a.value)
            other = [c for c in ast.walk(a.value) if isinstance(c, ast.Call) and isinstance(c.func, ast.Attribute)
                     and c.func.attr in ("strip", "lstrip", "rstrip", "replace", "title", "capitalize", "casefold", "translate")]
            txt = unparse(a)
            if bad is not None or other:
                rr.bad(Finding("C03.R6", P.PARSER, "parser.parse_attrs", txt,
                               "the attribute {} is transformed ({}) before it is stored: the element no longer carries exactly the written "
                               "map (names differing only in case collapse)".format(role, unparse(bad or other[0])), a.lineno))
            elif "m.group(" in txt or "[1:-1]" in txt:
                rr.ok("parser.parse_attrs", txt, {"role": role, "assign": txt})
            else:
                rr.bad(Finding("C03.R6", P.PARSER, "parser.parse_attrs", txt, "attribute {} does not come from the regex groups".format(role), a.lineno))
    return rr


def rule_r7(ctx) -> RuleResult:
    rr = RuleResult("C03.R7", "`||` continues the kind of the last cell of the row", min_instances=1)
    fn = ctx.fn("parser.double_vbar_fn")
    ifs = [n for n in fn.body if isinstance(n, ast.If) and any(isinstance(c, ast.Call) and unparse(c.func) == "table_hdr_cell_fn" for c in ast.walk(n))]
    if len(ifs) != 1:
        raise AnalysisError("double_vbar_fn: header/data decision not found")
    # the decision, with locals that are assigned once in the function replaced by their values
    once = {}
    for n in walk_no_nested(fn):
        if isinstance(n, ast.Assign) and len(n.targets) == 1 and isinstance(n.targets[0], ast.Name):
            once.setdefault(n.targets[0].id, []).append(n.value)

    class _R(ast.NodeTransformer):
        def visit_Name(self, n):
            if isinstance(n.ctx, ast.Load) and n.id != "node" and len(once.get(n.id, [])) == 1:
                return once[n.id][0]
            return n

    import copy as _copy
    t = unparse(_R().visit(_copy.deepcopy(ifs[0].test)))
    if "_parser_have(" in t or "parser_stack" in t:
        rr.bad(Finding("C03.R7", P.PARSER, "parser.double_vbar_fn", t[:160],
                       "the kind of the cell opened by `||` is decided from the whole parser stack (is a header cell open anywhere?) instead of "
                       "from the cell it continues: in a table nested inside a header cell of an enclosing table, `| a || b` makes b a header cell",
                       ifs[0].lineno))
    elif "children[-1].kind == NodeKind.TABLE_HEADER_CELL" in t:
        rr.ok("parser.double_vbar_fn", "decision inspects node.children[-1]", {"test": t[:120]})
    elif any(k in t for k in ("contain_node", "any(", "find_child", "for ")):
        rr.bad(Finding("C03.R7", P.PARSER, "parser.double_vbar_fn", t[:160],
                       "the kind of the cell opened by `||` is decided from the whole row instead of from the cell it continues: in a row "
                       "`! h` / `| a || b` the cell b becomes a header cell", ifs[0].lineno))
    else:
        raise AnalysisError("double_vbar_fn: header/data decision has an unrecognised shape (inconclusive)")
    return rr


def rule_r8(ctx) -> RuleResult:
    """Derived tag tables are computed from the final tag table."""
    rr = RuleResult("C03.R8", "tables derived from allowed_html_tags are computed after its last update in the constructor", min_instances=2)
    init = ctx.fn("core.Wtp.__init__")
    CORE = "src/wikitextprocessor/core.py"
    # statements that write self.allowed_html_tags
    writes = []
    for n in ast.walk(init):
        if isinstance(n, (ast.Assign, ast.AnnAssign)):
            t = n.targets[0] if isinstance(n, ast.Assign) else n.target
            if unparse(t) == "self.allowed_html_tags":
                writes.append(n)
        if isinstance(n, ast.Call) and isinstance(n.func, ast.Attribute) and unparse(n.func.value) == "self.allowed_html_tags" \
                and n.func.attr in ("update", "setdefault", "pop", "clear", "__setitem__"):
            writes.append(n)
        if isinstance(n, ast.Assign) and isinstance(n.targets[0], ast.Subscript) and unparse(n.targets[0].value) == "self.allowed_html_tags":
            writes.append(n)
    if not writes:
        raise AnalysisError("Wtp.__init__: no write of self.allowed_html_tags found")
    last_write = max(w.end_lineno for w in writes)
    # readers: statements of __init__ whose value depends on allowed_html_tags, directly or through f(self)
    readers = []
    for n in ast.walk(init):
        if isinstance(n, (ast.Assign, ast.AnnAssign)) and getattr(n, "value", None) is not None:
            t = n.targets[0] if isinstance(n, ast.Assign) else n.target
            if unparse(t) == "self.allowed_html_tags":
                continue
            v = n.value
            direct = any(isinstance(x, ast.Attribute) and x.attr == "allowed_html_tags" for x in ast.walk(v))
            via = None
            for c in ast.walk(v):
                if isinstance(c, ast.Call) and isinstance(c.func, ast.Name) and any(unparse(a) == "self" for a in c.args):
                    for mn in ("parser", "core"):
                        if ctx.index.has_func(mn + "." + c.func.id):
                            callee = ctx.index.func(mn + "." + c.func.id)
                            if any(isinstance(x, ast.Attribute) and x.attr == "allowed_html_tags" for x in ast.walk(callee)):
                                via = c.func.id
            if direct or via:
                readers.append((n, unparse(t), via))
    if len(readers) < 2:
        raise AnalysisError("Wtp.__init__: derived tag tables not found ({} readers)".format(len(readers)))
    for n, tgt, via in readers:
        label = "{} = {}".format(tgt, (via + "(self)") if via else "f(self.allowed_html_tags)")
        if n.lineno > last_write:
            rr.ok("core.Wtp.__init__", label, {"derived": tgt, "computed_after_line": last_write})
        else:
            rr.bad(Finding("C03.R8", CORE, "core.Wtp.__init__", label,
                           "`{}` is derived from allowed_html_tags before the table receives its last update (extension_tags): tags registered by "
                           "the caller are accepted by tag_fn but missing from the derived table, so nesting with them is mis-parsed".format(tgt), n.lineno))
    return rr


def rule_r9(ctx) -> RuleResult:
    """Inside template/link arguments beginning-of-line processing is off; the nesting of these
    constructs is counted, and the state is reset per parse (shared with C01.R7)."""
    from ..core.report import shared
    from . import c01

    return shared(c01.rule_r7(ctx), "C03.R9", "beginning-of-line state inside nested arguments is counted and reset (shared with C01.R7)",
                  "a nested {{..}} or [[..]] inside an argument switches list/preformatted recognition back on for the rest of the outer argument",
                  min_instances=5)

TAG_TABLE_READERS = {
    "core.Wtp.__init__": "copies the table into the context",
    "node_expand.to_wikitext.recurse": "serialiser has no context; used only to choose between `>` and ` />` for a childless node (comment in the source)",
}


def rule_r10(ctx) -> RuleResult:
    """Who may read the module-level tag table: a context's own table (`ctx.allowed_html_tags`) also
    holds the tags registered with `extension_tags=`; parsing decisions taken from the module-level
    ALLOWED_HTML_TAGS (directly, or through constants computed from it at import) do not know them,
    so an extension element is auto-closed by the first ordinary tag inside it."""
    rr = RuleResult("C03.R10", "parsing decisions read the context's tag table, not the module-level one", min_instances=2)
    for mn, m in ctx.index.modules.items():
        if mn == "wikihtml":
            continue
        for n in ast.walk(m.tree):
            if isinstance(n, ast.Name) and n.id == "ALLOWED_HTML_TAGS" and isinstance(n.ctx, ast.Load):
                owner = None
                p_ = n
                while p_ in m.parents:
                    p_ = m.parents[p_]
                    if isinstance(p_, (ast.FunctionDef, ast.AsyncFunctionDef)):
                        owner = mn + "." + m.qual[p_]
                        break
                owner = owner or (mn + ".<module level>")
                if owner in TAG_TABLE_READERS:
                    rr.ok(owner, "reads ALLOWED_HTML_TAGS: " + TAG_TABLE_READERS[owner][:60], {"reader": owner})
                elif mn == "node_expand" and not any(isinstance(x, ast.arg) and x.arg in ("ctx", "wtp") for f_ in [m.funcs.get(owner.split(".", 1)[1])]
                                                     if f_ is not None for x in ast.walk(f_.args)):
                    # the exception is the serialiser module, which takes no context at all -- wherever in it the read sits
                    rr.ok(owner, "reads ALLOWED_HTML_TAGS: serialiser code without a context parameter", {"reader": owner})
                else:
                    rr.bad(Finding("C03.R10", m.relpath, owner, "ALLOWED_HTML_TAGS (line {})".format(n.lineno),
                                   "this code decides from the module-level tag table, which lacks the tags a context registers through "
                                   "extension_tags: such elements lose their children / are force-closed when they contain or sit in ordinary tags",
                                   n.lineno))
    return rr


def rule_r11(ctx) -> RuleResult:
    """A pattern that is anchored at its end only (`...$`) validates a whole string when it is applied
    with match()/fullmatch(); applied with search() it accepts any text that merely *ends* in a match.
    For the attribute validators of the table parser that turns a row whose last cell ends in `k=v`
    (a template with a named argument, inline HTML with an attribute) into a row with bogus attributes
    and no cells."""
    rr = RuleResult("C03.R11", "end-anchored validator patterns are applied with match(), never search()", min_instances=1)
    for dotted, m, f in ctx.index.all_functions():
        mn = dotted.split(".")[0]
        if mn not in ("parser", "core"):
            continue
        for c in walk_no_nested(f):
            if not isinstance(c, ast.Call):
                continue
            fn_ = unparse(c.func)
            pat_expr = meth = None
            if fn_ in ("re.match", "re.search", "re.fullmatch") and c.args:
                pat_expr, meth = c.args[0], fn_.split(".")[1]
            elif isinstance(c.func, ast.Attribute) and c.func.attr in ("match", "search", "fullmatch") and isinstance(c.func.value, ast.Name):
                pat_expr, meth = c.func.value, c.func.attr
            if pat_expr is None:
                continue
            try:
                pat = str(ctx.index.fold(mn, pat_expr))
            except Exception:  # noqa: BLE001
                continue
            body = re.sub(r"^\(\?[a-zA-Z]+\)", "", pat)
            end_anchored = body.endswith("$") or body.endswith("\\Z")
            start_anchored = body.startswith("^") or body.startswith("\\A")
            if not end_anchored or start_anchored:
                continue
            if meth == "search":
                rr.bad(Finding("C03.R11", m.relpath, dotted, unparse(c)[:70],
                               "the validator `{}` is anchored at its end only and is applied with search(): any text that ends in a match is "
                               "accepted (e.g. finished cells `{{{{foo|a=b}}}}` taken for row attributes)".format(unparse(pat_expr)[:40]), c.lineno))
            else:
                rr.ok(dotted, unparse(c)[:60], {"fn": dotted, "pattern": unparse(pat_expr)[:40], "method": meth})
    return rr


def run(ctx) -> list:
    rules = [rule_r1(ctx), rule_r2(ctx), rule_r3(ctx), rule_r9(ctx)]
    rules.append(rule_r4(ctx))
    rules += [rule_r5(ctx), rule_r6(ctx), rule_r7(ctx), rule_r8(ctx), rule_r10(ctx), rule_r11(ctx)]
    return rules
