"""C08 -- the Lua frame API is equivalent to the corresponding wikitext.

The equivalences are relations between executions and are not decidable
statically.  Cross-language agreement and provenance are:

R1  tuple layout: Python stores frame arguments as (value, is_named); the Lua
    side reads v[0] as the value it preprocesses and v[1] as the flag that
    triggers trimming of the *preprocessed* value.
R2  provenance of the frames: the module frame is built from invoke_args[2:]
    under the module's name; the parent frame from the enclosing template's
    (title, args); preprocess and expandTemplate expand in the calling page
    context (`parent`); positional numbering starts at 1 and steps by 1.
R3  named-argument detection agrees with the expander (= C14.R2, C14.R4).
R4  expandTemplate hands the argument vector to the expander as a saved call
    (cookie), not as re-serialised wikitext; callParserFunction calls the
    canonicalised registered function with the given arguments.
"""

from __future__ import annotations

import ast

from ..core import lua as L
from ..core.index import unparse, walk_no_nested
from ..core.report import AnalysisError, Finding, RuleResult
from . import _expand as X
from . import c14

EXPLANATION = (
    "Cross-language agreement between luaexec.make_frame (Python) and frame_args_index (Lua) on the "
    "layout and meaning of the argument tuples; def-use provenance of the four frames of reference in "
    "call_lua_sandbox; shape of the three frame methods that re-enter the expander. Thin: the "
    "metamorphic equivalences of the statement are relations between executions and are not decided."
)
ASSUMPTIONS = [
    "lupa exposes Python tuples to Lua as userdata indexable from 0",
    "the Lua front end resolves locals/upvalues of the shipped sandbox files only",
]
LX = "src/wikitextprocessor/luaexec.py"
P2 = "src/wikitextprocessor/lua/_sandbox_phase2.lua"
MF = "luaexec.call_lua_sandbox.make_frame"


def rule_r1(ctx) -> RuleResult:
    rr = RuleResult("C08.R1", "Python's (value, is_named) tuples and the Lua reader agree", min_instances=4)
    mf = ctx.fn(MF)
    # every value that reaches the table handed to Lua: `frame_args[k] = V` and `frame_args = {k: V for ...}`
    stores = []
    for n in walk_no_nested(mf):
        if isinstance(n, ast.Assign) and isinstance(n.targets[0], ast.Subscript) and unparse(n.targets[0].value) == "frame_args":
            stores.append((n.value, n))
        elif isinstance(n, ast.Assign) and unparse(n.targets[0]) == "frame_args" and isinstance(n.value, ast.DictComp):
            stores.append((n.value.value, n))
        elif isinstance(n, ast.Assign) and unparse(n.targets[0]) == "frame_args" and isinstance(n.value, ast.Dict) and n.value.keys:
            stores.extend((v, n) for v in n.value.values)
        elif isinstance(n, ast.Call) and isinstance(n.func, ast.Attribute) and unparse(n.func.value) == "frame_args" \
                and n.func.attr in ("update", "setdefault", "__setitem__"):
            raise AnalysisError("make_frame: frame_args.{}(...) is outside the recognised store shapes".format(n.func.attr))
    if len(stores) < 2:
        raise AnalysisError("make_frame: frame_args[...] stores vanished")
    for v, s in stores:
        if not (isinstance(v, ast.Tuple) and len(v.elts) == 2):
            rr.bad(Finding("C08.R1", LX, MF, unparse(s)[:100], "frame arguments are not stored as (value, is_named) any more", s.lineno))
            continue
        flag = v.elts[1]
        if isinstance(flag, ast.Constant) and flag.value is False:
            rr.ok(MF, unparse(s)[:100], {"python": unparse(v)[:100], "flag": "False"})
        elif isinstance(flag, ast.Compare) and len(flag.ops) == 1 and isinstance(flag.ops[0], ast.IsNot) \
                and isinstance(flag.comparators[0], ast.Constant) and flag.comparators[0].value is None:
            rr.ok(MF, unparse(s)[:100], {"python": unparse(v)[:100], "flag": unparse(flag)})
        elif isinstance(flag, ast.Constant):
            rr.bad(Finding("C08.R1", LX, MF, unparse(s)[:100], "the second element of a frame argument is not the is_named flag any more "
                           "({!r})".format(flag.value), s.lineno))
        else:
            raise AnalysisError("make_frame: the is_named flag `{}` of a stored frame argument is not a recognised boolean shape".format(unparse(flag)))
    p2 = ctx.lua.file("_sandbox_phase2.lua")
    fai = p2.func_named("frame_args_index")
    if fai is None:
        raise AnalysisError("frame_args_index vanished")
    flag = val = None
    for n in L.walk(fai):
        if n.kind == "local" and n.exprs and L.text(n.exprs[0]).endswith("[1]") and len(n.names) == 1:
            flag = n
        if n.kind == "assign" and "preprocess(" in L.text(n.exprs[0]) and L.text(n.exprs[0]).rstrip(")").endswith("[0]"):
            val = n
    uses_flag = flag is not None and any(n.kind == "if" and L.text(n.clauses[0][0]) == flag.names[0] for n in L.walk(fai))
    if flag is not None and uses_flag and val is not None:
        rr.ok("_sandbox_phase2.lua:frame_args_index", "v[0] -> frame:preprocess, v[1] -> is_named", {"lua": [L.text(val.exprs[0]), "is_named = v[1]"]})
    else:
        rr.bad(Finding("C08.R1", P2, "frame_args_index", "v[0] / v[1]",
                       "the Lua side no longer reads element 0 as the value to preprocess and element 1 as the named flag", fai.line))
    # trimming applies to the preprocessed value (shared with C14.R3)
    r = c14.rule_r3(ctx)
    for f in r.findings:
        if f.function == "frame_args_index":
            rr.bad(Finding("C08.R1", f.file, f.function, f.construct, f.message, f.line))
    if not any(f.function == "frame_args_index" for f in r.findings):
        rr.ok("_sandbox_phase2.lua:frame_args_index", "named values are trimmed after preprocessing")
    # values are preprocessed lazily exactly once
    src = " ".join(L.text(n.targets[0]) for n in L.walk(fai) if n.kind == "assign")
    if "new_args._preprocessed[key]" in src and "new_args._orig[key]" in src:
        rr.ok("_sandbox_phase2.lua:frame_args_index", "result cached in _orig/_preprocessed")
    return rr


def rule_r2(ctx) -> RuleResult:
    rr = RuleResult("C08.R2", "the four frames of reference come from the right places", min_instances=6)
    fn = ctx.fn("luaexec.call_lua_sandbox")
    src_stmts = {unparse(s): s for s in walk_no_nested(fn) if isinstance(s, (ast.Assign,))}
    want = {
        "frame = make_frame(pframe, modname, invoke_args[2:])": "the module frame is not built from the module name and invoke_args[2:]",
        "pframe = make_frame(None, parent_title, expanded_key_args)": "the parent frame is not built from the enclosing template's title and arguments",
        "parent_title, page_args = parent": "the parent frame's title/arguments do not come from the `parent` tuple",
    }
    src_stmts = {k.replace("(parent_title, page_args)", "parent_title, page_args"): v for k, v in src_stmts.items()}
    for stmt, msg in want.items():
        if stmt in src_stmts:
            rr.ok("luaexec.call_lua_sandbox", stmt, {"stmt": stmt})
        else:
            rr.bad(Finding("C08.R2", LX, "luaexec.call_lua_sandbox", stmt, msg, fn.lineno))
    inv = [c for c in ast.walk(fn) if isinstance(c, ast.Call) and unparse(c.func) == "ctx.lua_invoke"]
    if inv and [unparse(a) for a in inv[0].args[:3]] == ["modname", "modfn", "frame"]:
        rr.ok("luaexec.call_lua_sandbox", "lua_invoke(modname, modfn, frame, ...)")
    else:
        rr.bad(Finding("C08.R2", LX, "luaexec.call_lua_sandbox", "ctx.lua_invoke(modname, modfn, frame, ...)", "the module is not invoked with its own frame", fn.lineno))
    ea = ctx.fn(MF + ".expand_all_templates")
    calls = [c for c in ast.walk(ea) if isinstance(c, ast.Call) and unparse(c.func) == "ctx.expand"]
    if calls and len(calls[0].args) >= 2 and unparse(calls[0].args[1]) == "parent":
        rr.ok(MF + ".expand_all_templates", "ctx.expand(text, parent, ...)")
    else:
        rr.bad(Finding("C08.R2", LX, MF + ".expand_all_templates", "ctx.expand(encoded, parent, quiet=True)",
                       "frame:preprocess / expandTemplate do not expand in the calling page context", ea.lineno))
    for name in ("preprocess", "expandTemplate"):
        f = ctx.fn(MF + "." + name)
        if any(isinstance(c, ast.Call) and unparse(c.func) == "expand_all_templates" for c in ast.walk(f)):
            rr.ok(MF + "." + name, "goes through expand_all_templates")
        else:
            rr.bad(Finding("C08.R2", LX, MF + "." + name, "expand_all_templates(...)", "does not expand through the calling page context", f.lineno))
        # every value handed back to the module is a constant, the heading strip-marker form,
        # or the result of expand_all_templates -- never the caller's raw text
        for r in [n for n in walk_no_nested(f) if isinstance(n, ast.Return) and n.value is not None]:
            v = r.value
            hops = 0
            while isinstance(v, ast.Name) and hops < 4:
                nv = X.resolve_name(f.body, v.id, r.lineno if hops == 0 else v.lineno)
                if nv is None:
                    break
                v = nv
                hops += 1
            calls = [unparse(c.func) for c in ast.walk(v) if isinstance(c, ast.Call)]
            if isinstance(v, ast.Constant) or "expand_all_templates" in calls or "ctx.create_strip_marker" in calls:
                rr.ok(MF + "." + name, "return " + unparse(v)[:60])
            else:
                rr.bad(Finding("C08.R2", LX, MF + "." + name, unparse(r),
                               "frame:{} can return text that was not expanded in the calling page context (value: {})".format(name, unparse(v)[:60]),
                               r.lineno))
    mf = ctx.fn(MF)
    msrc = unparse(mf)
    if "num = 1" in msrc and "k = num" in msrc and "num += 1" in msrc:
        rr.ok(MF, "positional numbering 1, 2, 3, ...")
    else:
        rr.bad(Finding("C08.R2", LX, MF, "num = 1; k = num; num += 1", "positional arguments are not numbered from 1 in steps of 1", mf.lineno))
    # the returned string replaces the call: call_lua_sandbox returns text on ok
    rets = [r for r in walk_no_nested(fn) if isinstance(r, ast.Return) and unparse(r.value) == "text"]
    if rets:
        rr.ok("luaexec.call_lua_sandbox", "returns the module's string")
    return rr


def rule_r3(ctx) -> RuleResult:
    rr = RuleResult("C08.R3", "the bridge detects named arguments and numbers positional ones like the expander", min_instances=3)
    for r in (c14.rule_r2(ctx), c14.rule_r4(ctx), c14.rule_r1(ctx), c14.rule_r5(ctx), c14.rule_r6(ctx)):
        for f in r.findings:
            if "make_frame" in f.function or "luaexec" in f.file or "_sandbox_phase2" in f.file:
                rr.bad(Finding("C08.R3", f.file, f.function, f.construct, f.message, f.line))
        keep = [c for c in r.cases if "make_frame" in c[0] or c[0] == "name classes" or "_sandbox_phase2" in c[0]]
        for c in keep:
            if not any(f.function == c[0] and f.construct == c[1] for f in r.findings):
                rr.ok(c[0], c[1])
    return rr


def rule_r4(ctx) -> RuleResult:
    rr = RuleResult("C08.R4", "expandTemplate / callParserFunction pass their arguments structurally", min_instances=3)
    et = ctx.fn(MF + ".expandTemplate")
    saves = [n for n in walk_no_nested(et) if isinstance(n, ast.Assign) and isinstance(n.value, ast.Call) and unparse(n.value.func) == "ctx._save_value"]
    exp = [c for c in ast.walk(et) if isinstance(c, ast.Call) and unparse(c.func) == "expand_all_templates"]
    if saves and exp and unparse(saves[0].value.args[0]) == "'T'" and unparse(saves[0].value.args[1]) == "new_args" \
            and unparse(exp[0].args[0]) == unparse(saves[0].targets[0]):
        rr.ok(MF + ".expandTemplate", "ctx._save_value('T', new_args, False) -> expand", {"call": unparse(saves[0])})
    else:
        rr.bad(Finding("C08.R4", LX, MF + ".expandTemplate", unparse(exp[0]) if exp else "expand_all_templates(...)",
                       "the argument vector is not handed to the expander as a saved call: re-serialising it as `{{title|a|b}}` text lets a "
                       "`|` or `=` inside a value split it or turn it into a named argument", et.lineno))
    # the vector handed to _save_value: the title first, then one `key=value` text per entry of the args table
    from ..core import strtpl
    vec = saves[0].value.args[1] if saves and len(saves[0].value.args) > 1 else None
    producers = []   # element expressions that follow the title
    head = None
    if isinstance(vec, ast.Name):
        for n in walk_no_nested(et):
            if isinstance(n, ast.Assign) and len(n.targets) == 1 and isinstance(n.targets[0], ast.Name) and n.targets[0].id == vec.id:
                v = n.value
                parts = []
                while isinstance(v, ast.BinOp) and isinstance(v.op, ast.Add):
                    parts.insert(0, v.right)
                    v = v.left
                parts.insert(0, v)
                for i, part in enumerate(parts):
                    if isinstance(part, ast.List):
                        for j, el in enumerate(part.elts):
                            if i == 0 and j == 0:
                                head = el
                            elif isinstance(el, ast.Starred) and isinstance(el.value, (ast.GeneratorExp, ast.ListComp)):
                                producers.append(el.value.elt)
                            else:
                                producers.append(el)
                    elif isinstance(part, (ast.ListComp, ast.GeneratorExp)):
                        producers.append(part.elt)
                    elif isinstance(part, ast.Call) and unparse(part.func) == "list" and part.args and isinstance(part.args[0], (ast.GeneratorExp, ast.ListComp)):
                        producers.append(part.args[0].elt)
            if isinstance(n, ast.Call) and isinstance(n.func, ast.Attribute) and isinstance(n.func.value, ast.Name) and n.func.value.id == vec.id and n.args:
                if n.func.attr == "append":
                    producers.append(n.args[0])
                elif n.func.attr == "extend" and isinstance(n.args[0], (ast.GeneratorExp, ast.ListComp)):
                    producers.append(n.args[0].elt)
    if (head is None or not producers) and rr.findings:
        return rr   # the vector is not saved as a call at all (reported above)
    if head is None or not producers:
        raise AnalysisError("expandTemplate: how the argument vector `{}` is built was not recognised".format(unparse(vec) if vec is not None else "?"))
    bad_p = []
    for pr in producers:
        tpl = strtpl.template(pr)
        shape = [x if isinstance(x, str) else "{}" for x in tpl]
        if shape != ["{}", "=", "{}"]:
            bad_p.append(pr)
    if unparse(head) == "title" and not bad_p:
        rr.ok(MF + ".expandTemplate", "args become title, then k=v entries")
    else:
        rr.bad(Finding("C08.R4", LX, MF + ".expandTemplate", unparse(bad_p[0])[:60] if bad_p else unparse(head),
                       "argument vector is not [title, 'k=v', ...]", (bad_p[0] if bad_p else head).lineno))
    cp = ctx.fn(MF + ".callParserFunction")
    src = unparse(cp)
    if "ctx._canonicalize_parserfn_name(name)" in src and "call_parser_function(ctx, name, new_args, lambda x: x)" in src and "name not in PARSER_FUNCTIONS" in src:
        rr.ok(MF + ".callParserFunction", "call_parser_function(ctx, canonical name, new_args, identity)")
    else:
        rr.bad(Finding("C08.R4", LX, MF + ".callParserFunction", "call_parser_function(ctx, name, new_args, lambda x: x)",
                       "callParserFunction no longer calls the canonicalised registered function with the given arguments", cp.lineno))
    return rr


ARG_MAPS = {"args", "argmap", "ht", "frame_args", "args2", "new_args"}


def rule_r5(ctx) -> RuleResult:
    """An argument that is present but empty is still an argument.  Wherever an argument map is
    probed with `.get(k[, None])` / `.pop(k, None)`, absence is decided by `is None`, never by
    truthiness (`""` is a legitimate value: `{name="#if", args={"", "yes", "no"}}`)."""
    rr = RuleResult("C08.R5", "absence of an argument is tested with `is None`, not by truthiness", min_instances=2)

    def is_probe(v):
        return isinstance(v, ast.Call) and isinstance(v.func, ast.Attribute) and v.func.attr in ("get", "pop") \
            and isinstance(v.func.value, ast.Name) and v.func.value.id in ARG_MAPS and v.args \
            and (len(v.args) == 1 or (isinstance(v.args[1], ast.Constant) and v.args[1].value is None))

    def truthy_uses(test, names):
        """sub-expressions of a condition that are evaluated for truthiness"""
        out = []

        def rec(e):
            if isinstance(e, ast.BoolOp):
                for x in e.values:
                    rec(x)
            elif isinstance(e, ast.UnaryOp) and isinstance(e.op, ast.Not):
                rec(e.operand)
            elif isinstance(e, ast.Name) and e.id in names:
                out.append(e)
            elif isinstance(e, ast.NamedExpr) and is_probe(e.value):
                out.append(e)

        rec(test)
        return out

    for dotted in ("parserfns.call_parser_function", X.ARGS, X.RECURSE, MF):
        fn = ctx.fn(dotted)
        rel = ctx.index.mod(dotted.split(".")[0]).relpath
        probes = {}
        for n in walk_no_nested(fn):
            if isinstance(n, ast.Assign) and len(n.targets) == 1 and isinstance(n.targets[0], ast.Name) and is_probe(n.value):
                probes[n.targets[0].id] = n
        for n in walk_no_nested(fn):
            test = n.test if isinstance(n, (ast.If, ast.While, ast.IfExp)) else None
            if test is None:
                continue
            for u in truthy_uses(test, set(probes)):
                rr.bad(Finding("C08.R5", rel, dotted, unparse(test)[:80],
                               "the value fetched from the argument map is tested for truthiness: an empty-string argument is taken for a "
                               "missing one (the argument vector is cut short at the first empty argument)", n.lineno))
            for c in ast.walk(test):
                if isinstance(c, ast.Compare) and isinstance(c.left, ast.Name) and c.left.id in probes and len(c.ops) == 1 \
                        and isinstance(c.ops[0], (ast.Is, ast.IsNot)) and isinstance(c.comparators[0], ast.Constant) and c.comparators[0].value is None:
                    rr.ok(dotted, unparse(c), {"fn": dotted, "probe": unparse(probes[c.left.id].value), "test": unparse(c)})
    return rr


def rule_r6(ctx, marker=None) -> RuleResult:
    """mw.getCurrentFrame() and the environment a module runs in are the tops of two stacks; after
    every invocation -- failed ones included -- both are popped (shared with C07.R4 / C09.R3)."""
    from ..core.report import shared
    from . import c07, c09

    r = c09.rule_r3(ctx)
    out = shared(r, "C08.R6", "the frame and environment stacks are popped after every invocation, failed ones included (shared with C09.R3)",
                 "a later invocation sees the frame of an earlier, failed call as the current frame", min_instances=3)
    r7 = c07.rule_r4(ctx, c07._marker(ctx))
    for f in r7.findings:
        if "pop" in f.message or "stack" in f.message:
            out.bad(Finding("C08.R6", f.file, f.function, f.construct, f.message, f.line))
    return out

def rule_r7(ctx) -> RuleResult:
    """'the frame's arguments are the call's arguments': for a vector of arguments, make_frame fills the table in one pass in
    call order (same argument as C04.R8 -- an explicit `1=x` followed by a positional argument yields the positional one,
    as in the equivalent template call)."""
    rr = RuleResult("C08.R7", "make_frame fills the argument table in one pass in call order", min_instances=1)
    mf = ctx.fn(MF)
    parents = ctx.index.mod("luaexec").parents
    sites = X.map_fill_sites([mf], "frame_args", parents)
    list_sites = []
    for store, ls in sites:
        own = [l for l in ls if isinstance(l, (ast.For, ast.DictComp))]
        if own and X.iterates_vector(own[0], {"args.items()"}):
            continue  # the dict branch: keys are unique, order is irrelevant
        list_sites.append((store, own))
    if not list_sites:
        raise AnalysisError("make_frame: no store into frame_args for an argument vector found")
    loops = set()
    for store, own in list_sites:
        if not own:
            rr.bad(Finding("C08.R7", LX, MF, unparse(store)[:70], "an entry is put into the argument table outside the loop over the arguments", store.lineno))
        elif not X.iterates_vector(own[0], {"args"}):
            what = unparse(own[0].iter)[:50] if isinstance(own[0], ast.For) else unparse(own[0].generators[0].iter)[:50]
            rr.bad(Finding("C08.R7", LX, MF, unparse(store)[:70],
                           "this entry is stored by a loop over `{}`, not over the arguments in the order written: "
                           "`{{{{#invoke:m|f|1=x|a}}}}` gives args[1] = 'x' where the equivalent template call passes `a`".format(what), store.lineno))
        else:
            loops.add(id(own[0]))
    # every argument reaches a store: an iteration that is abandoned (`continue`/`break`) without having stored drops that
    # argument -- in the duplicate-key branch this makes the *first* occurrence win where the expander lets the last one win
    store_ids = {id(st) for st, _ in list_sites}
    for store, own in list_sites:
        if not own or not isinstance(own[0], ast.For) or id(own[0]) not in loops:
            continue
        loop = own[0]

        def scan(block, stored):
            for st in block:
                if isinstance(st, (ast.Continue, ast.Break)) and not stored:
                    return st
                if id(st) in store_ids or any(id(x) in store_ids for x in ast.walk(st)) and not isinstance(st, (ast.If, ast.Try, ast.With)):
                    stored = True
                if isinstance(st, ast.If):
                    for blk in (st.body, st.orelse):
                        r = scan(blk, stored)
                        if r is not None:
                            return r
                    if all(any(id(x) in store_ids for b_ in blk for x in ast.walk(b_)) for blk in (st.body, st.orelse)) and st.orelse:
                        stored = True
                elif isinstance(st, (ast.With, ast.Try)):
                    r = scan(st.body, stored)
                    if r is not None:
                        return r
            return None

        esc = scan(loop.body, False)
        if esc is not None:
            rr.bad(Finding("C08.R7", LX, MF, "`{}` before the store into frame_args".format(unparse(esc)),
                           "an iteration of the loop over the arguments is abandoned before the argument is stored: the argument is dropped "
                           "(for a key given twice, `{{#invoke:m|f|a|1=b}}`, the first value stays where the equivalent template call "
                           "passes the last one)", esc.lineno))
        break
    if not rr.findings:
        if len(loops) == 1:
            rr.ok(MF, "all stores for an argument vector sit in the one loop over args; no iteration is abandoned before its store")
        else:
            rr.bad(Finding("C08.R7", LX, MF, "frame_args filled by {} loops".format(len(loops)), "the argument table is filled by more than one pass", mf.lineno))
    return rr


def rule_r8(ctx) -> RuleResult:
    """frame:preprocess / expandTemplate / callParserFunction are equivalent to writing the wikitext in the calling frame only if
    each call really expands in that frame; an answer taken from a table of earlier results ignores the frame's arguments
    (shared with C13.R9)."""
    from ..core.report import shared
    from . import c13

    return shared(c13.rule_r9(ctx), "C08.R8", "the frame methods expand on every call, not from a table of earlier results (shared with C13.R9)",
                  "the frame method returns what an earlier call with the same text produced in another frame", min_instances=20)


def run(ctx) -> list:
    return [rule_r1(ctx), rule_r2(ctx), rule_r3(ctx), rule_r4(ctx), rule_r5(ctx), rule_r6(ctx), rule_r7(ctx), rule_r8(ctx)]
