"""C18 -- parser functions compute their documented values.

Values of arithmetic and string functions are not decided.  Table agreement,
a typing fact and a data precondition are:

R1  precedence ladder: the chain parse_expr -> ... -> parse_atom of #expr and the
    operator table used at each level put every implemented operator at its
    documented precedence level (Help:Extension:ParserFunctions), and binary
    operators of one level fold to the left.
R2  no comparison between incompatible types in registered functions: a value
    returned by a function annotated `-> str` is not compared with an int
    literal (quick: annotation-driven AST check; thorough: mypy
    comparison-overlap with strict equality).
R3  locale precondition: formatnum's "separator present -> leave unformatted"
    test and the order of replacements in the R (reverse) mode are correct for
    every shipped localization.json, in particular for locales whose grouping
    separator is "." (the raw decimal point).
"""

from __future__ import annotations

import ast
import re

from ..core.callgraph import CallGraph
from ..core.flow import Flow
from ..core.index import ExtRef, FuncRef, LambdaRef, unparse, walk_no_nested
from ..core.report import AnalysisError, Finding, RuleResult

EXPLANATION = (
    "The recursive-descent ladder of #expr is extracted (which level calls which, with which operator "
    "table) and every operator key is compared with the precedence table documented for the "
    "ParserFunctions extension, frozen in the checker; the fold direction is read from "
    "generic_binary. Comparisons between a `-> str` result and an int literal are found from the "
    "annotations (and by mypy's comparison-overlap in the thorough tier). The statement order of "
    "formatnum / formatnum R is checked against all shipped locale files. Values of the string "
    "functions and of the operator bodies are not decided."
)
ASSUMPTIONS = [
    "documented precedence (highest first): grouping; numbers; binary e, unary + -; unary functions; ^; * / div mod; + -; round; comparisons; and; or",
    "raw numbers passed to formatnum use '.' as decimal point (MediaWiki convention)",
]
PFN = "src/wikitextprocessor/parserfns.py"

# lowest precedence first
DOCUMENTED = [
    {"or"},
    {"and"},
    {"=", "!=", "<>", ">", "<", ">=", "<="},
    {"round"},
    {"+", "-"},
    {"*", "/", "div", "mod", "fmod"},
    {"^"},
    {"not", "ceil", "trunc", "floor", "abs", "exp", "ln", "sin", "cos", "tan", "acos", "asin", "atan", "sqrt"},
    {"e"},
]


def _ladder(ctx) -> list:
    """[(level function name, table name or None, next function)] from parse_expr downwards"""
    m = ctx.index.mod("parserfns")
    nested = {q.split(".")[-1]: f for q, f in m.funcs.items() if q.startswith("expr_fn.") and q.count(".") == 1}
    chain = []
    cur = "parse_expr"
    seen = set()
    while cur in nested and cur not in seen:
        seen.add(cur)
        f = nested[cur]
        nxt = table = None
        for n in walk_no_nested(f):
            if isinstance(n, ast.Call) and unparse(n.func) == "generic_binary" and len(n.args) >= 3:
                nxt, table = unparse(n.args[1]), unparse(n.args[2])
                extra = [unparse(a) for a in n.args[3:]] + ["{}={}".format(k.arg, unparse(k.value)) for k in n.keywords]
                chain.append((cur, table, nxt, extra))
                break
        else:
            # non-generic levels
            calls = [unparse(c.func) for c in walk_no_nested(f) if isinstance(c, ast.Call) and unparse(c.func) in nested
                     and unparse(c.func) != cur and unparse(c.func).startswith("parse_")]
            calls.sort(key=lambda nm: nested[nm].lineno)
            tbl = None
            for n in walk_no_nested(f):
                if isinstance(n, ast.Call) and isinstance(n.func, ast.Attribute) and n.func.attr == "get" and unparse(n.func.value).endswith("_fns"):
                    tbl = unparse(n.func.value)
            nxt = calls[0] if calls else None
            chain.append((cur, tbl, nxt, []))
        cur = nxt
    return chain


def rule_r1(ctx) -> RuleResult:
    rr = RuleResult("C18.R1", "#expr operators sit at their documented precedence level and fold left", min_instances=30)
    chain = _ladder(ctx)
    names = [c[0] for c in chain]
    rr.instances["ladder"] = [(c[0], c[1]) for c in chain]
    if not names or names[0] != "parse_expr" or "parse_atom" not in names:
        raise AnalysisError("expr_fn: could not follow the ladder from parse_expr to parse_atom: {}".format(names))
    consts = ctx.index.consts("parserfns")
    level_of = {}
    depth = 0
    for fn, table, nxt, extra in chain:
        if table is None:
            continue
        tb = consts.get(table)
        if not isinstance(tb, dict):
            raise AnalysisError("operator table {} not foldable".format(table))
        for op in tb:
            if table == "unary_fns" and op in ("-", "+"):
                continue  # kludge entries; unary +/- are handled by parse_unary itself
            level_of[op] = (depth, table, fn)
        depth += 1
    # documented level index for each operator
    doc_level = {}
    for i, ops in enumerate(DOCUMENTED):
        for op in ops:
            doc_level[op] = i
    # the implemented levels must be order-isomorphic to the documented ones
    impl_levels = sorted({d for d, _, _ in level_of.values()})
    for op, (d, table, fn) in sorted(level_of.items(), key=lambda x: (x[1][0], x[0])):
        if op not in doc_level:
            rr.bad(Finding("C18.R1", PFN, "parserfns.expr_fn", "{}[{!r}]".format(table, op), "operator is not in the documented table", 0))
            continue
        # compare relative order with every other operator
        wrong = [o2 for o2, (d2, _, _) in level_of.items() if o2 in doc_level
                 and ((d < d2) != (doc_level[op] < doc_level[o2]) or (d == d2) != (doc_level[op] == doc_level[o2]))]
        if wrong:
            rr.bad(Finding("C18.R1", PFN, "parserfns.expr_fn." + fn, "{}[{!r}] at ladder level {}".format(table, op, d),
                           "`{}` binds {} relative to {} than the documented precedence says (e.g. `{}`)".format(
                               op, "differently", ", ".join(sorted(wrong)[:4]), "1 {} 2 {} 3".format(op, sorted(wrong)[0])), 0))
        else:
            rr.ok("parserfns.expr_fn." + fn, "{!r} at level {} ({})".format(op, d, table), {"operator": op, "level": d, "table": table})
    # fold direction
    m = ctx.index.mod("parserfns")
    gb = m.funcs.get("expr_fn.generic_binary")
    if gb is None:
        raise AnalysisError("generic_binary vanished")
    loops = [n for n in gb.body if isinstance(n, ast.While)]
    applies = [n for n in ast.walk(gb) if isinstance(n, ast.Assign) and unparse(n.value) == "fn(ret, ret2)" and unparse(n.targets[0]) == "ret"]
    rhs = [n for n in ast.walk(gb) if isinstance(n, ast.Assign) and unparse(n.targets[0]) == "ret2"]
    uses_assoc = any(isinstance(n, ast.Name) and n.id == "assoc" and isinstance(getattr(n, "ctx", None), ast.Load) for n in ast.walk(gb))
    right_calls = [c for c in chain if any("right" in e for e in c[3])]
    if loops and applies and rhs and all(unparse(r.value) == "parser(tok)" for r in rhs) and not uses_assoc and not right_calls:
        rr.ok("parserfns.expr_fn.generic_binary", "while-loop left fold: ret = fn(ret, parser(tok))", {"fold": "left"})
    else:
        rr.bad(Finding("C18.R1", PFN, "parserfns.expr_fn.generic_binary", "ret = fn(ret, ret2) in a while loop",
                       "binary operators of one level are no longer folded strictly left to right{}: `2 ^ 3 ^ 2` must be (2^3)^2 = 64".format(
                           " (assoc={} is passed for {})".format("right", ", ".join(c[1] for c in right_calls)) if right_calls else ""), gb.lineno))
    # ladder monotonicity: a level's parser refers only to itself (prefix chains) and to tighter-binding levels;
    # the single way back up is parse_atom -> parse_expr inside parentheses.  An operand parser that calls a
    # looser-binding level swallows the rest of the operator chain (`2e-3e3` becomes `2e-(3e3)`).
    for i, name in enumerate(names):
        fdef = m.funcs.get("expr_fn." + name)
        if fdef is None:
            continue
        refs = {x.id for x in ast.walk(fdef) if isinstance(x, ast.Name) and x.id in names and x.id != name}
        for r_ in sorted(refs):
            j = names.index(r_)
            if j > i or (name == "parse_atom" and r_ == names[0]):
                continue
            rr.bad(Finding("C18.R1", PFN, "parserfns.expr_fn." + name, "{} -> {}".format(name, r_),
                           "`{}` (ladder level {}) calls the looser-binding `{}` (level {}) outside parentheses: the operand it parses "
                           "swallows the rest of an operator chain, so the chain is no longer folded left".format(name, i, r_, j), fdef.lineno))
        if not any(f_.construct.startswith(name + " -> ") for f_ in rr.findings):
            rr.ok("parserfns.expr_fn." + name, "refers only to itself and tighter-binding levels", {"level_fn": name, "refs": sorted(refs)})
    # unary +/- bind tighter than everything but atoms
    pu = m.funcs.get("expr_fn.parse_unary")
    if pu is not None and "parse_atom(tok)" in unparse(pu) and names.index("parse_unary") == names.index("parse_atom") - 1:
        rr.ok("parserfns.expr_fn.parse_unary", "unary +/- directly above atoms")
    else:
        rr.bad(Finding("C18.R1", PFN, "parserfns.expr_fn.parse_unary", "parse_unary -> parse_atom", "unary +/- are not the tightest-binding operators", 0))
    return rr


def rule_r2(ctx) -> RuleResult:
    rr = RuleResult("C18.R2", "no str/int comparison in registered parser functions", min_instances=1)
    cg = CallGraph(ctx.index)
    m = ctx.index.mod("parserfns")
    returns_str = {q for q, f in m.funcs.items() if "." not in q and f.returns is not None and unparse(f.returns) == "str"}
    n_cmp = 0
    for dotted in sorted(cg.registered_parser_functions):
        if not dotted.startswith("parserfns."):
            continue
        fn = ctx.fn(dotted)
        str_vars = set()
        for n in walk_no_nested(fn):
            if isinstance(n, (ast.Assign, ast.AnnAssign)) and getattr(n, "value", None) is not None:
                t = n.targets[0] if isinstance(n, ast.Assign) else n.target
                v = n.value
                if isinstance(t, ast.Name):
                    if isinstance(v, ast.Call) and isinstance(v.func, ast.Name) and v.func.id in returns_str:
                        str_vars.add(t.id)
                    elif isinstance(v, ast.Call) and isinstance(v.func, ast.Attribute) and v.func.attr in ("strip", "lower", "upper") :
                        str_vars.add(t.id)
                    elif isinstance(v, ast.Call) and isinstance(v.func, ast.Name) and v.func.id == "expander":
                        str_vars.add(t.id)
        for n in walk_no_nested(fn):
            if isinstance(n, ast.Compare) and len(n.ops) == 1 and isinstance(n.ops[0], (ast.Eq, ast.NotEq)):
                l, r = n.left, n.comparators[0]
                for a, b in ((l, r), (r, l)):
                    if isinstance(a, ast.Name) and a.id in str_vars and isinstance(b, ast.Constant) and isinstance(b.value, (int, float)) \
                            and not isinstance(b.value, bool):
                        n_cmp += 1
                        rr.bad(Finding("C18.R2", PFN, dotted, unparse(n),
                                       "`{}` holds a str (result of a function annotated `-> str`) and is compared with the number {!r}: the "
                                       "comparison is never true".format(a.id, b.value), n.lineno))
                    elif isinstance(a, ast.Name) and a.id in str_vars and isinstance(b, ast.Constant) and isinstance(b.value, str):
                        n_cmp += 1
                        rr.ok(dotted, unparse(n), {"fn": dotted, "comparison": unparse(n)})
    rr.instances["str_vs_constant_comparisons"] = n_cmp
    if ctx.thorough:
        res = ctx.mypy
        bad = [d for d in res.with_code("comparison-overlap") if d["file"].endswith("parserfns.py")]
        rr.instances["mypy_wall_s"] = round(res.wall, 1)
        rr.instances["mypy_comparison_overlap"] = bad
        for d in bad:
            rr.bad(Finding("C18.R2", PFN, "parserfns (mypy)", d["msg"], "mypy strict-equality: " + d["msg"], d["line"]))
        if not bad:
            rr.ok("parserfns (mypy)", "no comparison-overlap diagnostics")
    return rr


def rule_r3(ctx) -> RuleResult:
    rr = RuleResult("C18.R3", "formatnum and formatnum R are inverse for every shipped locale", min_instances=3)
    data = ctx.data
    locs = data.localization
    dot_sep = sorted(l for l, d in locs.items() if d.get("grouping_separator") == ".")
    same = sorted(l for l, d in locs.items() if d.get("grouping_separator") == d.get("decimal_point"))
    rr.instances["locales"] = len(locs)
    rr.instances["locales_with_dot_separator"] = len(dot_sep)
    if same:
        rr.bad(Finding("C18.R3", "src/wikitextprocessor/data", "localization.json", "grouping_separator == decimal_point in {}".format(same[:5]),
                       "formatting is not invertible when both characters are equal", 0))
    else:
        rr.ok("localization.json", "separator != decimal point in all {} locales".format(len(locs)))
    # the data the functions see is the data as shipped: LOCALIZATION_DATA is bound to the result of
    # json.load (or to the literal default when the locale has no file) and never patched afterwards.
    # Several locales deliberately ship empty values (grouping_separator "" / grouping_method []); a
    # loader that skips falsy values gives them ',' and makes separator == decimal point.
    init = ctx.fn("core.Wtp.init_localization_data")
    n_bind = 0
    for dotted, m_, f_ in ctx.index.all_functions():
        for n in walk_no_nested(f_):
            tgs = n.targets if isinstance(n, ast.Assign) else [n.target] if isinstance(n, (ast.AnnAssign, ast.AugAssign)) else []
            val = getattr(n, "value", None)
            for t in tgs:
                if isinstance(t, ast.Attribute) and t.attr == "LOCALIZATION_DATA" and val is not None:
                    n_bind += 1
                    if isinstance(n, ast.AugAssign) or not (isinstance(val, ast.Dict) or (isinstance(val, ast.Call) and unparse(val.func) == "json.load")):
                        rr.bad(Finding("C18.R3", "src/wikitextprocessor/core.py", dotted, unparse(n)[:80],
                                       "LOCALIZATION_DATA is not bound to the shipped file's content as loaded", n.lineno))
                    else:
                        rr.ok(dotted, unparse(n)[:60], {"binding": unparse(val)[:40]})
                elif isinstance(t, ast.Subscript) and isinstance(t.value, ast.Attribute) and t.value.attr == "LOCALIZATION_DATA":
                    rr.bad(Finding("C18.R3", ctx.index.mod(dotted.split(".")[0]).relpath, dotted, unparse(n)[:80],
                                   "entries of LOCALIZATION_DATA are written one by one: values the locale file sets deliberately (\"\" / []) can be "
                                   "dropped or altered, e.g. separator and decimal point become the same character for bg, pt, sr ...", n.lineno))
            if isinstance(n, ast.Call) and isinstance(n.func, ast.Attribute) and n.func.attr in ("update", "setdefault", "pop", "clear") \
                    and isinstance(n.func.value, ast.Attribute) and n.func.value.attr == "LOCALIZATION_DATA":
                rr.bad(Finding("C18.R3", ctx.index.mod(dotted.split(".")[0]).relpath, dotted, unparse(n)[:80],
                               "LOCALIZATION_DATA is modified after loading", n.lineno))
    if n_bind == 0:
        raise AnalysisError("no binding of LOCALIZATION_DATA found ({} analysed)".format(init.name))
    fn = ctx.fn("parserfns.formatnum_fn")
    # the early return `if sep in X: return arg0`
    tests = [n for n in walk_no_nested(fn) if isinstance(n, ast.If) and isinstance(n.test, ast.Compare) and isinstance(n.test.ops[0], ast.In)
             and unparse(n.test.left) == "sep"]
    if len(tests) != 1:
        raise AnalysisError("formatnum_fn: the `sep in ...` test was not found")
    subj = tests[0].test.comparators[0]
    whole = isinstance(subj, ast.Name) and subj.id == "arg0"
    if whole and dot_sep:
        rr.bad(Finding("C18.R3", PFN, "parserfns.formatnum_fn", unparse(tests[0].test),
                       "the raw input's decimal point is always '.', so for the {} locales whose grouping separator is '.' ({} ...) every number "
                       "with a fractional part is returned unformatted: formatnum:1234567.891 stays 1234567.891".format(len(dot_sep), ", ".join(dot_sep[:5])),
                       tests[0].lineno))
    else:
        rr.ok("parserfns.formatnum_fn", "`{}` (integer part only / no '.'-separator locale)".format(unparse(tests[0].test)),
              {"test": unparse(tests[0].test), "dot_separator_locales": len(dot_sep)})
    rv = ctx.fn("parserfns._formatnum_reverse")
    for r in [n for n in walk_no_nested(rv) if isinstance(n, ast.Return) and isinstance(n.value, ast.Call)]:
        # flatten the .replace chain, innermost first
        chain = []
        c = r.value
        while isinstance(c, ast.Call) and isinstance(c.func, ast.Attribute) and c.func.attr == "replace":
            chain.append([unparse(a) for a in c.args])
            c = c.func.value
        chain.reverse()
        if not chain:
            continue
        idx_dec = next((i for i, a in enumerate(chain) if a[0] == "decimal"), None)
        idx_sep = next((i for i, a in enumerate(chain) if a[0] == "sep"), None)
        label = ".".join("replace({})".format(", ".join(a)) for a in chain)
        if idx_dec is None or idx_sep is None:
            raise AnalysisError("_formatnum_reverse: replace chain not understood: " + label)
        if idx_dec < idx_sep and dot_sep:
            rr.bad(Finding("C18.R3", PFN, "parserfns._formatnum_reverse", label,
                           "the decimal point is converted to '.' before the grouping separators are deleted: for locales whose separator is '.' "
                           "the new decimal point is deleted as well (formatnum:1.234.567,891|R gives 1234567891)", r.lineno))
        else:
            rr.ok("parserfns._formatnum_reverse", label, {"chain": label})
    return rr


def rule_r4(ctx) -> RuleResult:
    """'plural selects by number': the value compared with "1" is the *evaluated* count on every path --
    the normalised string expr_fn returns ("01", "1.0", "3-2" all give "1"), never the raw argument text."""
    rr = RuleResult("C18.R4", "plural compares the evaluated count, on every path", min_instances=1)
    fn = ctx.fn("parserfns.plural_fn")
    cmps = [c for c in walk_no_nested(fn) if isinstance(c, ast.Compare) and len(c.ops) == 1 and isinstance(c.ops[0], (ast.Eq, ast.NotEq))
            and isinstance(c.comparators[0], ast.Constant) and str(c.comparators[0].value) == "1" and isinstance(c.left, ast.Name)]
    if not cmps:
        raise AnalysisError("plural_fn: comparison with the singular value not found")
    for c in cmps:
        var = c.left.id
        assigns = [n for n in walk_no_nested(fn) if isinstance(n, ast.Assign) and any(isinstance(t, ast.Name) and t.id == var for t in n.targets)]
        raw = [n for n in assigns if not (isinstance(n.value, ast.Call) and unparse(n.value.func) == "expr_fn")]
        if assigns and not raw:
            rr.ok("parserfns.plural_fn", "{} is always the result of expr_fn".format(var), {"compared": unparse(c)})
        else:
            n = raw[0] if raw else c
            rr.bad(Finding("C18.R4", PFN, "parserfns.plural_fn", unparse(n)[:70],
                           "on this path the count compared with \"1\" is not the value evaluated by expr_fn: `{{{{plural:01|day|days}}}}` "
                           "(e.g. a zero-padded count) selects the plural form", n.lineno))
    return rr


def _depends(stmts: list, dep: set, ctrl: bool = False, seeds: frozenset = frozenset()) -> None:
    """forward propagation of `depends on a seed variable` through a loop-free statement list (data dependence through
    assignments, control dependence through tests that read a dependent name); `dep` is updated in place.  Callers
    record what they need through the hook _depends.at(stmt, dep, ctrl)."""
    for st in stmts:
        hook = getattr(_depends, "at", None)
        if hook is not None:
            hook(st, dep, ctrl)
        reads = lambda e: {n.id for n in ast.walk(e) if isinstance(n, ast.Name) and isinstance(n.ctx, ast.Load)}  # noqa: E731
        if isinstance(st, (ast.Assign, ast.AugAssign, ast.AnnAssign)) and getattr(st, "value", None) is not None:
            tg = st.targets if isinstance(st, ast.Assign) else [st.target]
            d = ctrl or bool(reads(st.value) & dep) or (isinstance(st, ast.AugAssign) and bool(reads(st.target) & dep))
            for t in tg:
                for nm in [n.id for n in ast.walk(t) if isinstance(n, ast.Name)]:
                    if d:
                        dep.add(nm)
                    elif not ctrl and isinstance(t, ast.Name) and not isinstance(st, ast.AugAssign) and nm not in seeds:
                        dep.discard(nm)   # strong update outside any dependent branch (a seed is a source wherever it is assigned)
        elif isinstance(st, ast.If):
            c = ctrl or bool(reads(st.test) & dep)
            d1, d2 = set(dep), set(dep)
            _depends(st.body, d1, c, seeds)
            _depends(st.orelse, d2, c, seeds)
            dep.clear()
            dep.update(d1 | d2)
        elif isinstance(st, ast.Try):
            _depends(st.body, dep, ctrl, seeds)
            for h in st.handlers:
                _depends(h.body, dep, ctrl, seeds)
            _depends(st.orelse, dep, ctrl, seeds)
            _depends(st.finalbody, dep, ctrl, seeds)
        elif isinstance(st, (ast.For, ast.While, ast.With)):
            _depends(st.body, dep, ctrl, seeds)
            _depends(st.body, dep, ctrl, seeds)


def rule_r5(ctx) -> RuleResult:
    """`{{#explode:s|d|-n|limit}}`: a negative position counts from the end of the pieces that are *returned*, and a limit
    merges the tail into the last piece -- so the number a negative position is resolved against has to depend on the limit
    (PHP: explode($d, $s, $limit) first, then count()).  Information-flow rule: at the statement that turns a negative
    position into an index, the value it adds depends (by data or control) on the parsed limit.  Resolving first and applying
    the limit afterwards, in whichever form, breaks exactly the calls that give both (seeds C18-2B, C18-4B)."""
    rr = RuleResult("C18.R5", "#explode resolves a negative position against the piece count after the limit was applied", min_instances=1)
    dotted = "parserfns.explode_fn"
    fn = ctx.fn(dotted)

    def arg_var(idx: int):
        """local parsed with int() from args[idx] (through one intermediate string local)"""
        strs = set()
        for n in walk_no_nested(fn):
            if isinstance(n, ast.Assign) and len(n.targets) == 1 and isinstance(n.targets[0], ast.Name):
                if any(isinstance(x, ast.Subscript) and unparse(x.value) == "args" and isinstance(x.slice, ast.Constant) and x.slice.value == idx
                       for x in ast.walk(n.value)):
                    strs.add(n.targets[0].id)
        for n in walk_no_nested(fn):
            if isinstance(n, ast.Assign) and len(n.targets) == 1 and isinstance(n.targets[0], ast.Name) and isinstance(n.value, ast.Call) \
                    and unparse(n.value.func) == "int" and n.value.args and isinstance(n.value.args[0], ast.Name) and n.value.args[0].id in strs:
                return n.targets[0].id
        # converted by a helper (`position = _int_or_zero(posstr)`): the one local computed from the argument's text by a call
        cands = {n.targets[0].id for n in walk_no_nested(fn)
                 if isinstance(n, ast.Assign) and len(n.targets) == 1 and isinstance(n.targets[0], ast.Name) and n.targets[0].id not in strs
                 and isinstance(n.value, ast.Call) and any(isinstance(x, ast.Name) and x.id in strs for a in n.value.args for x in ast.walk(a))}
        return cands.pop() if len(cands) == 1 else None

    pos, lim = arg_var(2), arg_var(3)
    if pos is None or lim is None:
        raise AnalysisError("explode_fn: the locals parsed from the position / limit arguments were not recognised")
    found = []

    def at(st, dep, ctrl):
        # the normalisation: an assignment to the position local under `pos < 0`
        if isinstance(st, ast.If) and isinstance(st.test, ast.Compare) and len(st.test.ops) == 1 and isinstance(st.test.ops[0], ast.Lt) \
                and unparse(st.test.left) == pos and isinstance(st.test.comparators[0], ast.Constant) and st.test.comparators[0].value == 0:
            for b in st.body:
                if isinstance(b, (ast.Assign, ast.AugAssign)):
                    tg = b.targets[0] if isinstance(b, ast.Assign) else b.target
                    if isinstance(tg, ast.Name) and tg.id == pos:
                        reads = {n.id for n in ast.walk(b.value) if isinstance(n, ast.Name)} - {pos}
                        found.append((b, bool(reads & dep) or ctrl, sorted(reads)))

    _depends.at = at
    try:
        _depends([s_ for s_ in fn.body], {lim}, False, frozenset([lim]))
    finally:
        _depends.at = None
    if not found:
        raise AnalysisError("explode_fn: the statement that resolves a negative position (`if {} < 0: {} = ...`) was not recognised".format(pos, pos))
    for st, ok, reads in found:
        if ok:
            rr.ok(dotted, "`{}` adds a count that depends on the limit".format(unparse(st)[:60]), {"reads": reads})
        else:
            rr.bad(Finding("C18.R5", PFN, dotted, unparse(st)[:80],
                           "a negative position is resolved against a piece count that does not depend on the limit ({}): with both a negative "
                           "position and a limit smaller than the number of pieces the wrong piece (or nothing) is returned, e.g. "
                           "{{{{#explode:a,b,c,d|,|-1|2}}}} must give `b,c,d`".format(", ".join(reads) or "a constant"), st.lineno))
    return rr


NEG_INF, POS_INF = -10**9, 10**9


class _Bounds(Flow):
    """Path-sensitive integer bounds for the locals of one parser function.  State: frozenset of facts
    ("lb", x, n) / ("ub", x, n) / ("lt", a, b) [a < b, texts] / ("ge", a, b) / ("dec", s) [s.isdecimal()] / ("signed", x)
    [x comes from int() of argument text that may carry a sign]."""

    signed_helpers: set = set()   # module-level helpers that return int() of their argument's text (may be negative)

    def __init__(self):
        self.sites = []   # (subscript node, bound expr, which, lb, ub, signed?, text)

    # -- queries
    @staticmethod
    def _get(state, kind, x, default):
        vals = [f[2] for f in state if f[0] == kind and f[1] == x]
        if not vals:
            return default
        return max(vals) if kind == "lb" else min(vals)

    def signed(self, e, state) -> bool:
        return any(isinstance(n, ast.Name) and ("signed", n.id, 0) in state for n in ast.walk(e))

    def bounds(self, e, state):
        """(lb, ub) of an integer expression"""
        if isinstance(e, ast.Constant) and isinstance(e.value, int) and not isinstance(e.value, bool):
            return e.value, e.value
        if isinstance(e, ast.UnaryOp) and isinstance(e.op, ast.USub):
            lb, ub = self.bounds(e.operand, state)
            return (-ub if ub < POS_INF else NEG_INF), (-lb if lb > NEG_INF else POS_INF)
        if isinstance(e, ast.Name):
            return self._get(state, "lb", e.id, NEG_INF), self._get(state, "ub", e.id, POS_INF)
        if isinstance(e, ast.Call) and isinstance(e.func, ast.Name):
            f, a = e.func.id, e.args
            if f == "len" and len(a) == 1:
                return 0, POS_INF
            if f == "abs" and len(a) == 1:
                return 0, POS_INF
            if f == "int" and len(a) == 1 and isinstance(a[0], ast.Name) and ("dec", a[0].id, 0) in state:
                return 0, POS_INF
            if f == "max" and a:
                bs = [self.bounds(x, state) for x in a]
                return max(b[0] for b in bs), max(b[1] for b in bs)
            if f == "min" and a:
                bs = [self.bounds(x, state) for x in a]
                return min(b[0] for b in bs), min(b[1] for b in bs)
            return NEG_INF, POS_INF
        if isinstance(e, ast.Call) and isinstance(e.func, ast.Attribute) and e.func.attr in ("index", "count"):
            return 0, POS_INF
        if isinstance(e, ast.Call) and isinstance(e.func, ast.Attribute) and e.func.attr in ("find", "rfind"):
            return -1, POS_INF
        if isinstance(e, ast.BinOp):
            (l1, u1), (l2, u2) = self.bounds(e.left, state), self.bounds(e.right, state)
            if isinstance(e.op, ast.Add):
                return (l1 + l2 if l1 > NEG_INF and l2 > NEG_INF else NEG_INF), (u1 + u2 if u1 < POS_INF and u2 < POS_INF else POS_INF)
            if isinstance(e.op, ast.Sub):
                lt, rt = unparse(e.left), unparse(e.right)
                lb = l1 - u2 if l1 > NEG_INF and u2 < POS_INF else NEG_INF
                ub = u1 - l2 if u1 < POS_INF and l2 > NEG_INF else POS_INF
                if ("lt", rt, lt) in state:
                    lb = max(lb, 1)
                elif ("ge", lt, rt) in state:
                    lb = max(lb, 0)
                return lb, ub
            if isinstance(e.op, ast.Mult):
                if l1 >= 0 and l2 >= 0:
                    return l1 * l2, (u1 * u2 if u1 < POS_INF and u2 < POS_INF else POS_INF)
                return NEG_INF, POS_INF
            if isinstance(e.op, ast.FloorDiv):
                if l1 >= 0 and l2 >= 1:
                    return 0, u1
                return NEG_INF, POS_INF
        return NEG_INF, POS_INF

    # -- effects
    def _kill(self, state, x):
        return frozenset(f for f in state if not (f[1] == x or (f[0] in ("lt", "ge") and (re.search(r"\b%s\b" % re.escape(x), f[1]) or re.search(r"\b%s\b" % re.escape(x), str(f[2]))))))

    def _record(self, node, state):
        for n in ast.walk(node):
            if isinstance(n, ast.Subscript) and isinstance(n.slice, ast.Slice):
                for which, b in (("lower", n.slice.lower), ("upper", n.slice.upper)):
                    if b is None or isinstance(b, ast.Constant) or (isinstance(b, ast.UnaryOp) and isinstance(b.operand, ast.Constant)):
                        continue
                    lb, ub = self.bounds(b, state)
                    neg_add = (isinstance(b, ast.BinOp) and isinstance(b.op, ast.Add) and any(self.bounds(x, state)[1] < 0 for x in (b.left, b.right))) \
                        or (isinstance(b, ast.Name) and ("negadd", b.id, 0) in state and lb < 0)
                    self.sites.append((n, b, which, lb, ub, self.signed(b, state), neg_add))

    def transfer(self, st, state):
        self._record(st, state)
        tg = None
        if isinstance(st, ast.Assign) and len(st.targets) == 1 and isinstance(st.targets[0], ast.Name):
            tg, v = st.targets[0].id, st.value
        elif isinstance(st, ast.AnnAssign) and isinstance(st.target, ast.Name) and st.value is not None:
            tg, v = st.target.id, st.value
        elif isinstance(st, ast.AugAssign) and isinstance(st.target, ast.Name):
            tg = st.target.id
            v = ast.BinOp(left=ast.Name(id=tg, ctx=ast.Load()), op=st.op, right=st.value)
        if tg is None:
            return [state]
        lb, ub = self.bounds(v, state)
        signed = self.signed(v, state) or (isinstance(v, ast.Call) and isinstance(v.func, ast.Name) and v.func.id == "int" and v.args
                                           and not (isinstance(v.args[0], ast.Name) and ("dec", v.args[0].id, 0) in state)) \
            or (isinstance(v, ast.Call) and isinstance(v.func, ast.Name) and v.func.id in self.signed_helpers)
        # a sum with an addend that is known to be <= 0 and unbounded below on this path (a negative count taken from the input)
        negadd = isinstance(v, ast.BinOp) and isinstance(v.op, ast.Add) and any(
            self.bounds(x, state)[1] <= 0 and self.bounds(x, state)[0] <= NEG_INF and self.signed(x, state) for x in (v.left, v.right)) and lb <= NEG_INF
        s2 = self._kill(state, tg)
        if lb > NEG_INF:
            s2 = s2 | {("lb", tg, lb)}
        if ub < POS_INF:
            s2 = s2 | {("ub", tg, ub)}
        if signed:
            s2 = s2 | {("signed", tg, 0)}
        if negadd:
            s2 = s2 | {("negadd", tg, 0)}
        return [s2]

    def transfer_expr(self, node, state):
        if node is not None:
            self._record(node, state)
        return [state]

    def _facts(self, test, truth: bool) -> set:
        out = set()
        if isinstance(test, ast.UnaryOp) and isinstance(test.op, ast.Not):
            return self._facts(test.operand, not truth)
        if isinstance(test, ast.BoolOp):
            if isinstance(test.op, ast.And) == truth:
                for v in test.values:
                    out |= self._facts(v, truth)
            return out
        if isinstance(test, ast.Call) and isinstance(test.func, ast.Attribute) and test.func.attr == "isdecimal" and isinstance(test.func.value, ast.Name):
            if truth:
                out.add(("dec", test.func.value.id, 0))
            return out
        if isinstance(test, ast.Compare) and len(test.ops) == 1:
            l, op, r = test.left, test.ops[0], test.comparators[0]
            ops = {ast.Lt: "<", ast.LtE: "<=", ast.Gt: ">", ast.GtE: ">=", ast.Eq: "==", ast.NotEq: "!="}
            o = ops.get(type(op))
            if o is None:
                return out
            if not truth:
                o = {"<": ">=", "<=": ">", ">": "<=", ">=": "<", "==": "!=", "!=": "=="}[o]
            if isinstance(l, ast.Constant) and not isinstance(r, ast.Constant):
                l, r = r, l
                o = {"<": ">", "<=": ">=", ">": "<", ">=": "<=", "==": "==", "!=": "!="}[o]
            if isinstance(l, ast.Name) and isinstance(r, ast.Constant) and isinstance(r.value, int):
                c = r.value
                if o == "<":
                    out.add(("ub", l.id, c - 1))
                elif o == "<=":
                    out.add(("ub", l.id, c))
                elif o == ">":
                    out.add(("lb", l.id, c + 1))
                elif o == ">=":
                    out.add(("lb", l.id, c))
                elif o == "==":
                    out |= {("lb", l.id, c), ("ub", l.id, c)}
                elif o == "!=":
                    out.add(("ne", l.id, c))
            else:
                lt, rt = unparse(l), unparse(r)
                if o == "<":
                    out.add(("lt", lt, rt))
                elif o == ">":
                    out.add(("lt", rt, lt))
                elif o == ">=":
                    out.add(("ge", lt, rt))
                elif o == "<=":
                    out.add(("ge", rt, lt))
        return out

    def branch(self, test, state):
        self._record(test, state)

        def refine(st_, facts):
            st_ = set(st_) | facts
            # x != c with lb == c  =>  lb c+1 ; with ub == c => ub c-1
            for f in list(st_):
                if f[0] == "ne":
                    if self._get(st_, "lb", f[1], NEG_INF) == f[2]:
                        st_.add(("lb", f[1], f[2] + 1))
                    if self._get(st_, "ub", f[1], POS_INF) == f[2]:
                        st_.add(("ub", f[1], f[2] - 1))
            # infeasible?
            for f in st_:
                if f[0] == "lb" and self._get(st_, "ub", f[1], POS_INF) < f[2]:
                    return None
            return frozenset(x for x in st_ if x[0] != "ne")

        t, f = refine(state, self._facts(test, True)), refine(state, self._facts(test, False))
        return ([t] if t is not None else []), ([f] if f is not None else [])

    def for_target(self, node, state):
        s2 = state
        for n in ast.walk(node.target):
            if isinstance(n, ast.Name):
                s2 = self._kill(s2, n.id)
        if isinstance(node.target, ast.Name) and isinstance(node.iter, ast.Call) and isinstance(node.iter.func, ast.Name) and node.iter.func.id == "range":
            a = node.iter.args
            start = a[0] if len(a) >= 2 else ast.Constant(value=0)
            lb, _ = self.bounds(start, state)
            step_ok = len(a) < 3 or self.bounds(a[2], state)[0] >= 1
            if lb > NEG_INF and step_ok:
                s2 = s2 | {("lb", node.target.id, lb)}
        return [s2]

    def loop_backedge(self, loop, entry, state, via):
        # widen: keep only the facts that also held at loop entry in some state
        keep = set()
        for e in entry:
            keep |= (set(state) & set(e))
        return frozenset(keep) if entry else state


def d_not_registered(q: str, cg) -> bool:
    return ("parserfns." + q) not in cg.registered_parser_functions


def rule_r6(ctx) -> RuleResult:
    """Python reads a negative slice bound as `counted from the end`, the reference definitions (PHP mb_substr / array_slice
    with the arithmetic of ParserFunctions) do not: a bound that goes below zero silently selects other characters or
    segments.  For every slice in a registered parser function whose bound is computed from a signed integer argument
    (`int()` of argument text without an isdecimal() guard) the bound has to be provably >= 0 on every path -- by clamps
    (`max(0, .)`), guards (`if x < 0: ...`) and the arithmetic in between (path-sensitive integer bounds).  A finite negative
    lower bound, or a known-negative addend, is reported; a bound about which nothing is known is left undecided."""
    rr = RuleResult("C18.R6", "slice bounds computed from signed arguments are provably non-negative", min_instances=3)
    cg = CallGraph(ctx.index)
    targets = sorted(d for d in cg.registered_parser_functions if ctx.index.has_func(d))
    undecided = []
    m = ctx.index.mod("parserfns")
    _Bounds.signed_helpers = {q for q, f in m.funcs.items() if "." not in q and d_not_registered(q, cg)
                              and any(isinstance(c, ast.Call) and isinstance(c.func, ast.Name) and c.func.id == "int" and c.args
                                      and isinstance(c.args[0], ast.Name) and c.args[0].id in {a.arg for a in f.args.args} for c in ast.walk(f))
                              and not any(isinstance(c, ast.Call) and isinstance(c.func, ast.Attribute) and c.func.attr in ("isdecimal", "isdigit") for c in ast.walk(f))}
    for dotted in targets:
        fn = ctx.index.func(dotted)
        w = _Bounds()
        try:
            w.run_function(fn, [frozenset()])
        except AnalysisError:
            continue
        by_site = {}
        for n, b, which, lb, ub, signed, neg_add in w.sites:
            if signed:
                by_site.setdefault((id(n), which), []).append((n, b, lb, ub, neg_add))
        for (_, which), lst in by_site.items():
            n, b = lst[0][0], lst[0][1]
            worst = min(x[2] for x in lst)
            neg_add = any(x[4] for x in lst)
            label = "{}[{} bound `{}`]".format(unparse(n.value)[:20], which, unparse(b)[:40])
            if worst >= 0:
                rr.ok(dotted, label + " >= 0 on every path", {"fn": dotted, "bound": unparse(b), "lower_bound": worst})
            elif worst > NEG_INF or neg_add:
                rr.bad(Finding("C18.R6", PFN, dotted, "{}[... {} ...]".format(unparse(n.value)[:20], unparse(b)[:50]),
                               "the {} bound of this slice is computed from a signed argument and can be negative (lower bound {}): Python "
                               "then counts it from the end of the sequence and returns characters / segments the reference definition "
                               "does not".format(which, "unbounded, a negative value is added" if worst <= NEG_INF else worst), n.lineno))
            else:
                undecided.append({"fn": dotted, "bound": unparse(b)[:60]})
    if undecided:
        rr.informational.append({"bounds_not_decided": undecided})
    return rr


# what the template branch may do to the expanded text of `name[:arg]` before the first argument is cut out of it
NAME_TEXT_STEPS = {
    ("re.sub", r"<noinclude\s*/>", ""): "an empty <noinclude/> is invisible in the name",
    ("strip",): "surrounding white space",
    ("removeprefix", "safesubst:"): "substitution modifier",
    ("removeprefix", "SAFESUBST:"): "substitution modifier",
    ("removeprefix", "subst:"): "substitution modifier",
    ("removeprefix", "SUBST:"): "substitution modifier",
}


def rule_r7(ctx) -> RuleResult:
    """The first argument of `{{fn:arg|...}}` is a piece of the same string as the function name (`tname[ofs + 1:]`).  Whatever
    the template branch does to that string before the split is done to the argument of every parser function: the steps are
    confined to the enumerated ones, which cannot change an argument (seed C18-7B: collapsing `_` and white-space runs "in the
    name" makes {{#len:_}} 0 and {{lc:Foo_Bar}} `foo bar`)."""
    from . import _expand as X

    rr = RuleResult("C18.R7", "the text the first argument of a parser function is cut from is only stripped of modifiers", min_instances=4)
    tb = X.template_branch(ctx)
    uses = [n for st in tb for n in ast.walk(st) if isinstance(n, ast.Call) and unparse(n.func) == "expand_parserfn" and len(n.args) >= 2]
    if not uses:
        raise AnalysisError("template branch: expand_parserfn(...) call not found")
    srcs = {x.id for u in uses for x in ast.walk(u.args[1]) if isinstance(x, ast.Name)}
    assigns = [n for st in tb for n in ast.walk(st) if isinstance(n, ast.Assign) and len(n.targets) == 1 and isinstance(n.targets[0], ast.Name)
               and n.targets[0].id in srcs and n.lineno < uses[0].lineno]
    name_var = None
    for a in assigns:
        if isinstance(a.value, ast.Call) and unparse(a.value.func) == "expand_recurse":
            name_var = a.targets[0].id
    if name_var is None:
        raise AnalysisError("template branch: the variable holding the expanded `name:arg` text was not recognised")

    def steps(e, recv_name):
        """operations applied to recv_name inside e, outermost last"""
        if isinstance(e, ast.Name):
            return [] if e.id in recv_name else None
        if isinstance(e, ast.Call) and unparse(e.func) == "re.sub" and len(e.args) == 3:
            inner = steps(e.args[2], recv_name)
            if inner is None:
                return None
            key = ("re.sub",) + tuple(a.value if isinstance(a, ast.Constant) else "?" for a in e.args[:2])
            return inner + [(key, e)]
        if isinstance(e, ast.Call) and isinstance(e.func, ast.Attribute):
            inner = steps(e.func.value, recv_name)
            if inner is None:
                return None
            key = (e.func.attr,) + tuple(a.value for a in e.args if isinstance(a, ast.Constant))
            return inner + [(key, e)]
        return None

    # the name text may travel through aliases (`t2 = tname; t2 = re.sub(.., t2); tname = t2.strip()`): every local that is
    # computed from a member of the family by such steps joins it
    family = {name_var}
    start = min(a.lineno for a in assigns if a.targets[0].id == name_var and isinstance(a.value, ast.Call) and unparse(a.value.func) == "expand_recurse")
    chain_assigns = sorted([n for st in tb for n in ast.walk(st) if isinstance(n, ast.Assign) and len(n.targets) == 1 and isinstance(n.targets[0], ast.Name)
                            and start < n.lineno < uses[0].lineno], key=lambda n: n.lineno)
    # backwards: which locals carry the text that is finally sliced (`tname[ofs + 1:]`)?
    need = {x.value.id for u in uses for x in ast.walk(u.args[1]) if isinstance(x, ast.Subscript) and isinstance(x.value, ast.Name)} or {name_var}
    for a in reversed(chain_assigns):
        if a.targets[0].id in need:
            need |= {x.id for x in ast.walk(a.value) if isinstance(x, ast.Name)}
    for a in chain_assigns:
        if isinstance(a.value, ast.Call) and unparse(a.value.func) == "expand_recurse":
            continue
        if a.targets[0].id not in need:
            continue
        st_ = steps(a.value, family)
        if st_ is not None:
            family.add(a.targets[0].id)
        elif a.targets[0].id not in family:
            continue
        if st_ is None:
            rr.bad(Finding("C18.R7", "src/wikitextprocessor/core.py", X.RECURSE, unparse(a)[:80],
                           "the text that holds the parser function's first argument is recomputed from something else", a.lineno))
            continue
        for key, node in st_:
            if key in NAME_TEXT_STEPS:
                rr.ok(X.RECURSE, "{}: {}".format(unparse(node)[-50:], NAME_TEXT_STEPS[key]))
            else:
                rr.bad(Finding("C18.R7", "src/wikitextprocessor/core.py", X.RECURSE, unparse(node)[:90],
                               "this rewrites the whole `name:argument` text before the first argument is cut out of it, so the argument of every "
                               "parser function is rewritten too ({{{{#len:_}}}}, {{{{lc:Foo_Bar}}}}, {{{{urlencode:a_b}}}})", node.lineno))
    return rr


def rule_r8(ctx) -> RuleResult:
    """formatnum and its inverse read the locale's separators and grouping from data/<lang>/localization.json.  Several shipped
    locales have legitimate *falsy* values there (`"grouping_separator": ""` -- no digit grouping; `"grouping_method": []`).  A
    default supplied through truthiness (`loaded.get(k) or D`, `x if x else D`) replaces those by the English default, so those
    locales group with "," although their decimal point is "," too and formatnum|R no longer inverts formatnum (seed C18-8A).
    Decided from the data: for every such construct on a localisation key, no shipped file may hold a falsy value for it."""
    from ..core.data import DataFiles

    rr = RuleResult("C18.R8", "no truthiness default on a localisation key that is legitimately empty in a shipped locale", min_instances=1)
    data = DataFiles(ctx.index)
    if len(data.localization) < 20:
        raise AnalysisError("only {} localization.json files found".format(len(data.localization)))
    keys = set()
    for d in data.localization.values():
        keys |= set(d)
    falsy = {k: sorted(lang for lang, d in data.localization.items() if k in d and not d[k]) for k in keys}
    rr.instances["localisation_keys"] = sorted(keys)
    rr.instances["keys_with_falsy_values"] = {k: v for k, v in falsy.items() if v}

    def key_read(e):
        """the localisation key a sub-expression reads (`X.get("k"...)`, `X["k"]`), or None"""
        if isinstance(e, ast.Call) and isinstance(e.func, ast.Attribute) and e.func.attr == "get" and e.args \
                and isinstance(e.args[0], ast.Constant) and e.args[0].value in keys:
            return e.args[0].value
        if isinstance(e, ast.Subscript) and isinstance(e.slice, ast.Constant) and e.slice.value in keys:
            return e.slice.value
        return None

    n = 0
    for dotted, m, f in ctx.index.all_functions():
        if dotted.split(".")[0] not in ("core", "parserfns"):
            continue
        reads = [x for x in walk_no_nested(f) if key_read(x) is not None]
        if not reads:
            continue
        ctx.touched(dotted, m.relpath)
        n += len(reads)
        for x in walk_no_nested(f):
            k = None
            if isinstance(x, ast.BoolOp) and isinstance(x.op, ast.Or) and len(x.values) >= 2:
                k = key_read(x.values[0])
            elif isinstance(x, ast.IfExp) and key_read(x.test) is not None and key_read(x.body) == key_read(x.test):
                k = key_read(x.test)
            if k is None:
                continue
            if falsy.get(k):
                rr.bad(Finding("C18.R8", m.relpath, dotted, unparse(x)[:70],
                               "the default for localisation key {!r} is chosen by truthiness, but {} shipped locale(s) ({}) define it as an empty "
                               "value on purpose: there the English default takes over and formatnum / formatnum|R no longer agree".format(
                                   k, len(falsy[k]), ", ".join(falsy[k][:8])), x.lineno))
            else:
                rr.ok(dotted, "truthiness default on {!r}: no shipped locale has a falsy value".format(k))
    if n == 0:
        raise AnalysisError("no read of a localisation key found in core/parserfns")
    rr.ok("core", "{} reads of localisation keys examined".format(n))
    return rr


_CMP_OPS = {"=": ast.Eq, "!=": ast.NotEq, "<>": ast.NotEq, ">": ast.Gt, "<": ast.Lt, ">=": ast.GtE, "<=": ast.LtE}


def rule_r9(ctx) -> RuleResult:
    """The comparison operators of #expr are exact and mutually consistent (`a = b` iff neither `a < b` nor `a > b`): each
    entry of the comparison table applies the one Python comparison its key names to its two operands.  A tolerance
    (`math.isclose`, `abs(x - y) < eps`) makes distinct values equal -- `100000000000 = 100000000001` -- and `=` stops agreeing
    with `<`, `>` and subtraction (seed C18-9A)."""
    from ..core.index import LambdaRef

    rr = RuleResult("C18.R9", "every #expr comparison operator applies exactly the comparison its key names", min_instances=7)
    tb = ctx.index.consts("parserfns").get("binary_cmp_fns")
    if not isinstance(tb, dict) or not tb:
        raise AnalysisError("binary_cmp_fns not foldable")
    for op, v in tb.items():
        if op not in _CMP_OPS:
            raise AnalysisError("binary_cmp_fns: operator {!r} not known to the rule".format(op))
        if not isinstance(v, LambdaRef):
            raise AnalysisError("binary_cmp_fns[{!r}] is not a lambda (not decided)".format(op))
        lam = v.node
        ps = [a.arg for a in lam.args.args]
        body = lam.body
        if isinstance(body, ast.Call) and unparse(body.func) in ("int", "bool") and len(body.args) == 1:
            body = body.args[0]
        elif isinstance(body, ast.IfExp) and unparse(body.body) == "1" and unparse(body.orelse) == "0":
            body = body.test
        tol = [c for c in ast.walk(lam.body) if isinstance(c, ast.Call) and (unparse(c.func).endswith("isclose") or unparse(c.func) == "abs" or unparse(c.func) == "round")]
        if tol:
            rr.bad(Finding("C18.R9", PFN, "parserfns.binary_cmp_fns", "binary_cmp_fns[{!r}] = {}".format(op, unparse(lam)[:60]),
                           "the operator compares with a tolerance / after rounding (`{}`): distinct numerals whose difference is below the "
                           "tolerance compare equal, and `=` no longer agrees with `<`, `>` and `-`".format(unparse(tol[0])[:40]), lam.lineno))
            continue
        if isinstance(body, ast.Compare) and len(body.ops) == 1 and len(ps) == 2 and unparse(body.left) == ps[0] and unparse(body.comparators[0]) == ps[1]:
            if isinstance(body.ops[0], _CMP_OPS[op]):
                rr.ok("parserfns.binary_cmp_fns", "{!r}: {}".format(op, unparse(body)), {"operator": op, "body": unparse(body)})
            else:
                rr.bad(Finding("C18.R9", PFN, "parserfns.binary_cmp_fns", "binary_cmp_fns[{!r}] = {}".format(op, unparse(lam)[:60]),
                               "the entry for `{}` applies `{}`".format(op, unparse(body)), lam.lineno))
        else:
            raise AnalysisError("binary_cmp_fns[{!r}]: body `{}` not recognised".format(op, unparse(lam.body)[:50]))
    return rr


def rule_r10(ctx) -> RuleResult:
    """`{{urlencode:x|WIKI}}`, `localurl` and the `...PAGENAMEE` functions return what `wikiurlencode` returns, and the documented
    value escapes every reserved character except `/` and `:`.  So every return of that helper is a `quote(<text>, safe=S)`
    with S made of `/` and `:` only, possibly several concatenated -- but never with a literal reserved character spliced in
    between (seed C18-9B: the text split at `#`, the halves quoted, and a bare `"#"` put back "to keep section links
    working": `{{urlencode:a#|WIKI}}` returns `a#` instead of `a%23`)."""
    rr = RuleResult("C18.R10", "wikiurlencode returns only quoted text (safe characters `/` and `:`)", min_instances=1)
    dotted = "parserfns.wikiurlencode"
    fn = ctx.fn(dotted)
    rets = [r for r in walk_no_nested(fn) if isinstance(r, ast.Return) and r.value is not None]
    if not rets:
        raise AnalysisError("wikiurlencode: no return found")
    unreserved = set("ABCDEFGHIJKLMNOPQRSTUVWXYZabcdefghijklmnopqrstuvwxyz0123456789_.-~/:%")

    def pieces(e):
        if isinstance(e, ast.BinOp) and isinstance(e.op, ast.Add):
            return pieces(e.left) + pieces(e.right)
        return [e]

    for r in rets:
        for pc in pieces(r.value):
            if isinstance(pc, ast.Call) and unparse(pc.func).split(".")[-1] in ("quote", "quote_plus"):
                safe = next((k.value for k in pc.keywords if k.arg == "safe"), pc.args[1] if len(pc.args) > 1 else None)
                sv = safe.value if isinstance(safe, ast.Constant) and isinstance(safe.value, str) else ("/" if safe is None else None)
                if sv is None:
                    raise AnalysisError("wikiurlencode: `safe` of {} is not a constant".format(unparse(pc)[:40]))
                extra = set(sv) - set("/:")
                if extra:
                    rr.bad(Finding("C18.R10", PFN, dotted, unparse(pc)[:60],
                                   "reserved characters {} are left unescaped by safe={!r}".format(sorted(extra), sv), pc.lineno))
                else:
                    rr.ok(dotted, "quote(..., safe={!r})".format(sv))
            elif isinstance(pc, ast.Constant) and isinstance(pc.value, str):
                bad = set(pc.value) - unreserved
                if bad:
                    rr.bad(Finding("C18.R10", PFN, dotted, "literal {!r} in the returned value".format(pc.value),
                                   "the reserved character(s) {} are spliced into the result unescaped: `{{{{urlencode:a{}|WIKI}}}}` must "
                                   "percent-encode them".format(sorted(bad), sorted(bad)[0]), pc.lineno))
                else:
                    rr.ok(dotted, "literal {!r} (unreserved)".format(pc.value))
            elif isinstance(pc, ast.Name):
                defs = [n.value for n in walk_no_nested(fn) if isinstance(n, ast.Assign) and len(n.targets) == 1 and unparse(n.targets[0]) == pc.id]
                if defs and all(isinstance(d_, ast.Call) and unparse(d_.func).split(".")[-1] in ("quote", "quote_plus") for d_ in defs):
                    rr.ok(dotted, "`{}` holds quoted text".format(pc.id))
                else:
                    raise AnalysisError("wikiurlencode: returned piece `{}` not recognised".format(pc.id))
            else:
                raise AnalysisError("wikiurlencode: returned piece `{}` not recognised".format(unparse(pc)[:40]))
    return rr


def rule_r11(ctx) -> RuleResult:
    """Optional numeric arguments default independently: `{{#explode:a/b/c|/||2}}` has an empty position *and* a valid limit.
    When one `try` whose handler falls through (assigns a default or passes) contains the conversions of two different
    arguments, the failure of the first conversion skips the second, and a well-formed argument is silently replaced by its
    default.  Rule: in every registered parser function, a `try` with a fall-through ValueError handler converts at most one
    source value."""
    rr = RuleResult("C18.R11", "a malformed numeric argument does not discard another argument's value", min_instances=1)
    cg = CallGraph(ctx.index)
    conv = ("int", "float", "Decimal", "safe_int", "safe_float")

    def sources(st):
        out = set()
        for c in ast.walk(st):
            if isinstance(c, ast.Call) and isinstance(c.func, ast.Name) and c.func.id in conv and c.args:
                names = sorted({n.id for n in ast.walk(c.args[0]) if isinstance(n, ast.Name)} | {unparse(n) for n in ast.walk(c.args[0]) if isinstance(n, ast.Subscript)})
                if names:
                    out.add(",".join(names))
        return out

    for dotted in sorted(d for d in cg.registered_parser_functions if ctx.index.has_func(d)):
        fn = ctx.index.func(dotted)
        for t in walk_no_nested(fn):
            if not isinstance(t, ast.Try):
                continue
            falls = [h for h in t.handlers if (h.type is None or any(x in unparse(h.type) for x in ("ValueError", "Exception", "ArithmeticError", "TypeError")))
                     and not any(isinstance(n, (ast.Return, ast.Raise, ast.Continue, ast.Break)) for st in h.body for n in ast.walk(st))]
            if not falls:
                continue
            per_stmt = [(st, sources(st)) for st in t.body]
            per_stmt = [(st, sv) for st, sv in per_stmt if sv]
            if not per_stmt:
                continue
            first_src = per_stmt[0][1]
            later = [(st, sv) for st, sv in per_stmt[1:] if sv - first_src]
            # the later conversion matters when its target is read after the try statement
            if later:
                st, sv = later[0]
                rr.bad(Finding("C18.R11", PFN, dotted, "try: {} ... {}".format(unparse(per_stmt[0][0])[:40], unparse(st)[:40]),
                               "one try block with a fall-through handler converts `{}` and then `{}`: when the first conversion fails the "
                               "second is never executed, so a well-formed argument is replaced by its default".format(
                                   sorted(first_src)[0], sorted(sv - first_src)[0]), t.lineno))
            else:
                rr.ok(dotted, "try at line-independent key `{}` converts one source".format(unparse(per_stmt[0][0])[:40]), {"fn": dotted})
    return rr


def run(ctx) -> list:
    return [rule_r1(ctx), rule_r2(ctx), rule_r3(ctx), rule_r4(ctx), rule_r5(ctx), rule_r6(ctx), rule_r7(ctx), rule_r8(ctx), rule_r9(ctx), rule_r10(ctx), rule_r11(ctx)]
