"""C18 -- parser functions compute their documented values.

Values of arithmetic and string functions are not decided.  Table agreement,
a typing fact and a data precondition are:

R1  precedence ladder: the chain parse_expr -> ... -> parse_atom of #expr and the
    operator table used at each level put every implemented operator at its
    documented precedence level (Help:Extension:ParserFunctions), and binary
    operators of one level fold to the left.
R2  no comparison between incompatible types in registered functions: a value
    returned by a function annotated `-> str` is not compared with an int
    literal (quick: annotation-driven AST check; thorough: mypy
    comparison-overlap with strict equality).
R3  locale precondition: formatnum's "separator present -> leave unformatted"
    test and the order of replacements in the R (reverse) mode are correct for
    every shipped localization.json, in particular for locales whose grouping
    separator is "." (the raw decimal point).
"""

from __future__ import annotations

import ast

from ..core.callgraph import CallGraph
from ..core.index import ExtRef, FuncRef, LambdaRef, unparse, walk_no_nested
from ..core.report import AnalysisError, Finding, RuleResult

EXPLANATION = (
    "The recursive-descent ladder of #expr is extracted (which level calls which, with which operator "
    "table) and every operator key is compared with the precedence table documented for the "
    "ParserFunctions extension, frozen in the checker; the fold direction is read from "
    "generic_binary. Comparisons between a `-> str` result and an int literal are found from the "
    "annotations (and by mypy's comparison-overlap in the thorough tier). The statement order of "
    "formatnum / formatnum R is checked against all shipped locale files. Values of the string "
    "functions and of the operator bodies are not decided."
)
ASSUMPTIONS = [
    "documented precedence (highest first): grouping; numbers; binary e, unary + -; unary functions; ^; * / div mod; + -; round; comparisons; and; or",
    "raw numbers passed to formatnum use '.' as decimal point (MediaWiki convention)",
]
PFN = "src/wikitextprocessor/parserfns.py"

# lowest precedence first
DOCUMENTED = [
    {"or"},
    {"and"},
    {"=", "!=", "<>", ">", "<", ">=", "<="},
    {"round"},
    {"+", "-"},
    {"*", "/", "div", "mod", "fmod"},
    {"^"},
    {"not", "ceil", "trunc", "floor", "abs", "exp", "ln", "sin", "cos", "tan", "acos", "asin", "atan", "sqrt"},
    {"e"},
]


def _ladder(ctx) -> list:
    """[(level function name, table name or None, next function)] from parse_expr downwards"""
    m = ctx.index.mod("parserfns")
    nested = {q.split(".")[-1]: f for q, f in m.funcs.items() if q.startswith("expr_fn.") and q.count(".") == 1}
    chain = []
    cur = "parse_expr"
    seen = set()
    while cur in nested and cur not in seen:
        seen.add(cur)
        f = nested[cur]
        nxt = table = None
        for n in walk_no_nested(f):
            if isinstance(n, ast.Call) and unparse(n.func) == "generic_binary" and len(n.args) >= 3:
                nxt, table = unparse(n.args[1]), unparse(n.args[2])
                extra = [unparse(a) for a in n.args[3:]] + ["{}={}".format(k.arg, unparse(k.value)) for k in n.keywords]
                chain.append((cur, table, nxt, extra))
                break
        else:
            # non-generic levels
            calls = [unparse(c.func) for c in walk_no_nested(f) if isinstance(c, ast.Call) and unparse(c.func) in nested
                     and unparse(c.func) != cur and unparse(c.func).startswith("parse_")]
            calls.sort(key=lambda nm: nested[nm].lineno)
            tbl = None
            for n in walk_no_nested(f):
                if isinstance(n, ast.Call) and isinstance(n.func, ast.Attribute) and n.func.attr == "get" and unparse(n.func.value).endswith("_fns"):
                    tbl = unparse(n.func.value)
            nxt = calls[0] if calls else None
            chain.append((cur, tbl, nxt, []))
        cur = nxt
    return chain


def rule_r1(ctx) -> RuleResult:
    rr = RuleResult("C18.R1", "#expr operators sit at their documented precedence level and fold left", min_instances=30)
    chain = _ladder(ctx)
    names = [c[0] for c in chain]
    rr.instances["ladder"] = [(c[0], c[1]) for c in chain]
    if not names or names[0] != "parse_expr" or "parse_atom" not in names:
        raise AnalysisError("expr_fn: could not follow the ladder from parse_expr to parse_atom: {}".format(names))
    consts = ctx.index.consts("parserfns")
    level_of = {}
    depth = 0
    for fn, table, nxt, extra in chain:
        if table is None:
            continue
        tb = consts.get(table)
        if not isinstance(tb, dict):
            raise AnalysisError("operator table {} not foldable".format(table))
        for op in tb:
            if table == "unary_fns" and op in ("-", "+"):
                continue  # kludge entries; unary +/- are handled by parse_unary itself
            level_of[op] = (depth, table, fn)
        depth += 1
    # documented level index for each operator
    doc_level = {}
    for i, ops in enumerate(DOCUMENTED):
        for op in ops:
            doc_level[op] = i
    # the implemented levels must be order-isomorphic to the documented ones
    impl_levels = sorted({d for d, _, _ in level_of.values()})
    for op, (d, table, fn) in sorted(level_of.items(), key=lambda x: (x[1][0], x[0])):
        if op not in doc_level:
            rr.bad(Finding("C18.R1", PFN, "parserfns.expr_fn", "{}[{!r}]".format(table, op), "operator is not in the documented table", 0))
            continue
        # compare relative order with every other operator
        wrong = [o2 for o2, (d2, _, _) in level_of.items() if o2 in doc_level
                 and ((d < d2) != (doc_level[op] < doc_level[o2]) or (d == d2) != (doc_level[op] == doc_level[o2]))]
        if wrong:
            rr.bad(Finding("C18.R1", PFN, "parserfns.expr_fn." + fn, "{}[{!r}] at ladder level {}".format(table, op, d),
                           "`{}` binds {} relative to {} than the documented precedence says (e.g. `{}`)".format(
                               op, "differently", ", ".join(sorted(wrong)[:4]), "1 {} 2 {} 3".format(op, sorted(wrong)[0])), 0))
        else:
            rr.ok("parserfns.expr_fn." + fn, "{!r} at level {} ({})".format(op, d, table), {"operator": op, "level": d, "table": table})
    # fold direction
    m = ctx.index.mod("parserfns")
    gb = m.funcs.get("expr_fn.generic_binary")
    if gb is None:
        raise AnalysisError("generic_binary vanished")
    loops = [n for n in gb.body if isinstance(n, ast.While)]
    applies = [n for n in ast.walk(gb) if isinstance(n, ast.Assign) and unparse(n.value) == "fn(ret, ret2)" and unparse(n.targets[0]) == "ret"]
    rhs = [n for n in ast.walk(gb) if isinstance(n, ast.Assign) and unparse(n.targets[0]) == "ret2"]
    uses_assoc = any(isinstance(n, ast.Name) and n.id == "assoc" and isinstance(getattr(n, "ctx", None), ast.Load) for n in ast.walk(gb))
    right_calls = [c for c in chain if any("right" in e for e in c[3])]
    if loops and applies and rhs and all(unparse(r.value) == "parser(tok)" for r in rhs) and not uses_assoc and not right_calls:
        rr.ok("parserfns.expr_fn.generic_binary", "while-loop left fold: ret = fn(ret, parser(tok))", {"fold": "left"})
    else:
        rr.bad(Finding("C18.R1", PFN, "parserfns.expr_fn.generic_binary", "ret = fn(ret, ret2) in a while loop",
                       "binary operators of one level are no longer folded strictly left to right{}: `2 ^ 3 ^ 2` must be (2^3)^2 = 64".format(
                           " (assoc={} is passed for {})".format("right", ", ".join(c[1] for c in right_calls)) if right_calls else ""), gb.lineno))
    # ladder monotonicity: a level's parser refers only to itself (prefix chains) and to tighter-binding levels;
    # the single way back up is parse_atom -> parse_expr inside parentheses.  An operand parser that calls a
    # looser-binding level swallows the rest of the operator chain (`2e-3e3` becomes `2e-(3e3)`).
    for i, name in enumerate(names):
        fdef = m.funcs.get("expr_fn." + name)
        if fdef is None:
            continue
        refs = {x.id for x in ast.walk(fdef) if isinstance(x, ast.Name) and x.id in names and x.id != name}
        for r_ in sorted(refs):
            j = names.index(r_)
            if j > i or (name == "parse_atom" and r_ == names[0]):
                continue
            rr.bad(Finding("C18.R1", PFN, "parserfns.expr_fn." + name, "{} -> {}".format(name, r_),
                           "`{}` (ladder level {}) calls the looser-binding `{}` (level {}) outside parentheses: the operand it parses "
                           "swallows the rest of an operator chain, so the chain is no longer folded left".format(name, i, r_, j), fdef.lineno))
        if not any(f_.construct.startswith(name + " -> ") for f_ in rr.findings):
            rr.ok("parserfns.expr_fn." + name, "refers only to itself and tighter-binding levels", {"level_fn": name, "refs": sorted(refs)})
    # unary +/- bind tighter than everything but atoms
    pu = m.funcs.get("expr_fn.parse_unary")
    if pu is not None and "parse_atom(tok)" in unparse(pu) and names.index("parse_unary") == names.index("parse_atom") - 1:
        rr.ok("parserfns.expr_fn.parse_unary", "unary +/- directly above atoms")
    else:
        rr.bad(Finding("C18.R1", PFN, "parserfns.expr_fn.parse_unary", "parse_unary -> parse_atom", "unary +/- are not the tightest-binding operators", 0))
    return rr


def rule_r2(ctx) -> RuleResult:
    rr = RuleResult("C18.R2", "no str/int comparison in registered parser functions", min_instances=1)
    cg = CallGraph(ctx.index)
    m = ctx.index.mod("parserfns")
    returns_str = {q for q, f in m.funcs.items() if "." not in q and f.returns is not None and unparse(f.returns) == "str"}
    n_cmp = 0
    for dotted in sorted(cg.registered_parser_functions):
        if not dotted.startswith("parserfns."):
            continue
        fn = ctx.fn(dotted)
        str_vars = set()
        for n in walk_no_nested(fn):
            if isinstance(n, (ast.Assign, ast.AnnAssign)) and getattr(n, "value", None) is not None:
                t = n.targets[0] if isinstance(n, ast.Assign) else n.target
                v = n.value
                if isinstance(t, ast.Name):
                    if isinstance(v, ast.Call) and isinstance(v.func, ast.Name) and v.func.id in returns_str:
                        str_vars.add(t.id)
                    elif isinstance(v, ast.Call) and isinstance(v.func, ast.Attribute) and v.func.attr in ("strip", "lower", "upper") :
                        str_vars.add(t.id)
                    elif isinstance(v, ast.Call) and isinstance(v.func, ast.Name) and v.func.id == "expander":
                        str_vars.add(t.id)
        for n in walk_no_nested(fn):
            if isinstance(n, ast.Compare) and len(n.ops) == 1 and isinstance(n.ops[0], (ast.Eq, ast.NotEq)):
                l, r = n.left, n.comparators[0]
                for a, b in ((l, r), (r, l)):
                    if isinstance(a, ast.Name) and a.id in str_vars and isinstance(b, ast.Constant) and isinstance(b.value, (int, float)) \
                            and not isinstance(b.value, bool):
                        n_cmp += 1
                        rr.bad(Finding("C18.R2", PFN, dotted, unparse(n),
                                       "`{}` holds a str (result of a function annotated `-> str`) and is compared with the number {!r}: the "
                                       "comparison is never true".format(a.id, b.value), n.lineno))
                    elif isinstance(a, ast.Name) and a.id in str_vars and isinstance(b, ast.Constant) and isinstance(b.value, str):
                        n_cmp += 1
                        rr.ok(dotted, unparse(n), {"fn": dotted, "comparison": unparse(n)})
    rr.instances["str_vs_constant_comparisons"] = n_cmp
    if ctx.thorough:
        res = ctx.mypy
        bad = [d for d in res.with_code("comparison-overlap") if d["file"].endswith("parserfns.py")]
        rr.instances["mypy_wall_s"] = round(res.wall, 1)
        rr.instances["mypy_comparison_overlap"] = bad
        for d in bad:
            rr.bad(Finding("C18.R2", PFN, "parserfns (mypy)", d["msg"], "mypy strict-equality: " + d["msg"], d["line"]))
        if not bad:
            rr.ok("parserfns (mypy)", "no comparison-overlap diagnostics")
    return rr


def rule_r3(ctx) -> RuleResult:
    rr = RuleResult("C18.R3", "formatnum and formatnum R are inverse for every shipped locale", min_instances=3)
    data = ctx.data
    locs = data.localization
    dot_sep = sorted(l for l, d in locs.items() if d.get("grouping_separator") == ".")
    same = sorted(l for l, d in locs.items() if d.get("grouping_separator") == d.get("decimal_point"))
    rr.instances["locales"] = len(locs)
    rr.instances["locales_with_dot_separator"] = len(dot_sep)
    if same:
        rr.bad(Finding("C18.R3", "src/wikitextprocessor/data", "localization.json", "grouping_separator == decimal_point in {}".format(same[:5]),
                       "formatting is not invertible when both characters are equal", 0))
    else:
        rr.ok("localization.json", "separator != decimal point in all {} locales".format(len(locs)))
    # the data the functions see is the data as shipped: LOCALIZATION_DATA is bound to the result of
    # json.load (or to the literal default when the locale has no file) and never patched afterwards.
    # Several locales deliberately ship empty values (grouping_separator "" / grouping_method []); a
    # loader that skips falsy values gives them ',' and makes separator == decimal point.
    init = ctx.fn("core.Wtp.init_localization_data")
    n_bind = 0
    for dotted, m_, f_ in ctx.index.all_functions():
        for n in walk_no_nested(f_):
            tgs = n.targets if isinstance(n, ast.Assign) else [n.target] if isinstance(n, (ast.AnnAssign, ast.AugAssign)) else []
            val = getattr(n, "value", None)
            for t in tgs:
                if isinstance(t, ast.Attribute) and t.attr == "LOCALIZATION_DATA" and val is not None:
                    n_bind += 1
                    if isinstance(n, ast.AugAssign) or not (isinstance(val, ast.Dict) or (isinstance(val, ast.Call) and unparse(val.func) == "json.load")):
                        rr.bad(Finding("C18.R3", "src/wikitextprocessor/core.py", dotted, unparse(n)[:80],
                                       "LOCALIZATION_DATA is not bound to the shipped file's content as loaded", n.lineno))
                    else:
                        rr.ok(dotted, unparse(n)[:60], {"binding": unparse(val)[:40]})
                elif isinstance(t, ast.Subscript) and isinstance(t.value, ast.Attribute) and t.value.attr == "LOCALIZATION_DATA":
                    rr.bad(Finding("C18.R3", ctx.index.mod(dotted.split(".")[0]).relpath, dotted, unparse(n)[:80],
                                   "entries of LOCALIZATION_DATA are written one by one: values the locale file sets deliberately (\"\" / []) can be "
                                   "dropped or altered, e.g. separator and decimal point become the same character for bg, pt, sr ...", n.lineno))
            if isinstance(n, ast.Call) and isinstance(n.func, ast.Attribute) and n.func.attr in ("update", "setdefault", "pop", "clear") \
                    and isinstance(n.func.value, ast.Attribute) and n.func.value.attr == "LOCALIZATION_DATA":
                rr.bad(Finding("C18.R3", ctx.index.mod(dotted.split(".")[0]).relpath, dotted, unparse(n)[:80],
                               "LOCALIZATION_DATA is modified after loading", n.lineno))
    if n_bind == 0:
        raise AnalysisError("no binding of LOCALIZATION_DATA found ({} analysed)".format(init.name))
    fn = ctx.fn("parserfns.formatnum_fn")
    # the early return `if sep in X: return arg0`
    tests = [n for n in walk_no_nested(fn) if isinstance(n, ast.If) and isinstance(n.test, ast.Compare) and isinstance(n.test.ops[0], ast.In)
             and unparse(n.test.left) == "sep"]
    if len(tests) != 1:
        raise AnalysisError("formatnum_fn: the `sep in ...` test was not found")
    subj = tests[0].test.comparators[0]
    whole = isinstance(subj, ast.Name) and subj.id == "arg0"
    if whole and dot_sep:
        rr.bad(Finding("C18.R3", PFN, "parserfns.formatnum_fn", unparse(tests[0].test),
                       "the raw input's decimal point is always '.', so for the {} locales whose grouping separator is '.' ({} ...) every number "
                       "with a fractional part is returned unformatted: formatnum:1234567.891 stays 1234567.891".format(len(dot_sep), ", ".join(dot_sep[:5])),
                       tests[0].lineno))
    else:
        rr.ok("parserfns.formatnum_fn", "`{}` (integer part only / no '.'-separator locale)".format(unparse(tests[0].test)),
              {"test": unparse(tests[0].test), "dot_separator_locales": len(dot_sep)})
    rv = ctx.fn("parserfns._formatnum_reverse")
    for r in [n for n in walk_no_nested(rv) if isinstance(n, ast.Return) and isinstance(n.value, ast.Call)]:
        # flatten the .replace chain, innermost first
        chain = []
        c = r.value
        while isinstance(c, ast.Call) and isinstance(c.func, ast.Attribute) and c.func.attr == "replace":
            chain.append([unparse(a) for a in c.args])
            c = c.func.value
        chain.reverse()
        if not chain:
            continue
        idx_dec = next((i for i, a in enumerate(chain) if a[0] == "decimal"), None)
        idx_sep = next((i for i, a in enumerate(chain) if a[0] == "sep"), None)
        label = ".".join("replace({})".format(", ".join(a)) for a in chain)
        if idx_dec is None or idx_sep is None:
            raise AnalysisError("_formatnum_reverse: replace chain not understood: " + label)
        if idx_dec < idx_sep and dot_sep:
            rr.bad(Finding("C18.R3", PFN, "parserfns._formatnum_reverse", label,
                           "the decimal point is converted to '.' before the grouping separators are deleted: for locales whose separator is '.' "
                           "the new decimal point is deleted as well (formatnum:1.234.567,891|R gives 1234567891)", r.lineno))
        else:
            rr.ok("parserfns._formatnum_reverse", label, {"chain": label})
    return rr


def rule_r4(ctx) -> RuleResult:
    """'plural selects by number': the value compared with "1" is the *evaluated* count on every path --
    the normalised string expr_fn returns ("01", "1.0", "3-2" all give "1"), never the raw argument text."""
    rr = RuleResult("C18.R4", "plural compares the evaluated count, on every path", min_instances=1)
    fn = ctx.fn("parserfns.plural_fn")
    cmps = [c for c in walk_no_nested(fn) if isinstance(c, ast.Compare) and len(c.ops) == 1 and isinstance(c.ops[0], (ast.Eq, ast.NotEq))
            and isinstance(c.comparators[0], ast.Constant) and str(c.comparators[0].value) == "1" and isinstance(c.left, ast.Name)]
    if not cmps:
        raise AnalysisError("plural_fn: comparison with the singular value not found")
    for c in cmps:
        var = c.left.id
        assigns = [n for n in walk_no_nested(fn) if isinstance(n, ast.Assign) and any(isinstance(t, ast.Name) and t.id == var for t in n.targets)]
        raw = [n for n in assigns if not (isinstance(n.value, ast.Call) and unparse(n.value.func) == "expr_fn")]
        if assigns and not raw:
            rr.ok("parserfns.plural_fn", "{} is always the result of expr_fn".format(var), {"compared": unparse(c)})
        else:
            n = raw[0] if raw else c
            rr.bad(Finding("C18.R4", PFN, "parserfns.plural_fn", unparse(n)[:70],
                           "on this path the count compared with \"1\" is not the value evaluated by expr_fn: `{{{{plural:01|day|days}}}}` "
                           "(e.g. a zero-padded count) selects the plural form", n.lineno))
    return rr


def _depends(stmts: list, dep: set, ctrl: bool = False, seeds: frozenset = frozenset()) -> None:
    """forward propagation of `depends on a seed variable` through a loop-free statement list (data dependence through
    assignments, control dependence through tests that read a dependent name); `dep` is updated in place.  Callers
    record what they need through the hook _depends.at(stmt, dep, ctrl)."""
    for st in stmts:
        hook = getattr(_depends, "at", None)
        if hook is not None:
            hook(st, dep, ctrl)
        reads = lambda e: {n.id for n in ast.walk(e) if isinstance(n, ast.Name) and isinstance(n.ctx, ast.Load)}  # noqa: E731
        if isinstance(st, (ast.Assign, ast.AugAssign, ast.AnnAssign)) and getattr(st, "value", None) is not None:
            tg = st.targets if isinstance(st, ast.Assign) else [st.target]
            d = ctrl or bool(reads(st.value) & dep) or (isinstance(st, ast.AugAssign) and bool(reads(st.target) & dep))
            for t in tg:
                for nm in [n.id for n in ast.walk(t) if isinstance(n, ast.Name)]:
                    if d:
                        dep.add(nm)
                    elif not ctrl and isinstance(t, ast.Name) and not isinstance(st, ast.AugAssign) and nm not in seeds:
                        dep.discard(nm)   # strong update outside any dependent branch (a seed is a source wherever it is assigned)
        elif isinstance(st, ast.If):
            c = ctrl or bool(reads(st.test) & dep)
            d1, d2 = set(dep), set(dep)
            _depends(st.body, d1, c, seeds)
            _depends(st.orelse, d2, c, seeds)
            dep.clear()
            dep.update(d1 | d2)
        elif isinstance(st, ast.Try):
            _depends(st.body, dep, ctrl, seeds)
            for h in st.handlers:
                _depends(h.body, dep, ctrl, seeds)
            _depends(st.orelse, dep, ctrl, seeds)
            _depends(st.finalbody, dep, ctrl, seeds)
        elif isinstance(st, (ast.For, ast.While, ast.With)):
            _depends(st.body, dep, ctrl, seeds)
            _depends(st.body, dep, ctrl, seeds)


def rule_r5(ctx) -> RuleResult:
    """`{{#explode:s|d|-n|limit}}`: a negative position counts from the end of the pieces that are *returned*, and a limit
    merges the tail into the last piece -- so the number a negative position is resolved against has to depend on the limit
    (PHP: explode($d, $s, $limit) first, then count()).  Information-flow rule: at the statement that turns a negative
    position into an index, the value it adds depends (by data or control) on the parsed limit.  Resolving first and applying
    the limit afterwards, in whichever form, breaks exactly the calls that give both (seeds C18-2B, C18-4B)."""
    rr = RuleResult("C18.R5", "#explode resolves a negative position against the piece count after the limit was applied", min_instances=1)
    dotted = "parserfns.explode_fn"
    fn = ctx.fn(dotted)

    def arg_var(idx: int):
        """local parsed with int() from args[idx] (through one intermediate string local)"""
        strs = set()
        for n in walk_no_nested(fn):
            if isinstance(n, ast.Assign) and len(n.targets) == 1 and isinstance(n.targets[0], ast.Name):
                if any(isinstance(x, ast.Subscript) and unparse(x.value) == "args" and isinstance(x.slice, ast.Constant) and x.slice.value == idx
                       for x in ast.walk(n.value)):
                    strs.add(n.targets[0].id)
        for n in walk_no_nested(fn):
            if isinstance(n, ast.Assign) and len(n.targets) == 1 and isinstance(n.targets[0], ast.Name) and isinstance(n.value, ast.Call) \
                    and unparse(n.value.func) == "int" and n.value.args and isinstance(n.value.args[0], ast.Name) and n.value.args[0].id in strs:
                return n.targets[0].id
        # converted by a helper (`position = _int_or_zero(posstr)`): the one local computed from the argument's text by a call
        cands = {n.targets[0].id for n in walk_no_nested(fn)
                 if isinstance(n, ast.Assign) and len(n.targets) == 1 and isinstance(n.targets[0], ast.Name) and n.targets[0].id not in strs
                 and isinstance(n.value, ast.Call) and any(isinstance(x, ast.Name) and x.id in strs for a in n.value.args for x in ast.walk(a))}
        return cands.pop() if len(cands) == 1 else None

    pos, lim = arg_var(2), arg_var(3)
    if pos is None or lim is None:
        raise AnalysisError("explode_fn: the locals parsed from the position / limit arguments were not recognised")
    found = []

    def at(st, dep, ctrl):
        # the normalisation: an assignment to the position local under `pos < 0`
        if isinstance(st, ast.If) and isinstance(st.test, ast.Compare) and len(st.test.ops) == 1 and isinstance(st.test.ops[0], ast.Lt) \
                and unparse(st.test.left) == pos and isinstance(st.test.comparators[0], ast.Constant) and st.test.comparators[0].value == 0:
            for b in st.body:
                if isinstance(b, (ast.Assign, ast.AugAssign)):
                    tg = b.targets[0] if isinstance(b, ast.Assign) else b.target
                    if isinstance(tg, ast.Name) and tg.id == pos:
                        reads = {n.id for n in ast.walk(b.value) if isinstance(n, ast.Name)} - {pos}
                        found.append((b, bool(reads & dep) or ctrl, sorted(reads)))

    _depends.at = at
    try:
        _depends([s_ for s_ in fn.body], {lim}, False, frozenset([lim]))
    finally:
        _depends.at = None
    if not found:
        raise AnalysisError("explode_fn: the statement that resolves a negative position (`if {} < 0: {} = ...`) was not recognised".format(pos, pos))
    for st, ok, reads in found:
        if ok:
            rr.ok(dotted, "`{}` adds a count that depends on the limit".format(unparse(st)[:60]), {"reads": reads})
        else:
            rr.bad(Finding("C18.R5", PFN, dotted, unparse(st)[:80],
                           "a negative position is resolved against a piece count that does not depend on the limit ({}): with both a negative "
                           "position and a limit smaller than the number of pieces the wrong piece (or nothing) is returned, e.g. "
                           "{{{{#explode:a,b,c,d|,|-1|2}}}} must give `b,c,d`".format(", ".join(reads) or "a constant"), st.lineno))
    return rr


def run(ctx) -> list:
    return [rule_r1(ctx), rule_r2(ctx), rule_r3(ctx), rule_r4(ctx), rule_r5(ctx)]
