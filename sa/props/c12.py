"""C12 -- dump ingestion stores exactly the selected pages, unaltered.

R1  filter skeleton: the loop body of parse_dump_xml is interpreted under all 32
    valuations of (namespace selected, title ends with /documentation, title
    contains /testcases, page is a redirect, model in M); "stored" must be a
    function of the atoms and equal  selected & ~doc & ~testcases & model-in-M.
    The 8 valuations redirect & model-not-in-M are reported, not judged.
R2  no transformation on the way in: title/text/model/redirect/ns flow from the
    XML accessors to add_page unmodified; inside add_page the title is only
    ever extended by the namespace prefix, the body only reduced by
    _template_to_body for non-redirect templates, the model only defaulted.
R3  INSERT column/value alignment (shared with C10.R3).
R4  default templates: four entries, each added only when absent, under the
    key that was tested, then committed.
"""

from __future__ import annotations

import ast

from ..core.index import Unfoldable, unparse, walk_no_nested
from ..core.report import AnalysisError, Finding, RuleResult
from ..core.skeleton import Skeleton, valuations
from ..core.sqlfacts import SqlFacts
from . import c10

EXPLANATION = (
    "The ingestion filter is extracted as a decision skeleton and evaluated by the checker's own "
    "evaluator on all valuations of its five atoms against the statement of the property; def-use "
    "over parse_dump_xml and add_page shows which statements can rewrite title, body, model or "
    "redirect target between the XML accessor and the INSERT; the INSERT's columns are aligned with "
    "the bound tuple; the default-template helper is checked for guard-key agreement. Byte-exactness "
    "through lxml and SQLite is trusted."
)
ASSUMPTIONS = [
    "lxml's findtext/get return the element text / attribute unchanged",
    "the statement is silent on redirects whose content model is not wikitext/Scribunto/json; those 8 valuations are not judged",
]
DUMP = "src/wikitextprocessor/dumpparser.py"
CORE = "src/wikitextprocessor/core.py"
FN = "dumpparser.parse_dump_xml"
MODELS = {"wikitext", "Scribunto", "json"}


def _u(e: ast.AST) -> str:
    """source text with the suffix the canonicaliser gives to inlined helper locals removed"""
    return unparse(e).replace("__h", "")


def _atom(ctx, e: ast.AST):
    t = _u(e)
    if isinstance(e, ast.Compare) and len(e.ops) == 1:
        op, l, r = e.ops[0], e.left, e.comparators[0]
        if isinstance(op, (ast.In, ast.NotIn)) and _u(l) == "namespace_id" and _u(r) == "namespace_ids":
            return ("selected", isinstance(op, ast.NotIn))
        if isinstance(op, (ast.In, ast.NotIn)) and isinstance(l, ast.Constant) and _u(r) == "title":
            if l.value == "/testcases":
                return ("testcases", isinstance(op, ast.NotIn))
            raise AnalysisError("parse_dump_xml: unexpected substring test {!r} on title".format(l.value))
        if isinstance(op, (ast.In, ast.NotIn)) and _u(l) == "model":
            try:
                s = ctx.index.fold("dumpparser", r)
            except Unfoldable:
                raise AnalysisError("parse_dump_xml: content-model set is not a constant")
            if set(s) != MODELS:
                return ("model_ok#" + ",".join(sorted(map(str, s))), isinstance(op, ast.NotIn))
            return ("model_ok", isinstance(op, ast.NotIn))
        if isinstance(op, (ast.Is, ast.IsNot)) and isinstance(r, ast.Constant) and r.value is None and "redirect" in t:
            return ("redirect", isinstance(op, ast.Is))
    if isinstance(e, ast.Call) and isinstance(e.func, ast.Attribute) and _u(e.func.value) == "title":
        if e.func.attr == "endswith" and e.args and isinstance(e.args[0], ast.Constant):
            if e.args[0].value == "/documentation":
                return ("doc", False)
            raise AnalysisError("parse_dump_xml: unexpected suffix test {!r} on title".format(e.args[0].value))
        if e.func.attr in ("startswith", "find", "count") and e.args:
            raise AnalysisError("parse_dump_xml: unexpected title test " + t)
    return None


def _inline_predicates(ctx, stmts: list) -> list:
    """calls of module-level helper predicates of dumpparser (straight-line body: assignments to fresh locals, then one
    return) are replaced by the returned expression, so that a filter moved into `is_wanted(title)` is judged by what it tests"""
    import copy

    m = ctx.index.mod("dumpparser")

    def body_expr(f):
        stmts_ = [x for x in f.body if not (isinstance(x, ast.Expr) and isinstance(x.value, ast.Constant))]
        if not stmts_ or not isinstance(stmts_[-1], ast.Return) or stmts_[-1].value is None:
            return None
        env = {}
        for x in stmts_[:-1]:
            if isinstance(x, ast.Assign) and len(x.targets) == 1 and isinstance(x.targets[0], ast.Name):
                env[x.targets[0].id] = _subst(x.value, env)
            else:
                return None
        return _subst(stmts_[-1].value, env)

    def _subst(e, env):
        class T(ast.NodeTransformer):
            def visit_Name(self, n):
                if isinstance(n.ctx, ast.Load) and n.id in env:
                    return copy.deepcopy(env[n.id])
                return n
        return T().visit(copy.deepcopy(e))

    class R(ast.NodeTransformer):
        def visit_Call(self, n):
            self.generic_visit(n)
            if isinstance(n.func, ast.Name) and n.func.id in m.funcs and not n.keywords:
                f = m.funcs[n.func.id]
                params = [a.arg for a in f.args.args]
                if len(params) == len(n.args):
                    e = body_expr(f)
                    if e is not None:
                        return ast.copy_location(_subst(e, dict(zip(params, n.args))), n)
            return n

    out = [R().visit(copy.deepcopy(st)) for st in stmts]
    for st in out:
        ast.fix_missing_locations(st)
    return out


def rule_r1(ctx) -> RuleResult:
    rr = RuleResult("C12.R1", "stored <=> namespace selected & not /documentation & not /testcases & model in {wikitext,Scribunto,json}",
                    min_instances=24)
    fn = ctx.fn(FN)
    loops = [n for n in walk_no_nested(fn) if isinstance(n, ast.For) and "iterparse" in unparse(n.iter)]
    if len(loops) != 1:
        raise AnalysisError("parse_dump_xml: page loop not found")
    body = _inline_predicates(ctx, loops[0].body)
    sk = Skeleton(lambda e: _atom(ctx, e),
                  lambda c: "add_page" if isinstance(c.func, ast.Attribute) and c.func.attr == "add_page" else None)
    atoms = ["selected", "doc", "testcases", "redirect", "model_ok"]
    table = []
    for val in valuations(atoms):
        # a differently-spelled model set shows up as another atom name -> compare as sets first
        try:
            outs = sk.run(body, val)
        except AnalysisError as e:
            if "has no value" in str(e) and "model_ok#" in str(e):
                got = str(e).split("model_ok#")[1].split()[0]
                rr.bad(Finding("C12.R1", DUMP, FN, "model not in {{{}}}".format(got),
                               "the set of accepted content models differs from {wikitext, Scribunto, json}", fn.lineno))
                return rr
            raise
        stored = {("add_page" in ev) for _, _, ev in outs}
        label = " ".join("{}={}".format(a, int(val[a])) for a in atoms)
        if len(stored) != 1:
            rr.bad(Finding("C12.R1", DUMP, FN, "valuation " + label,
                           "whether the page is stored is not determined by the statement's criteria: an additional condition "
                           "({}) decides it".format("; ".join(sorted(sk.unknown_tests)) or "?"), loops[0].lineno))
            continue
        st = stored.pop()
        expect = val["selected"] and not val["doc"] and not val["testcases"] and val["model_ok"]
        if val["redirect"] and not val["model_ok"]:
            rr.informational.append({"valuation": label, "stored": st, "judged": False})
            continue
        table.append((label, st))
        if st == expect:
            rr.ok(FN, label, {"valuation": label, "stored": st})
        else:
            rr.bad(Finding("C12.R1", DUMP, FN, "valuation " + label,
                           "page is {} but the statement says it must be {}".format(
                               "stored" if st else "skipped", "stored" if expect else "skipped"), loops[0].lineno))
    rr.instances["valuations_judged"] = len(table)
    rr.instances["valuations_not_judged"] = len(rr.informational)
    return rr


ACCESSORS = {
    "title": ("findtext", "title"),
    "text": ("findtext", "text"),
    "model": ("findtext", "model"),
    "redirect_to": ("get", "title"),
    "namespace_id": ("findtext", "ns"),
}


def _is_accessor(name: str, e: ast.AST) -> bool:
    if isinstance(e, ast.Constant) and e.value is None and name in ("text", "redirect_to"):
        return True
    if name == "namespace_id" and isinstance(e, ast.Call) and isinstance(e.func, ast.Name) and e.func.id == "int" and e.args:
        e = e.args[0]
    if not (isinstance(e, ast.Call) and isinstance(e.func, ast.Attribute)):
        return False
    meth, tag = ACCESSORS[name]
    if e.func.attr != meth or not e.args or not isinstance(e.args[0], ast.Constant):
        return False
    path = str(e.args[0].value)
    return path.split("/")[-1].replace("{*}", "") == tag


def rule_r2(ctx) -> RuleResult:
    rr = RuleResult("C12.R2", "title, text, model, redirect target and namespace reach the INSERT untransformed", min_instances=12)
    fn = ctx.fn(FN)
    # (a) parse_dump_xml: every assignment to the five names is an XML accessor
    for n in walk_no_nested(fn):
        tgts = []
        if isinstance(n, ast.Assign):
            tgts = [(t, n.value) for t in n.targets]
        elif isinstance(n, ast.AnnAssign) and n.value is not None:
            tgts = [(n.target, n.value)]
        elif isinstance(n, ast.AugAssign):
            tgts = [(n.target, n.value)]
        for t, v in tgts:
            if isinstance(t, ast.Name) and t.id.replace("__h", "") in ACCESSORS:
                if not isinstance(n, ast.AugAssign) and _is_accessor(t.id.replace("__h", ""), v):
                    rr.ok(FN, "{} = {}".format(t.id, unparse(v)), {"name": t.id, "source": unparse(v)})
                else:
                    rr.bad(Finding("C12.R2", DUMP, FN, unparse(n),
                                   "`{}` is rewritten between the XML accessor and add_page; the page is stored under an altered "
                                   "title/text/model/redirect".format(t.id), n.lineno))
    calls = [n for n in walk_no_nested(fn) if isinstance(n, ast.Call) and isinstance(n.func, ast.Attribute) and n.func.attr == "add_page"]
    if len(calls) != 1:
        raise AnalysisError("parse_dump_xml: expected one add_page call, found {}".format(len(calls)))
    c = calls[0]
    passed = {}
    ap = ctx.fn("core.Wtp.add_page")
    params = [a.arg for a in ap.args.args[1:]]
    for i, a in enumerate(c.args):
        passed[params[i]] = a
    for k in c.keywords:
        passed[k.arg] = k.value
    want = {"title": "title", "namespace_id": "namespace_id", "body": "text", "redirect_to": "redirect_to", "model": "model"}
    for p, src in want.items():
        e = passed.get(p)
        if isinstance(e, ast.Name) and e.id == src:
            rr.ok(FN, "add_page({}={})".format(p, src))
        else:
            rr.bad(Finding("C12.R2", DUMP, FN, "add_page({}={})".format(p, unparse(e) if e is not None else "<missing>"),
                           "add_page's {} is not the untransformed `{}` read from the dump".format(p, src), c.lineno))
    # (b) add_page: which statements rewrite the stored fields
    for n in walk_no_nested(ap):
        if not isinstance(n, (ast.Assign, ast.AugAssign)):
            continue
        t = n.targets[0] if isinstance(n, ast.Assign) else n.target
        if not isinstance(t, ast.Name) or t.id not in ("title", "body", "model", "redirect_to", "namespace_id", "need_pre_expand"):
            continue
        v = n.value
        txt = unparse(n)
        if t.id == "title":
            if isinstance(n, ast.Assign) and isinstance(v, ast.BinOp) and isinstance(v.op, ast.Add) \
                    and isinstance(v.right, ast.Name) and v.right.id == "title" and isinstance(v.left, ast.Name):
                # prefix + title: injective for a given namespace; must be under namespace_id != 0
                if any(_implies_nonzero_ns(g.test) for g in _enclosing_ifs(ctx, "core", n)):
                    rr.ok("core.Wtp.add_page", txt, {"rewrite": txt, "kind": "namespace prefix added outside namespace 0"})
                else:
                    rr.bad(Finding("C12.R2", CORE, "core.Wtp.add_page", txt, "the namespace prefix is added without the `namespace_id != 0` guard", n.lineno))
            else:
                guard = _enclosing_if(ctx, "core", n)
                # `title = title.removeprefix(P)` is `if title.startswith(P): title = title[len(P):]`: one construct, one key
                if isinstance(v, ast.Call) and isinstance(v.func, ast.Attribute) and v.func.attr == "removeprefix" and unparse(v.func.value) == "title" \
                        and len(v.args) == 1 and isinstance(v.args[0], ast.Constant) and isinstance(v.args[0].value, str):
                    txt = "title = title[{}:]".format(len(v.args[0].value))
                    guard = ast.If(test=ast.parse("title.startswith({!r})".format(v.args[0].value), mode="eval").body, body=[], orelse=[])
                rr.bad(Finding("C12.R2", CORE, "core.Wtp.add_page", txt,
                               "the stored title is shortened/rewritten{}; two different dump titles can be stored under one key "
                               "(one page lost, the other overwritten)".format(
                                   " under `{}`".format(unparse(guard.test)) if guard is not None else ""), n.lineno))
        elif t.id == "body":
            guard = _enclosing_if(ctx, "core", n)
            g = unparse(guard.test) if guard is not None else ""
            if isinstance(v, ast.Call) and unparse(v.func).endswith("._template_to_body") and "Template" in g and "redirect_to is None" in g:
                rr.ok("core.Wtp.add_page", txt, {"rewrite": txt, "kind": "includable part of non-redirect templates"})
            else:
                rr.bad(Finding("C12.R2", CORE, "core.Wtp.add_page", txt, "the stored body is altered outside the template/non-redirect case", n.lineno))
        elif t.id == "model":
            guard = _enclosing_if(ctx, "core", n)
            if guard is not None and unparse(guard.test) == "model is None" and isinstance(v, ast.Constant):
                rr.ok("core.Wtp.add_page", txt)
            else:
                rr.bad(Finding("C12.R2", CORE, "core.Wtp.add_page", txt, "the stored model is rewritten", n.lineno))
        else:
            rr.bad(Finding("C12.R2", CORE, "core.Wtp.add_page", txt, "`{}` is rewritten before the INSERT".format(t.id), n.lineno))
    return rr


def _enclosing_ifs(ctx, modname, node) -> list:
    """the `if` statements in whose body (not else) the node sits, innermost first"""
    parents = ctx.index.mod(modname).parents
    out = []
    n = node
    while n in parents:
        p = parents[n]
        if isinstance(p, ast.If) and n in p.body:
            out.append(p)
        if isinstance(p, (ast.FunctionDef, ast.AsyncFunctionDef)):
            break
        n = p
    return out


def _implies_nonzero_ns(test) -> bool:
    """`namespace_id != 0`, `namespace_id` (truthy), `namespace_id > 0`, or a conjunction containing one of them"""
    if isinstance(test, ast.BoolOp) and isinstance(test.op, ast.And):
        return any(_implies_nonzero_ns(v) for v in test.values)
    if isinstance(test, ast.Name) and test.id == "namespace_id":
        return True
    if isinstance(test, ast.Compare) and len(test.ops) == 1 and unparse(test.left) == "namespace_id" \
            and isinstance(test.comparators[0], ast.Constant) and test.comparators[0].value == 0 and isinstance(test.ops[0], (ast.NotEq, ast.Gt)):
        return True
    return False


def _enclosing_if(ctx, modname, node):
    parents = ctx.index.mod(modname).parents
    n = node
    while n in parents:
        p = parents[n]
        if isinstance(p, ast.If) and n in p.body:
            return p
        if isinstance(p, (ast.FunctionDef, ast.AsyncFunctionDef)):
            return None
        n = p
    return None


def rule_r3(ctx, sf) -> RuleResult:
    r = c10.rule_r3(ctx, sf)
    rr = RuleResult("C12.R3", "INSERT columns align with the bound values (shared with C10.R3)", min_instances=6)
    for f in r.findings:
        if f.function == "core.Wtp.add_page":
            rr.bad(Finding("C12.R3", f.file, f.function, f.construct, f.message, f.line))
    keep = {c for c in r.cases if c[0] == "core.Wtp.add_page"}
    rr.cases = keep
    rr.obligations = len(keep)
    rr.discharged = len(keep) - len(rr.findings)
    rr.samples = [s for s in r.samples if "column" in s]
    return rr


def rule_r4(ctx) -> RuleResult:
    rr = RuleResult("C12.R4", "four default templates, each added only when absent under the tested key, then committed", min_instances=4)
    fnname = "dumpparser.add_default_templates"
    fn = ctx.fn(fnname)
    dicts = [n for n in walk_no_nested(fn) if isinstance(n, ast.Dict)]
    if not dicts:
        raise AnalysisError("add_default_templates: table of default templates vanished")
    d = max(dicts, key=lambda x: len(x.keys))
    if len(d.keys) == 4:
        rr.ok(fnname, "4 default templates", {"titles": [unparse(k) for k in d.keys]})
    else:
        rr.bad(Finding("C12.R4", DUMP, fnname, "default_templates with {} entries".format(len(d.keys)),
                       "the statement names four default helper templates", d.lineno))
    adds = [n for n in walk_no_nested(fn) if isinstance(n, ast.Call) and isinstance(n.func, ast.Attribute) and n.func.attr == "add_page"]
    if len(adds) != 1:
        raise AnalysisError("add_default_templates: expected one add_page call")
    a = adds[0]
    # the add is reached only when page_exists(<the key written>) was false: `if not page_exists(k): add` or
    # `if page_exists(k): continue` before it
    from . import _expand as X
    conds = X.path_conditions(ctx.index.mod("dumpparser").parents, _stmt_of(ctx, "dumpparser", a))
    probes = [(t, truth) for t, truth in conds if isinstance(t, ast.Call) and unparse(t.func).endswith(".page_exists")]
    wk = [unparse(x) for x in a.args[:2]]
    if any(truth is False and [unparse(x) for x in t.args[:2]] == wk for t, truth in probes):
        rr.ok(fnname, "add_page({}) only when page_exists of the same key is false".format(", ".join(wk)))
    elif any(truth is False for t, truth in probes):
        gk = [[unparse(x) for x in t.args[:2]] for t, truth in probes if truth is False][0]
        rr.bad(Finding("C12.R4", DUMP, fnname, unparse(a)[:80], "absence test key {} differs from the key written {}".format(gk, wk), a.lineno))
    else:
        rr.bad(Finding("C12.R4", DUMP, fnname, unparse(a)[:80],
                       "the default template is not added under a plain `not page_exists(title, ns)` test: an existing page "
                       "(for instance a redirect from the dump) can be overwritten", a.lineno))
    commits = [n for n in fn.body if isinstance(n, ast.Expr) and isinstance(n.value, ast.Call) and unparse(n.value.func).endswith("db_conn.commit")]
    if commits and commits[-1].lineno > a.lineno:
        rr.ok(fnname, "commit after the loop")
    else:
        rr.bad(Finding("C12.R4", DUMP, fnname, "wtp.db_conn.commit()", "default templates are not committed", fn.lineno))
    # process_dump calls it unconditionally
    pd = ctx.fn("dumpparser.process_dump")
    if any(isinstance(s, ast.Expr) and isinstance(s.value, ast.Call) and unparse(s.value.func) == "add_default_templates" for s in pd.body):
        rr.ok("dumpparser.process_dump", "add_default_templates(wtp) is unconditional")
    else:
        rr.bad(Finding("C12.R4", DUMP, "dumpparser.process_dump", "add_default_templates(wtp)", "default templates are not added on every path", pd.lineno))
    return rr


def _stmt_of(ctx, modname, node):
    parents = ctx.index.mod(modname).parents
    n = node
    while n in parents and not isinstance(n, ast.stmt):
        n = parents[n]
    return n


def _share_page_exists(ctx, sf, rr: RuleResult) -> None:
    """'plus the four default helper templates when absent': absence is decided by page_exists, which
    must mean 'no row under this title' (= get_page(...) is not None, checked by C10.R4) -- not
    'the redirect target is missing'."""
    r = c10.rule_r4(ctx, sf)
    for f in r.findings:
        if f.function == "core.Wtp.page_exists":
            rr.bad(Finding("C12.R4", f.file, f.function, f.construct,
                           f.message + "; a helper title that the dump defines as a redirect is overwritten by the built-in default", f.line))
    if not any(f.function == "core.Wtp.page_exists" for f in r.findings):
        rr.ok("core.Wtp.page_exists", "existence = a row under the tested key")


def rule_r5(ctx, sf) -> RuleResult:
    """A title that occurs again in the dump (or is re-added by a post-processing step) ends up
    with *all* columns of its latest copy: text, model and redirect target (shared with C10.R2)."""
    r = c10.rule_r2(ctx, sf)
    rr = RuleResult("C12.R5", "a re-added title is replaced in every column, unconditionally (shared with C10.R2)", min_instances=4)
    for f in r.findings:
        rr.bad(Finding("C12.R5", f.file, f.function, f.construct,
                       f.message + "; a page ingested twice keeps a stale model/redirect target/text", f.line))
    rr.cases = set(r.cases)
    rr.obligations = r.obligations
    rr.discharged = r.discharged
    rr.samples = list(r.samples)
    return rr


def rule_r6(ctx) -> RuleResult:
    """'templates reduced to their includable part': the reduction is the one checked by C04.R2
    (step order, flags, no shortcut before the steps)."""
    from . import c04

    r = c04.rule_r2(ctx)
    rr = RuleResult("C12.R6", "stored templates are reduced by the complete includable-part pipeline (shared with C04.R2)", min_instances=7)
    for f in r.findings:
        rr.bad(Finding("C12.R6", f.file, f.function, f.construct, f.message + "; such templates are stored with their full text", f.line))
    rr.cases = set(r.cases)
    rr.obligations = r.obligations
    rr.discharged = r.discharged
    rr.samples = list(r.samples)
    return rr


def rule_r7(ctx) -> RuleResult:
    """'No page is lost': parse_dump_xml() and add_page() do not commit, so until the first
    unconditional commit on process_dump's path every ingested page lives in the open transaction.
    No call made in between may open a scope that can roll that transaction back (`with <conn>:`
    rolls back on an exception, `.rollback()` explicitly) -- a failure handled there would silently
    discard the whole dump."""
    from ..core.callgraph import CallGraph

    rr = RuleResult("C12.R7", "nothing between ingestion and the first commit can roll back the open transaction", min_instances=2)
    cg = CallGraph(ctx.index)
    pd = ctx.fn("dumpparser.process_dump")

    def rollback_scope(dotted):
        if not ctx.index.has_func(dotted):
            return None
        for n in walk_no_nested(ctx.index.func(dotted)):
            if isinstance(n, ast.With) and any("db_conn" in unparse(it.context_expr) and not isinstance(it.context_expr, ast.Call) for it in n.items):
                return n
            if isinstance(n, ast.Call) and unparse(n.func).endswith(".rollback"):
                return n
        return None

    def commits_unconditionally(dotted):
        if not ctx.index.has_func(dotted):
            return False
        return any(isinstance(st, ast.Expr) and isinstance(st.value, ast.Call) and unparse(st.value.func).endswith("db_conn.commit")
                   for st in ctx.index.func(dotted).body)

    # ordered calls of process_dump after parse_dump_xml
    calls = sorted([c for c in walk_no_nested(pd) if isinstance(c, ast.Call) and isinstance(c.func, ast.Name)], key=lambda c: (c.lineno, c.col_offset))
    names = [c.func.id for c in calls]
    if "parse_dump_xml" not in names:
        raise AnalysisError("process_dump: call of parse_dump_xml vanished")
    dirty = False
    committed = False
    for c in calls:
        callee = cg._resolve_name("dumpparser", "process_dump", c.func.id)
        if c.func.id == "parse_dump_xml":
            dirty = True
            continue
        if not dirty or callee is None:
            continue
        offenders = []
        for f in sorted({callee} | cg.closure([callee])):
            n = rollback_scope(f)
            if n is not None:
                offenders.append((f, n))
        if offenders:
            f, n = offenders[0]
            rr.bad(Finding("C12.R7", ctx.index.mod(f.split(".")[0]).relpath, f, unparse(n).split("\n")[0][:70],
                           "{}() runs while the ingested pages are still uncommitted and reaches a scope that rolls the open transaction back "
                           "on failure: an error handled there discards every page read from the dump".format(c.func.id), n.lineno))
        else:
            rr.ok("dumpparser.process_dump", "{}() cannot roll back the pending pages".format(c.func.id), {"call": c.func.id})
        if commits_unconditionally(callee):
            committed = True
            rr.ok("dumpparser.process_dump", "{}() commits unconditionally".format(c.func.id), {"commit_in": c.func.id})
            break
    if not committed:
        rr.bad(Finding("C12.R7", DUMP, "dumpparser.process_dump", "no unconditional commit after parse_dump_xml",
                       "the ingested pages are never committed on process_dump's own path", pd.lineno))
    return rr


def rule_r8(ctx) -> RuleResult:
    """'each under its own title ... regardless of other contexts created earlier in the process':
    the ingestion path keeps no state in objects shared between contexts (shared with C09.R2)."""
    from ..core.report import shared
    from . import c09

    return shared(c09.rule_r2(ctx), "C12.R8", "ingestion keeps no state in module- or class-level objects (shared with C09.R2)",
                  "a second language edition ingested in the same process is stored under the first edition's namespace prefixes",
                  min_instances=15)

def run(ctx) -> list:
    sf = SqlFacts(ctx.index)
    r4 = rule_r4(ctx)
    _share_page_exists(ctx, sf, r4)
    return [rule_r1(ctx), rule_r2(ctx), rule_r3(ctx, sf), r4, rule_r5(ctx, sf), rule_r6(ctx), rule_r7(ctx), rule_r8(ctx)]
