"""C17 -- template analysis marks the closure and terminates.

R1  every push onto the analysis work list is dominated by the marking write of
    the pushed page; inside the work-list loop it is also dominated by a fresh
    get_page read of that page and by the `need_pre_expand -> skip` test.  Hence
    each template is pushed at most once and the loop terminates on cycles.
R2  propagation direction: included_map is keyed by the *used* template name as
    the classifier reports it (untransformed), its values are the including
    pages; the loop probes it with the popped page's own name and visits the
    values through get_page in the template namespace.
R3  redirect propagation in both directions, then commit.
R4  the marking writes invalidate the get_page memo (shared with C10.R1).
"""

from __future__ import annotations

import ast

from ..core.flow import Flow
from ..core.index import unparse, walk_no_nested
from ..core.report import AnalysisError, Finding, RuleResult
from ..core.sqlfacts import SqlFacts
from . import _expand as X
from . import c10

EXPLANATION = (
    "Dominance facts on the work-list algorithm of analyze_templates, decided by a flow walk "
    "whose state is the set of (variable, fact) pairs established on the path: marked by "
    "set_template_pre_expand, read through get_page in this iteration, tested not-yet-marked. "
    "Plus def-use on the inclusion map (who is key, who is value, what is probed) and the two "
    "redirect UPDATE statements recovered from SQL text. Decides termination on every inclusion "
    "graph and the propagation plumbing; exactness of the marked set is runtime graph data."
)
ASSUMPTIONS = [
    "get_all_pages yields each stored template once",
    "the classifier callback does not write the database",
    "SQLite executes the recovered UPDATE ... FROM statements as written",
]
CORE = "src/wikitextprocessor/core.py"
FN = "core.Wtp.analyze_templates"
WORK = "expand_stack"  # the local work list of analyze_templates


class Facts(Flow):
    """state = frozenset of (var, fact); fact in marked / read / tested"""

    def __init__(self):
        self.pushes = []  # (node, var, state, in_worklist_loop)
        self.loop_depth = 0

    def _kill(self, state, var):
        return frozenset(x for x in state if x[0] != var)

    def transfer(self, st, state):
        s = state
        for n in ast.walk(st):
            if isinstance(n, ast.Call):
                f = n.func
                if isinstance(f, ast.Attribute) and f.attr == "set_template_pre_expand" and n.args:
                    a = n.args[0]
                    if isinstance(a, ast.Attribute) and a.attr == "title" and isinstance(a.value, ast.Name):
                        s = s | {(a.value.id, "marked")}
                if isinstance(f, ast.Attribute) and f.attr == "append" and isinstance(f.value, ast.Name) \
                        and f.value.id == WORK and n.args and isinstance(n.args[0], ast.Name):
                    self.pushes.append((n, n.args[0].id, s, self.loop_depth > 0))
        if isinstance(st, ast.Assign) and len(st.targets) == 1 and isinstance(st.targets[0], ast.Name):
            v = st.targets[0].id
            s = self._kill(s, v)
            if isinstance(st.value, ast.Call) and unparse(st.value.func).endswith(".get_page"):
                s = s | {(v, "read")}
        return [s]

    def for_target(self, node, state):
        s = state
        for n in ast.walk(node.target):
            if isinstance(n, ast.Name):
                s = self._kill(s, n.id)
        return [s]

    @classmethod
    def _unmarked_when(cls, test, polarity: bool) -> set:
        """variables X for which `X.need_pre_expand` is known to be false when `test` evaluates to `polarity`"""
        if isinstance(test, ast.Attribute) and test.attr == "need_pre_expand" and isinstance(test.value, ast.Name):
            return set() if polarity else {test.value.id}
        if isinstance(test, ast.UnaryOp) and isinstance(test.op, ast.Not):
            return cls._unmarked_when(test.operand, not polarity)
        if isinstance(test, ast.BoolOp):
            conj = isinstance(test.op, ast.And)
            if conj == polarity:  # all conjuncts hold / all disjuncts fail
                out = set()
                for v in test.values:
                    out |= cls._unmarked_when(v, polarity)
                return out
            return set()
        if isinstance(test, ast.Compare) and len(test.ops) == 1 and isinstance(test.comparators[0], ast.Constant):
            l, op, c = test.left, test.ops[0], test.comparators[0].value
            if isinstance(l, ast.Attribute) and l.attr == "need_pre_expand" and isinstance(l.value, ast.Name):
                falsy_const = c in (0, False)
                if isinstance(op, (ast.Eq, ast.Is)):
                    return {l.value.id} if (polarity == falsy_const) and falsy_const else (set() if polarity else ({l.value.id} if not falsy_const else set()))
                if isinstance(op, (ast.NotEq, ast.IsNot)):
                    return {l.value.id} if (not polarity and falsy_const) or (polarity and not falsy_const and c in (1, True)) else set()
        return set()

    def branch(self, test, state):
        t = state | {(v, "tested") for v in self._unmarked_when(test, True)}
        f = state | {(v, "tested") for v in self._unmarked_when(test, False)}
        return [t], [f]

    def run_stmt(self, st, states):
        if isinstance(st, ast.While) and WORK in unparse(st.test):
            self.loop_depth += 1
            try:
                return super().run_stmt(st, states)
            finally:
                self.loop_depth -= 1
        return super().run_stmt(st, states)


def rule_r1(ctx) -> RuleResult:
    rr = RuleResult("C17.R1", "pushes onto the work list are dominated by marking (and fresh read + skip test in the loop)",
                    min_instances=4)
    fn = ctx.fn(FN)
    w = Facts()
    w.run_function(fn, [frozenset()])
    if len({id(p[0]) for p in w.pushes}) < 2:
        raise AnalysisError("analyze_templates: fewer than 2 work-list pushes found (2 confirmed by hand)")
    by_node: dict = {}
    for node, var, st, inloop in w.pushes:
        by_node.setdefault(node, []).append((var, st, inloop))
    for node, lst in by_node.items():
        var, _, inloop = lst[0]
        need = ["marked"] + (["read", "tested"] if inloop else [])
        for fact in need:
            ok = all((var, fact) in st for _, st, _ in lst)
            label = "{} requires {}({})".format(unparse(node), fact, var)
            if ok:
                rr.ok(FN, label, {"push": unparse(node), "fact": fact, "in_worklist_loop": inloop})
            else:
                why = {
                    "marked": "the page is pushed without having been marked first; a cycle re-pushes it forever or it is never marked",
                    "read": "the pushed page object does not come from a get_page read in this iteration",
                    "tested": "the push is reachable without the `need_pre_expand -> skip` test; on a cyclic inclusion graph the loop does not terminate",
                }[fact]
                rr.bad(Finding("C17.R1", CORE, FN, label, why, node.lineno))
    # the work-list loop pops exactly one element per iteration
    loops = [n for n in walk_no_nested(fn) if isinstance(n, ast.While) and WORK in unparse(n.test)]
    if len(loops) != 1:
        raise AnalysisError("analyze_templates: work-list loop not found")
    lp = loops[0]
    first = lp.body[0] if lp.body else None
    if isinstance(first, ast.Assign) and unparse(first.value) == WORK + ".pop()":
        rr.ok(FN, "page = expand_stack.pop() first in loop body")
    else:
        rr.bad(Finding("C17.R1", CORE, FN, "while {}: first statement".format(unparse(lp.test)),
                       "the loop does not start by popping the work list", lp.lineno))
    return rr


def _resolve(fn, name, before_line):
    """latest simple assignment `name = expr` before a line (straight-line def-use)"""
    best = None
    for n in walk_no_nested(fn):
        if isinstance(n, ast.Assign) and len(n.targets) == 1 and isinstance(n.targets[0], ast.Name) \
                and n.targets[0].id == name and n.lineno < before_line:
            if best is None or n.lineno > best.lineno:
                best = n
    return best.value if best is not None else None


def _ancestors(parents, test, stmt):
    """the loop filter for path conditions: ancestors of the statement the condition was taken from (conditions collected
    outside the classifier's loop are about the whole loop, not about the flag)"""
    n = test
    while n in parents:
        n = parents[n]
        yield n


def rule_r2(ctx) -> RuleResult:
    rr = RuleResult("C17.R2", "inclusion map: used name -> including pages; probed with the popped page's own name",
                    min_instances=5)
    fn = ctx.fn(FN)
    # writer side: included_map[K].add(V)
    adds = [n for n in walk_no_nested(fn) if isinstance(n, ast.Call) and isinstance(n.func, ast.Attribute)
            and n.func.attr == "add" and isinstance(n.func.value, ast.Subscript)
            and unparse(n.func.value.value) == "included_map"]
    if len(adds) != 1:
        raise AnalysisError("analyze_templates: expected one included_map[...].add(...), found {}".format(len(adds)))
    a = adds[0]
    key, val = a.func.value.slice, a.args[0]
    # K must be the loop variable iterating the classifier's used set, untransformed
    fors = [n for n in walk_no_nested(fn) if isinstance(n, ast.For)]
    call_assign = None
    for n in walk_no_nested(fn):
        if isinstance(n, ast.Assign) and isinstance(n.value, ast.Call) and unparse(n.value.func) == "check_template_func":
            call_assign = n
    if call_assign is None or not isinstance(call_assign.targets[0], ast.Tuple):
        raise AnalysisError("analyze_templates: classifier call shape changed")
    used_name = unparse(call_assign.targets[0].elts[0])
    flag_name = unparse(call_assign.targets[0].elts[1])
    loopvar = None
    for f in fors:
        if unparse(f.iter) == used_name and isinstance(f.target, ast.Name):
            loopvar = f.target.id
    if isinstance(key, ast.Name) and key.id == loopvar:
        rr.ok(FN, "key {} iterates {}".format(key.id, used_name), {"map_key": key.id, "from": used_name})
    else:
        rr.bad(Finding("C17.R2", CORE, FN, "included_map[{}]".format(unparse(key)),
                       "the map key is not the classifier's used-template name as reported (it is transformed or is another value)",
                       a.lineno))
    if unparse(val) == "page.title":
        rr.ok(FN, "value page.title (the including page)")
    else:
        rr.bad(Finding("C17.R2", CORE, FN, "included_map[...].add({})".format(unparse(val)),
                       "the map value is not the including page's title", a.lineno))
    # the classifier's flag drives the initial marking
    # (path conditions of the marking call inside the classifier's loop: exactly "the flag is true")
    cls_loops = [f for f in fors if any(x is call_assign for x in ast.walk(f))]
    if not cls_loops:
        raise AnalysisError("analyze_templates: the classifier is no longer called in a loop")
    cls_loop = cls_loops[-1]
    marks = [n for n in ast.walk(cls_loop) if isinstance(n, ast.Call) and unparse(n.func).endswith("set_template_pre_expand")
             and n.args and unparse(n.args[0]) == "page.title"]
    if not marks:
        raise AnalysisError("analyze_templates: no set_template_pre_expand(page.title) in the classifier's loop -- initial marking not recognised")
    parents = {c: p_ for p_ in ast.walk(fn) for c in ast.iter_child_nodes(p_)}
    for mk in marks:
        st = mk
        while st in parents and not isinstance(st, ast.stmt):
            st = parents[st]
        conds = [(unparse(t), truth) for t, truth in X.path_conditions(parents, st)
                 if any(x is cls_loop for x in _ancestors(parents, t, st))]
        if conds == [(flag_name, True)]:
            rr.ok(FN, "if {}: mark page".format(flag_name))
        elif any(t == flag_name and not truth for t, truth in conds):
            rr.bad(Finding("C17.R2", CORE, FN, "if {}: set_template_pre_expand(page.title)".format(flag_name),
                           "the classified page is marked when the classifier's flag is false", mk.lineno))
        elif not any(t == flag_name for t, truth in conds):
            rr.bad(Finding("C17.R2", CORE, FN, "if {}: set_template_pre_expand(page.title)".format(flag_name),
                           "the classifier's flag no longer marks the classified page (marking does not depend on it)", mk.lineno))
        else:
            rr.bad(Finding("C17.R2", CORE, FN, "if {}: set_template_pre_expand(page.title)".format(flag_name),
                           "the classifier's flag marks the classified page only under a further condition: {}".format(
                               " and ".join(("" if tr else "not ") + t for t, tr in conds if t != flag_name)), mk.lineno))
    # reader side
    loops = [n for n in walk_no_nested(fn) if isinstance(n, ast.While) and WORK in unparse(n.test)]
    lp = loops[0]
    probes = [n for n in ast.walk(lp) if isinstance(n, ast.Subscript) and unparse(n.value) == "included_map"]
    # `.get(key, default)` probes count as well; give them the .slice of a subscript
    for n in ast.walk(lp):
        if isinstance(n, ast.Call) and isinstance(n.func, ast.Attribute) and n.func.attr in ("get", "pop", "setdefault") \
                and unparse(n.func.value) == "included_map" and n.args:
            n.slice = n.args[0]
            probes.append(n)
    tests = [n for n in ast.walk(lp) if isinstance(n, ast.Compare) and any(unparse(c) == "included_map" for c in n.comparators)]
    if not probes:
        raise AnalysisError("analyze_templates: included_map probe vanished")
    for pr in probes:
        k = pr.slice
        e = _resolve(fn, k.id, pr.lineno) if isinstance(k, ast.Name) else k
        # expected: page.title.removeprefix(<template ns local name> + ':')
        good = (
            isinstance(e, ast.Call) and isinstance(e.func, ast.Attribute) and e.func.attr == "removeprefix"
            and unparse(e.func.value) == "page.title" and len(e.args) == 1
        )
        if good:
            arg = e.args[0]
            good = isinstance(arg, ast.BinOp) and isinstance(arg.op, ast.Add) and isinstance(arg.right, ast.Constant) \
                and arg.right.value == ":"
        if good:
            rr.ok(FN, "probe key = page.title without the namespace prefix", {"probe": unparse(e)})
        else:
            rr.bad(Finding("C17.R2", CORE, FN, "included_map[{}]".format(unparse(k)),
                           "the map is not probed with the popped page's own name (title minus namespace prefix): {}".format(
                               unparse(e) if e is not None else "?"), pr.lineno))
    for t in tests:
        k = t.left
        if isinstance(k, ast.Name) and probes and isinstance(probes[0].slice, ast.Name) and k.id == probes[0].slice.id:
            rr.ok(FN, "membership test uses the probe key")
    # values visited through get_page(<value>, template_ns_id)
    inner = [n for n in ast.walk(lp) if isinstance(n, ast.For) and not isinstance(n.iter, ast.Name)
             and any(isinstance(x, ast.Name) and x.id == "included_map" for x in ast.walk(n.iter))]
    if not inner:
        # the includers may be collected into a name first
        for n in ast.walk(lp):
            if isinstance(n, ast.For) and isinstance(n.iter, ast.Name):
                e = _resolve(fn, n.iter.id, n.lineno)
                if e is not None and "included_map" in unparse(e):
                    inner.append(n)
    if len(inner) != 1:
        raise AnalysisError("analyze_templates: loop over included_map[...] vanished")
    iv = unparse(inner[0].target)
    reads = [n for n in ast.walk(inner[0]) if isinstance(n, ast.Call) and unparse(n.func).endswith(".get_page")]
    if reads and all(len(r.args) >= 2 and unparse(r.args[0]) == iv and unparse(r.args[1]) == "template_ns_id" for r in reads):
        rr.ok(FN, "includers are read with get_page({}, template_ns_id)".format(iv))
    else:
        rr.bad(Finding("C17.R2", CORE, FN, "get_page({}, template_ns_id)".format(iv),
                       "includers are not looked up by their stored title in the template namespace", inner[0].lineno))
    return rr


def rule_r3(ctx, sf: SqlFacts) -> RuleResult:
    rr = RuleResult("C17.R3", "redirect propagation in both directions, then commit", min_instances=3)
    ups = [s for s in sf.in_function(FN) if s.kind == "UPDATE" and s.table == "pages"]
    norm = lambda t: t.replace(" ", "").lower()  # noqa: E731
    want = {
        "source->dest marked": ("pages.redirect_to=dest.title", "dest.need_pre_expand=1", "pagesasdest"),
        "dest<-source marked": ("pages.title=source.redirect_to", "source.need_pre_expand=1", "pagesassource"),
    }
    for label, (join, cond, alias) in want.items():
        hit = None
        for s in ups:
            t = norm(s.text)
            if join in t and cond in t and alias in t and "setneed_pre_expand=1" in t:
                hit = s
        if hit is None:
            rr.bad(Finding("C17.R3", CORE, FN, "UPDATE pages ... " + join,
                           "redirect propagation ({}) is missing or altered".format(label), ctx.fn(FN).lineno))
        else:
            t = norm(hit.text)
            ns_ok = ("pages.namespace_id=dest.namespace_id" in t) or ("pages.namespace_id=source.namespace_id" in t)
            # every further conjunct narrows the set of redirects that get marked; the only one that does not change the result is
            # "not marked yet"
            import re as _re
            where = hit.where or ""
            extra = []
            for cj in _re.split(r"(?i)\band\b", where):
                c = norm(cj).strip("()")
                if not c:
                    continue
                if _re.fullmatch(r"[\w.]+=[\w.]+", c) and "=".join(reversed(c.split("="))) in (join, cond, "pages.need_pre_expand=0"):
                    continue
                if c in (join, cond, "pages.namespace_id=dest.namespace_id", "pages.namespace_id=source.namespace_id",
                         "dest.namespace_id=pages.namespace_id", "source.namespace_id=pages.namespace_id",
                         "=".join(reversed(join.split("="))), "pages.need_pre_expand=0", "pages.need_pre_expand!=1", "pages.need_pre_expand<>1",
                         "pages.need_pre_expandisnot1", "notpages.need_pre_expand", "pages.need_pre_expandisnull" ):
                    continue
                extra.append(cj.strip())
            if not where:
                raise AnalysisError("analyze_templates: WHERE clause of the redirect propagation not recognised")
            if extra:
                rr.bad(Finding("C17.R3", CORE, FN, "UPDATE pages ... AND " + " AND ".join(extra)[:80],
                               "the redirect propagation ({}) carries a further filter `{}`: redirects from or to a marked template that do not "
                               "satisfy it stay unmarked".format(label, " AND ".join(extra)[:80]), hit.call.lineno))
            elif ns_ok:
                rr.ok(FN, label, {"sql": hit.text[:140]})
            else:
                rr.bad(Finding("C17.R3", CORE, FN, "UPDATE pages ... " + join,
                               "redirect propagation does not restrict to the same namespace", hit.call.lineno))
    fn = ctx.fn(FN)
    last_exec = max((s.call.lineno for s in ups), default=0)
    commits = [n for n in walk_no_nested(fn) if isinstance(n, ast.Call) and unparse(n.func).endswith("db_conn.commit")]
    if any(c.lineno > last_exec for c in commits) and any(isinstance(s, ast.Expr) and s.value in commits for s in fn.body):
        rr.ok(FN, "commit after the redirect updates")
    else:
        rr.bad(Finding("C17.R3", CORE, FN, "self.db_conn.commit()", "the marking is not committed after the redirect updates", fn.lineno))
    return rr


def rule_r4(ctx, sf: SqlFacts) -> RuleResult:
    r = c10.rule_r1(ctx, sf)
    rr = RuleResult("C17.R4", "marking writes invalidate the get_page memo (so every read in the loop is fresh)", min_instances=2)
    for f in r.findings:
        if f.function in (FN, "core.Wtp.set_template_pre_expand"):
            rr.bad(Finding("C17.R4", f.file, f.function, f.construct, f.message, f.line, f.detail))
    rr.obligations += sum(1 for c in r.cases if c[0] in (FN, "core.Wtp.set_template_pre_expand"))
    rr.discharged = rr.obligations - len(rr.findings)
    rr.cases = {c for c in r.cases if c[0] in (FN, "core.Wtp.set_template_pre_expand")}
    rr.samples = [s for s in r.samples if s.get("writer") in (FN, "core.Wtp.set_template_pre_expand")]
    return rr


def rule_r5(ctx, sf: SqlFacts) -> RuleResult:
    """'every template the classifier flags' is marked, whatever kind of page it is: the marking
    statement selects its row by key columns only.  A filter on redirect_to / model / need_pre_expand
    leaves a flagged redirect unmarked, and the redirect propagation (R3) then has nothing to carry."""
    rr = RuleResult("C17.R5", "the marking UPDATE selects by key columns only", min_instances=1)
    ups = [s_ for s_ in sf.in_function("core.Wtp.set_template_pre_expand") if s_.kind == "UPDATE" and s_.table == "pages"]
    if not ups:
        raise AnalysisError("set_template_pre_expand: UPDATE pages vanished")
    key_cols = {"title", "namespace_id"}
    all_cols = {"title", "namespace_id", "redirect_to", "need_pre_expand", "body", "model"}
    for u in ups:
        import re as _re

        mentioned = {w for w in _re.findall(r"[A-Za-z_]+", u.where or "") if w in all_cols}
        sets = {c for c, _ in u.set_pairs}
        if mentioned - key_cols:
            rr.bad(Finding("C17.R5", CORE, "core.Wtp.set_template_pre_expand", "WHERE " + (u.where or "")[:80],
                           "the marking statement filters on {}: a flagged page of that kind (e.g. a redirect) is never marked, and "
                           "neither is the page it redirects to".format(", ".join(sorted(mentioned - key_cols))), u.call.lineno))
        elif "title" not in mentioned:
            rr.bad(Finding("C17.R5", CORE, "core.Wtp.set_template_pre_expand", "WHERE " + (u.where or "")[:80],
                           "the marking statement does not select by title", u.call.lineno))
        else:
            rr.ok("core.Wtp.set_template_pre_expand", "UPDATE pages SET {} WHERE {}".format(",".join(sorted(sets)), u.where), {"where": u.where})
    # the page that is marked is the page the caller named: the title bound into the statement is the parameter itself (not the
    # title of a page found by a lookup -- resolving a redirect first marks the target *instead of* the flagged page and, since
    # the target then already carries the flag, the work list never visits it), and nothing returns before the statement runs
    fn = ctx.fn("core.Wtp.set_template_pre_expand")
    params = [a.arg for a in fn.args.args if a.arg != "self"]
    for u in ups:
        b = u.bound
        elts = b.elts if isinstance(b, (ast.Tuple, ast.List)) else []
        if not elts:
            raise AnalysisError("set_template_pre_expand: the values bound into the UPDATE were not recognised")
        first = elts[0]
        if isinstance(first, ast.Name) and first.id in params:
            rr.ok("core.Wtp.set_template_pre_expand", "the bound title is the parameter `{}`".format(first.id))
        elif any(isinstance(x, ast.Name) and x.id in params for x in ast.walk(first)) and not any(isinstance(x, ast.Call) for x in ast.walk(first)):
            rr.ok("core.Wtp.set_template_pre_expand", "the bound title is derived from the parameter without a lookup")
        else:
            rr.bad(Finding("C17.R5", CORE, "core.Wtp.set_template_pre_expand", "title = {}".format(unparse(first)[:50]),
                           "the page that gets marked is not the page named by the caller but `{}`: a flagged redirect stays unmarked, and its "
                           "target is marked without ever entering the work list, so the pages that include the target are never reached".format(
                               unparse(first)[:50]), u.call.lineno))
        early = [r for r in walk_no_nested(fn) if isinstance(r, ast.Return) and r.lineno < u.call.lineno]
        for r in early:
            rr.bad(Finding("C17.R5", CORE, "core.Wtp.set_template_pre_expand", "return before the marking UPDATE",
                           "on some path the function returns without marking the page it was asked to mark", r.lineno))
    return rr


def rule_r8(ctx) -> RuleResult:
    """analyze_and_overwrite_pages first asks overwrite_single_page() in a dry run whether an override
    entry is a template (to decide that templates must be analysed again after the overwrite) and
    later lets the same function store the entry.  Both runs must resolve the entry's namespace the
    same way: the dry-run answer is a comparison of the *resolved* namespace id with the template
    namespace id -- not a guess from the title's spelling (an entry given as bare title plus
    namespace_id 10 is stored as a template by add_page)."""
    rr = RuleResult("C17.R8", "the dry run of an override classifies it by the namespace id the real run stores it under", min_instances=2)
    fn = ctx.fn("dumpparser.overwrite_single_page")
    ns_assigns = [n for n in walk_no_nested(fn) if isinstance(n, ast.Assign) and any(isinstance(t, ast.Name) and t.id == "namespace_id" for t in n.targets)]
    if not ns_assigns:
        raise AnalysisError("overwrite_single_page: resolution of namespace_id vanished")
    resolved_line = max(n.lineno for n in ns_assigns)
    rets = [r for r in walk_no_nested(fn) if isinstance(r, ast.Return) and r.value is not None
            and not (isinstance(r.value, ast.Constant) and r.value.value is False)]
    if not rets:
        raise AnalysisError("overwrite_single_page: no return that can answer True")
    parents = ctx.index.mod("dumpparser").parents
    for r in rets:
        exprs = [r.value]
        q = r
        while q in parents and parents[q] is not fn:
            q = parents[q]
            if isinstance(q, ast.If):
                exprs.append(q.test)
        text = " and ".join(unparse(e) for e in exprs)
        uses_ns = any(isinstance(x, ast.Name) and x.id == "namespace_id" for e in exprs for x in ast.walk(e))
        by_spelling = any(isinstance(x, ast.Attribute) and x.attr in ("startswith", "find", "index", "partition", "split") for e in exprs for x in ast.walk(e))
        if uses_ns and not by_spelling and r.lineno > resolved_line:
            rr.ok("dumpparser.overwrite_single_page", "is-template answer: " + text[:70], {"answer": text[:70]})
        else:
            rr.bad(Finding("C17.R8", "src/wikitextprocessor/dumpparser.py", "dumpparser.overwrite_single_page", text[:80],
                           "the dry run decides 'is a template' without the resolved namespace id (from the title's spelling, or before the id is "
                           "resolved): an override given as bare title + namespace_id is stored as a template but not analysed again, so the "
                           "marked set is not the closure over the final page store", r.lineno))
    # the store call uses the same resolved id
    adds = [c for c in walk_no_nested(fn) if isinstance(c, ast.Call) and unparse(c.func).endswith(".add_page")]
    if adds and all(len(c.args) >= 2 and unparse(c.args[1]) == "namespace_id" and c.lineno > resolved_line for c in adds):
        rr.ok("dumpparser.overwrite_single_page", "add_page(title, namespace_id, ...) after the id is resolved")
    else:
        rr.bad(Finding("C17.R8", "src/wikitextprocessor/dumpparser.py", "dumpparser.overwrite_single_page", "add_page(title, namespace_id, ...)",
                       "the real run does not store the entry under the resolved namespace id", fn.lineno))
    return rr


def rule_r9(ctx) -> RuleResult:
    """'marks exactly the closure': the classifier has to see every page of the Template namespace -- redirect pages
    included (a flagged redirect marks its target through the redirect propagation, and a template that includes the
    redirect by its name is marked through the inclusion map).  Decided: the loop that applies the classifier iterates over
    get_all_pages() restricted by nothing but the namespace (every other filter argument absent or equal to its default),
    and nothing skips an element before the classifier is applied to it."""
    rr = RuleResult("C17.R9", "the classifier is applied to every page of the Template namespace", min_instances=2)
    fn = ctx.fn(FN)
    loops = [n for n in walk_no_nested(fn) if isinstance(n, ast.For)
             and any(isinstance(c, ast.Call) and unparse(c.func) == "check_template_func" for b in n.body for c in ast.walk(b))]
    if len(loops) != 1:
        raise AnalysisError("analyze_templates: the loop that applies check_template_func was not found")
    lp = loops[0]
    it = lp.iter
    if isinstance(it, ast.Name):
        it = _resolve(fn, it.id, lp.lineno)
    if not (isinstance(it, ast.Call) and isinstance(it.func, ast.Attribute) and it.func.attr == "get_all_pages"):
        raise AnalysisError("analyze_templates: the classifier loop does not iterate over get_all_pages(...) directly (inconclusive)")
    gap = ctx.fn("core.Wtp.get_all_pages")
    params = [a.arg for a in gap.args.args[1:]]
    defaults = dict(zip(params[len(params) - len(gap.args.defaults):], gap.args.defaults))
    passed = dict(zip(params, it.args))
    passed.update({k.arg: k.value for k in it.keywords if k.arg})
    ok = True
    for p_, v in passed.items():
        if p_ == "namespace_ids":
            continue
        d = defaults.get(p_)
        if d is None or unparse(v) != unparse(d):
            ok = False
            rr.bad(Finding("C17.R9", CORE, FN, unparse(lp.iter)[:80],
                           "the scan is restricted by {}={}: pages excluded by it are never classified, so a flagged redirect page, its "
                           "target and the templates that include it by the redirect's name stay unmarked".format(p_, unparse(v)), lp.lineno))
    if ok:
        rr.ok(FN, "scan: " + unparse(it)[:60])
    # nothing skips an element before the classifier sees it
    idx = next(i for i, b in enumerate(lp.body) if any(isinstance(c, ast.Call) and unparse(c.func) == "check_template_func" for c in ast.walk(b)))
    skips = [x for b in lp.body[:idx] for x in ast.walk(b) if isinstance(x, (ast.Continue, ast.Break))]
    if skips:
        rr.bad(Finding("C17.R9", CORE, FN, "continue/break before check_template_func", "some pages are skipped before the classifier is applied", skips[0].lineno))
    else:
        rr.ok(FN, "no page is skipped before the classifier is applied")
    return rr


def rule_r10(ctx) -> RuleResult:
    """The marking and the redirect propagation test the flag in SQL (`need_pre_expand = 1`, `pages.need_pre_expand = 0`).  In SQL
    a NULL is neither: a row whose flag is NULL is never "not marked yet", so the propagation skips it for ever.  Hence no path
    may hand None to the column.  Followed backwards from add_page's parameter through same-named parameters of wrappers to
    the expressions at the outermost call sites; `d.get(key)` without a default is None for a missing key (seed C17-9A: the
    JSON override reader dropped the `False` default)."""
    rr = RuleResult("C17.R10", "the need_pre_expand column never receives NULL", min_instances=1)
    funcs = {}
    for dotted, m, f in ctx.index.all_functions():
        funcs.setdefault(f.name, []).append((dotted, m, f))
    seen, work = set(), [("add_page", "need_pre_expand")]
    while work:
        fname, param = work.pop()
        if (fname, param) in seen:
            continue
        seen.add((fname, param))
        targets = funcs.get(fname, [])
        if not targets:
            continue
        tf = targets[0][2]
        names = [a.arg for a in tf.args.args]
        if names and names[0] in ("self", "cls"):
            names = names[1:]
        pos = names.index(param) if param in names else None
        dflt = None
        allargs = tf.args.args
        if param in [a.arg for a in allargs]:
            k = [a.arg for a in allargs].index(param) - (len(allargs) - len(tf.args.defaults))
            if k >= 0:
                dflt = tf.args.defaults[k]
        if isinstance(dflt, ast.Constant) and dflt.value is None:
            rr.bad(Finding("C17.R10", targets[0][1].relpath, targets[0][0], "{}=None".format(param),
                           "the default of `{}` is None: a caller that omits it stores NULL".format(param), tf.lineno))
        for dotted, m, f in ctx.index.all_functions():
            for c in walk_no_nested(f):
                if not (isinstance(c, ast.Call) and ((isinstance(c.func, ast.Attribute) and c.func.attr == fname) or (isinstance(c.func, ast.Name) and c.func.id == fname))):
                    continue
                e = next((k.value for k in c.keywords if k.arg == param), None)
                if e is None and pos is not None and len(c.args) > pos and not any(isinstance(a, ast.Starred) for a in c.args):
                    e = c.args[pos]
                if e is None:
                    continue   # omitted: the default applies (checked above)
                ctx.touched(dotted, m.relpath)
                label = "{}({}={})".format(fname, param, unparse(e)[:40])

                def classify(x):
                    if isinstance(x, ast.Constant):
                        return "none" if x.value is None else "ok"
                    if isinstance(x, (ast.Compare, ast.BoolOp)) or (isinstance(x, ast.UnaryOp) and isinstance(x.op, ast.Not)):
                        return "ok"
                    if isinstance(x, ast.Call) and unparse(x.func) in ("bool", "int"):
                        return "ok"
                    if isinstance(x, ast.Call) and isinstance(x.func, ast.Attribute) and x.func.attr == "get":
                        if len(x.args) == 1 and not x.keywords:
                            return "none"
                        if len(x.args) == 2:
                            return classify(x.args[1])
                    if isinstance(x, ast.IfExp):
                        a, b = classify(x.body), classify(x.orelse)
                        return "none" if "none" in (a, b) else ("ok" if a == b == "ok" else "unknown")
                    if isinstance(x, ast.Name) and x.id in [a.arg for a in f.args.args + f.args.kwonlyargs]:
                        return "param"
                    return "unknown"

                k = classify(e)
                if k == "none":
                    rr.bad(Finding("C17.R10", m.relpath, dotted, label,
                                   "this expression is None when the key is missing / on this path, and it reaches the need_pre_expand column: the "
                                   "row's flag is NULL, which `need_pre_expand = 0` never matches, so the redirect propagation never marks the page",
                                   c.lineno))
                elif k == "param":
                    work.append((f.name, e.id))
                    rr.ok(dotted, label + " (forwarded parameter)")
                else:
                    rr.ok(dotted, label + (" (not None)" if k == "ok" else " (unclassified)"), {"site": label, "kind": k})
    return rr


def run(ctx) -> list:
    from ..core.report import shared
    from . import c10

    sf = SqlFacts(ctx.index)
    r6 = shared(c10.rule_r12(ctx, sf), "C17.R6", "in-memory mirrors of the marking are maintained by every writer of `pages` (shared with C10.R12)",
                "a later analysis on the same context skips templates it wrongly believes to be marked", min_instances=3)
    r7 = shared(c10.rule_r11(ctx, sf), "C17.R7", "the work list finds every stored template by its stored title (shared with C10.R11)",
                "a template whose stored title the reader-side normalisation changes is never reached by the propagation", min_instances=1)
    return [rule_r1(ctx), rule_r2(ctx), rule_r3(ctx, sf), rule_r4(ctx, sf), rule_r5(ctx, sf), r6, r7, rule_r8(ctx), rule_r9(ctx), rule_r10(ctx)]
