"""C11 -- restoring the page database from its backup is crash-safe.

A kill at any point leaves exactly the files whose creating call has started,
so crash-safety is a property of the *publication protocol* of the files.
Paths are compared symbolically:

  DB      self.db_path
  BACKUP  self.backup_db_path            (existence == "a complete backup is available")
  WAL/SHM <db> + "-wal" / "-shm"
  GLOB    db_path.parent.glob(db_path.name + "*")   (may match DB, WAL, SHM *and* BACKUP)
  TMP:x   any other derived path

R1  atomic publication: BACKUP is never created by a writer (connect/open/copy/
    VACUUM INTO); it only appears by an atomic rename/replace of a different
    path whose writer has finished (backup() returned, connection closed).
R2  restore: on the branch where BACKUP exists, both <db>-wal and <db>-shm are
    removed and BACKUP is not deleted before BACKUP is renamed over DB, and all
    of that happens before the database is opened.
R3  in analyze_and_overwrite_pages, whenever skip_extract_dump may be true,
    backup_db() precedes overwrite_pages(..., True).
R4  backup_db commits before it copies.
"""

from __future__ import annotations

import ast

from ..core.flow import Flow, dominating_calls
from ..core.index import unparse, walk_no_nested
from ..core.report import AnalysisError, Finding, RuleResult

EXPLANATION = (
    "File-protocol typestate over symbolic paths in create_db, backup_db and "
    "analyze_and_overwrite_pages: which call can create or delete which file, in what order, on "
    "every path. Because a process kill leaves exactly the files whose creating calls have "
    "started, these ordering facts decide crash-safety at every kill point up to SQLite's own "
    "atomic commit and the atomicity of rename/replace, which are trusted."
)
ASSUMPTIONS = [
    "Path.rename/Path.replace/os.replace within one directory are atomic",
    "SQLite's backup API produces a complete database once backup() has returned and the target connection is closed",
    "a -wal file next to a database file is replayed by SQLite when the database is opened",
]
CORE = "src/wikitextprocessor/core.py"
DUMP = "src/wikitextprocessor/dumpparser.py"


class Paths:
    """Symbolic classification of path expressions inside one function."""

    def __init__(self, fn: ast.FunctionDef):
        self.fn = fn
        self.assign: dict = {}
        self.loopconst: dict = {}
        for n in walk_no_nested(fn):
            if isinstance(n, ast.Assign) and len(n.targets) == 1 and isinstance(n.targets[0], ast.Name):
                self.assign.setdefault(n.targets[0].id, []).append(n.value)
            if isinstance(n, ast.For) and isinstance(n.target, ast.Name) and isinstance(n.iter, (ast.Tuple, ast.List)):
                vals = [e.value for e in n.iter.elts if isinstance(e, ast.Constant) and isinstance(e.value, str)]
                if len(vals) == len(n.iter.elts):
                    self.loopconst[n.target.id] = vals
            if isinstance(n, ast.For) and isinstance(n.target, ast.Name) and isinstance(n.iter, ast.Call) \
                    and isinstance(n.iter.func, ast.Attribute) and n.iter.func.attr in ("glob", "rglob", "iterdir"):
                self.assign.setdefault(n.target.id, []).append(n.iter)

    def classify(self, e: ast.AST, depth: int = 0) -> set:
        """set of symbolic classes the expression may denote"""
        if depth > 6:
            return {"TMP:?"}
        if isinstance(e, ast.Name):
            if e.id in self.assign:
                out = set()
                for v in self.assign[e.id]:
                    out |= self.classify(v, depth + 1)
                return out
            return {"TMP:" + e.id}
        t = unparse(e)
        if isinstance(e, ast.Call) and isinstance(e.func, ast.Name) and e.func.id in ("str", "Path") and e.args:
            # str(p) / Path(p) keep the class; Path(str(p) + "-wal") handled below
            if len(e.args) == 1 and not isinstance(e.args[0], ast.BinOp):
                return self.classify(e.args[0], depth + 1)
        if isinstance(e, ast.Call) and isinstance(e.func, ast.Attribute) and e.func.attr in ("glob", "rglob", "iterdir"):
            pat = unparse(e.args[0]) if e.args else "*"
            if "db_path" in pat and "*" in pat:
                return {"GLOB"}
            return {"TMP:glob"}
        if isinstance(e, ast.Attribute) and e.attr == "backup_db_path":
            return {"BACKUP"}
        if isinstance(e, ast.Attribute) and e.attr == "db_path":
            return {"DB"}
        mentions_db = "db_path" in t and "backup_db_path" not in t
        mentions_bk = "backup_db_path" in t
        consts = [n.value for n in ast.walk(e) if isinstance(n, ast.Constant) and isinstance(n.value, str)]
        for n in ast.walk(e):
            if isinstance(n, ast.Name) and n.id in self.loopconst:
                consts.extend(self.loopconst[n.id])
        if mentions_db and not mentions_bk:
            out = set()
            for c in consts:
                if c.endswith("-wal"):
                    out.add("WAL")
                elif c.endswith("-shm"):
                    out.add("SHM")
                elif c.endswith("-journal"):
                    out.add("JOURNAL")
            if out and all(c.endswith(("-wal", "-shm", "-journal")) for c in consts if c.startswith("-")):
                return out
            return {"TMP:" + t}
        if mentions_bk:
            return {"TMP:" + t}  # derived from the backup name but a different path
        return {"TMP:" + t}


def _path_events(p: Paths, node: ast.AST) -> list:
    """[(op, classes, classes2, callnode)] for file-affecting calls in evaluation order"""
    evs = []
    for n in ast.walk(node):
        if not isinstance(n, ast.Call):
            continue
        f = n.func
        name = unparse(f)
        if isinstance(f, ast.Attribute) and f.attr in ("unlink", "rmdir"):
            evs.append(("delete", p.classify(f.value), None, n))
        elif isinstance(f, ast.Attribute) and f.attr in ("rename", "replace") and len(n.args) == 1 \
                and not isinstance(f.value, ast.Constant) and "str" not in name.split(".")[0:1]:
            # Path.rename(target) / Path.replace(target); str.replace has 2 args
            evs.append(("move", p.classify(f.value), p.classify(n.args[0]), n))
        elif name in ("os.rename", "os.replace", "shutil.move") and len(n.args) >= 2:
            evs.append(("move", p.classify(n.args[0]), p.classify(n.args[1]), n))
        elif name in ("os.remove", "os.unlink") and n.args:
            evs.append(("delete", p.classify(n.args[0]), None, n))
        elif name in ("shutil.copy", "shutil.copy2", "shutil.copyfile") and len(n.args) >= 2:
            evs.append(("write", p.classify(n.args[1]), None, n))
        elif name == "sqlite3.connect" and n.args:
            evs.append(("open_db", p.classify(n.args[0]), None, n))
        elif name == "open" and n.args:
            evs.append(("write", p.classify(n.args[0]), None, n))
        elif isinstance(f, ast.Attribute) and f.attr in ("open", "write_text", "write_bytes", "touch"):
            evs.append(("write", p.classify(f.value), None, n))
        elif isinstance(f, ast.Attribute) and f.attr in ("execute", "executescript") and n.args:
            a0 = n.args[0]
            if isinstance(a0, ast.Constant) and isinstance(a0.value, str) and "VACUUM INTO" in a0.value.upper():
                tgt = set()
                if len(n.args) > 1:
                    for x in ast.walk(n.args[1]):
                        if isinstance(x, (ast.Attribute, ast.Name)):
                            tgt |= p.classify(x)
                evs.append(("write", tgt or {"TMP:?"}, None, n))
        elif isinstance(f, ast.Attribute) and f.attr == "backup" and n.args:
            evs.append(("sqlite_backup", {unparse(n.args[0])}, None, n))
        elif isinstance(f, ast.Attribute) and f.attr == "close":
            evs.append(("close", {unparse(f.value)}, None, n))
        elif isinstance(f, ast.Attribute) and f.attr == "commit":
            evs.append(("commit", {unparse(f.value)}, None, n))
        elif isinstance(f, ast.Attribute) and f.attr == "exists":
            evs.append(("exists", p.classify(f.value), None, n))
    evs.sort(key=lambda e: (e[3].end_lineno, e[3].end_col_offset))
    return evs


class Protocol(Flow):
    """state = frozenset of facts; each event appends a fact"""

    def __init__(self, paths: Paths):
        self.paths = paths
        self.log = []  # (event, state_before)
        self.conn_path: dict = {}

    def transfer_expr(self, node, state):
        if node is None:
            return [state]
        s = state
        for ev in _path_events(self.paths, node):
            self.log.append((ev, s))
            op, a, b, n = ev
            if op == "delete":
                for c in a:
                    s = s | {("deleted", c)}
            elif op == "move":
                for c in b:
                    s = s | {("created_by_move", c)}
                for c in a:
                    s = s | {("moved_away", c)}
            elif op == "sqlite_backup":
                s = s | {("backup_done", next(iter(a)))}
            elif op == "close":
                s = s | {("closed", next(iter(a)))}
            elif op == "commit":
                s = s | {("committed",)}
            elif op == "write" and isinstance(n, ast.Call) and unparse(n.func).startswith("shutil.copy"):
                # a synchronous file copy has finished when the call returns
                for c in a:
                    s = s | {("copied_whole", c)}
        return [s]

    def transfer(self, st, state):
        # remember which connection variable is bound to which path
        if isinstance(st, ast.Assign) and isinstance(st.value, ast.Call) and unparse(st.value.func) == "sqlite3.connect" \
                and st.value.args and len(st.targets) == 1:
            self.conn_path[unparse(st.targets[0])] = self.paths.classify(st.value.args[0])
        return self.transfer_expr(st, state)

    def with_enter(self, node, state):
        # `with sqlite3.connect(path) as conn:` binds the connection like the assignment does (sqlite3's context manager
        # commits or rolls back on exit; it does not close)
        for it in node.items:
            e = it.context_expr
            if isinstance(e, ast.Call) and unparse(e.func) == "sqlite3.connect" and e.args and it.optional_vars is not None:
                self.conn_path[unparse(it.optional_vars)] = self.paths.classify(e.args[0])
        return super().with_enter(node, state)

    def branch(self, test, state):
        s = list(self.transfer_expr(test, state))[0]
        t = f = s
        if isinstance(test, ast.Call) and isinstance(test.func, ast.Attribute) and test.func.attr == "exists":
            cls = self.paths.classify(test.func.value)
            if cls == {"BACKUP"}:
                t = s | {("backup_exists",)}
                f = s | {("backup_absent",)}
        return [t], [f]

    def for_target(self, node, state):
        return [state]

    def for_const_element(self, node, elt):
        if isinstance(node.target, ast.Name):
            if elt is None:
                self.paths.loopconst.pop(node.target.id, None)
                vals = [e.value for e in node.iter.elts if isinstance(e, ast.Constant) and isinstance(e.value, str)]
                if len(vals) == len(node.iter.elts):
                    self.paths.loopconst[node.target.id] = vals
            elif isinstance(elt, ast.Constant) and isinstance(elt.value, str):
                self.paths.loopconst[node.target.id] = [elt.value]


def rule_r1(ctx) -> RuleResult:
    rr = RuleResult("C11.R1", "the backup appears under its final name only by an atomic move of a finished copy", min_instances=3)
    seen_final_creation = False
    for dotted, m, f in ctx.index.all_functions():
        if dotted.split(".")[0] not in ("core", "dumpparser"):
            continue
        src = unparse(f)
        if "backup_db_path" not in src:
            continue
        ctx.touched(dotted, m.relpath)
        p = Paths(f)
        w = Protocol(p)
        w.run_function(f, [frozenset()])
        for (op, a, b, n), st in w.log:
            if op in ("write", "open_db") and "BACKUP" in a:
                rr.bad(Finding("C11.R1", m.relpath, dotted, unparse(n),
                               "this call creates/writes the backup under its final name; a kill while it is incomplete leaves a "
                               "partial file that the next open renames over the database", n.lineno))
            elif op == "move" and "BACKUP" in b:
                seen_final_creation = True
                src_cls = a
                if "BACKUP" in src_cls or "DB" in src_cls:
                    rr.bad(Finding("C11.R1", m.relpath, dotted, unparse(n), "backup is produced by moving the database/backup itself", n.lineno))
                    continue
                # writer to the source must have finished: some connection opened on the
                # source path has had backup() done and has been closed
                finished = False
                for conn, cls in w.conn_path.items():
                    if cls & src_cls and ("backup_done", conn) in st and ("closed", conn) in st:
                        finished = True
                if any(("copied_whole", c) in st for c in src_cls):
                    finished = True  # whether a file-level copy is a *complete* copy is R4's question
                if finished:
                    rr.ok(dotted, unparse(n), {"fn": dotted, "publish": unparse(n), "after": "backup() returned and connection closed"})
                else:
                    rr.bad(Finding("C11.R1", m.relpath, dotted, unparse(n),
                                   "the temporary copy is moved to the final backup name before its writer has finished "
                                   "(backup() returned and the connection closed)", n.lineno))
            elif op in ("write", "open_db") and any(c.startswith("TMP:") for c in a) and dotted == "core.Wtp.backup_db":
                rr.ok(dotted, unparse(n), {"fn": dotted, "writes": sorted(a)})
    bk = ctx.fn("core.Wtp.backup_db")
    if not seen_final_creation and not rr.findings:
        rr.bad(Finding("C11.R1", CORE, "core.Wtp.backup_db", "<tmp>.replace(self.backup_db_path)",
                       "no statement publishes the backup under its final name", bk.lineno))
    # the reader of the protocol: create_db treats existence as completeness
    cd = ctx.fn("core.Wtp.create_db")
    if any(isinstance(n, ast.Call) and isinstance(n.func, ast.Attribute) and n.func.attr == "exists"
           and "backup_db_path" in unparse(n.func.value) for n in walk_no_nested(cd)):
        rr.ok("core.Wtp.create_db", "self.backup_db_path.exists() is the completeness test")
    else:
        rr.notes.append("create_db no longer tests backup existence; R1's reader side changed")
    return rr


def rule_r2(ctx) -> RuleResult:
    rr = RuleResult("C11.R2", "restore removes -wal/-shm, keeps the backup until it is renamed over the database, then opens", min_instances=5)
    fn = ctx.fn("core.Wtp.create_db")
    p = Paths(fn)
    w = Protocol(p)
    w.run_function(fn, [frozenset()])
    opens = [(ev, st) for ev, st in w.log if ev[0] == "open_db" and "DB" in ev[1]]
    if not opens:
        raise AnalysisError("create_db: sqlite3.connect(self.db_path) vanished")
    restore_seen = False
    for (op, a, b, n), st in opens:
        if ("backup_exists",) not in st:
            continue
        restore_seen = True
        for side in ("WAL", "SHM"):
            if ("deleted", side) in st or ("deleted", "GLOB") in st:
                rr.ok("core.Wtp.create_db", "{} removed before connect on the restore path".format(side),
                      {"path": "backup exists", "removed": side})
            else:
                rr.bad(Finding("C11.R2", CORE, "core.Wtp.create_db", "<db>-{} not removed before connect".format(side.lower()),
                               "after restoring the backup the old database's {} file survives; SQLite replays/uses it on the "
                               "restored file, resurrecting post-backup writes or corrupting it".format(side), n.lineno))
        if ("created_by_move", "DB") in st and ("moved_away", "BACKUP") in st:
            rr.ok("core.Wtp.create_db", "BACKUP moved over DB before connect")
        else:
            rr.bad(Finding("C11.R2", CORE, "core.Wtp.create_db", "self.backup_db_path.rename(self.db_path)",
                           "on the restore path the backup is not moved over the database before it is opened", n.lineno))
    if not restore_seen:
        rr.bad(Finding("C11.R2", CORE, "core.Wtp.create_db", "if self.backup_db_path.exists(): ...",
                       "the restore branch no longer precedes opening the database", fn.lineno))
    # crash points: the side files of the abandoned database are removed *before* the backup is
    # moved into place.  In the other order a crash between the two steps leaves a state with the
    # backup consumed (so the next start takes the normal path) and the stale -wal next to the
    # restored file, which SQLite then replays onto it.
    for (op, a, b, n), st in w.log:
        if op == "move" and "BACKUP" in a and "DB" in b and ("backup_exists",) in st:
            for side in ("WAL", "SHM"):
                if ("deleted", side) in st or ("deleted", "GLOB") in st:
                    rr.ok("core.Wtp.create_db", "{} already removed when the backup is moved into place".format(side),
                          {"order": side + " removed before rename"})
                else:
                    rr.bad(Finding("C11.R2", CORE, "core.Wtp.create_db", unparse(n),
                                   "the backup is renamed over the database while the old database's {} file still exists; a crash right "
                                   "after this rename leaves no backup to trigger the restore path and a stale {} that is replayed onto the "
                                   "restored database at the next start".format(side, side), n.lineno))
    # the backup must not be deleted (directly or through a glob that may match it)
    # before it has been moved
    for (op, a, b, n), st in w.log:
        if op == "delete" and ("backup_exists",) in st and ("moved_away", "BACKUP") not in st:
            if "BACKUP" in a or "GLOB" in a:
                rr.bad(Finding("C11.R2", CORE, "core.Wtp.create_db", unparse(n),
                               "on the restore path this can delete the backup itself before it is renamed over the database "
                               "({}): for a database file name without suffix `name*` matches `name_backup`".format(
                                   "glob on db_path.name + '*'" if "GLOB" in a else "direct unlink"), n.lineno))
            else:
                rr.ok("core.Wtp.create_db", unparse(n), {"deletes": sorted(a), "backup_preserved": True})
    return rr


class BackupOrder(Flow):
    """state = (skip: None/True/False, backed: bool)"""

    def __init__(self):
        self.sites = []

    def transfer_expr(self, node, state):
        if node is None:
            return [state]
        skip, backed = state
        calls = [n for n in ast.walk(node) if isinstance(n, ast.Call)]
        calls.sort(key=lambda n: (n.end_lineno, n.end_col_offset))
        for n in calls:
            t = unparse(n.func)
            if t.endswith(".backup_db"):
                backed = True
            if t == "overwrite_pages" and len(n.args) >= 3 and isinstance(n.args[2], ast.Constant) and n.args[2].value is True:
                self.sites.append((n, skip, backed))
        return [(skip, backed)]

    def branch(self, test, state):
        (s,) = self.transfer_expr(test, state)
        skip, backed = s
        if isinstance(test, ast.Name) and test.id == "skip_extract_dump":
            return [(True, backed)], [(False, backed)]
        if isinstance(test, ast.UnaryOp) and isinstance(test.op, ast.Not) and isinstance(test.operand, ast.Name) \
                and test.operand.id == "skip_extract_dump":
            return [(False, backed)], [(True, backed)]
        return [s], [s]


def rule_r3(ctx) -> RuleResult:
    rr = RuleResult("C11.R3", "backup_db() precedes overwrite_pages(..., True) whenever the dump is not re-extracted", min_instances=1)
    fn = ctx.fn("dumpparser.analyze_and_overwrite_pages")
    w = BackupOrder()
    w.run_function(fn, [(None, False)])
    by = {}
    for n, skip, backed in w.sites:
        by.setdefault(n, []).append((skip, backed))
    if len(by) < 1:   # (two sites today; merging the two arms that overwrite is a refactoring, so the count is not fixed)
        raise AnalysisError("analyze_and_overwrite_pages: no overwrite_pages(..., True) site found")
    for n, lst in by.items():
        bad = [(s, b) for s, b in lst if s is not False and not b]
        if bad:
            rr.bad(Finding("C11.R3", DUMP, "dumpparser.analyze_and_overwrite_pages", unparse(n),
                           "pages can be overwritten with skip_extract_dump possibly true and no backup taken first", n.lineno))
        else:
            rr.ok("dumpparser.analyze_and_overwrite_pages", "{}@{}".format(unparse(n), n.lineno),
                  {"site": unparse(n), "line": n.lineno, "states": [str(x) for x in lst]})
    return rr


def rule_r4(ctx) -> RuleResult:
    rr = RuleResult("C11.R4", "backup_db commits before copying", min_instances=1)

    def is_call(n, suffix):
        return isinstance(n, ast.Call) and unparse(n.func).endswith(suffix)

    f = ctx.fn("core.Wtp.backup_db")
    FILE_COPIES = ("shutil.copy", "shutil.copy2", "shutil.copyfile", "shutil.copyfileobj")

    def is_file_copy(n):
        return isinstance(n, ast.Call) and unparse(n.func) in FILE_COPIES

    # the database runs in WAL mode (set by create_db): committed pages may live only in <db>-wal,
    # so the content must be copied *through SQLite* (Connection.backup / VACUUM INTO); a file-level
    # copy of the main file silently omits them
    cd = ctx.fn("core.Wtp.create_db")
    wal_mode = any(isinstance(c, ast.Constant) and isinstance(c.value, str) and "journal_mode" in c.value.lower() and "wal" in c.value.lower()
                   for c in ast.walk(cd))
    paths = Paths(f)
    for n in walk_no_nested(f):
        if is_file_copy(n) and n.args and ("DB" in paths.classify(n.args[0])):
            if wal_mode:
                rr.bad(Finding("C11.R4", CORE, "core.Wtp.backup_db", unparse(n)[:80],
                               "the backup is a file-level copy of the main database file while the database is in WAL mode: pages committed but "
                               "not yet checkpointed are only in <db>-wal and are missing from the backup, and the restore deletes that -wal", n.lineno))
            else:
                rr.ok("core.Wtp.backup_db", unparse(n)[:60] + " (rollback-journal mode)")
    res = dominating_calls(f, lambda n: is_call(n, "db_conn.commit"),
                           lambda n: is_call(n, "db_conn.backup") or is_file_copy(n) or (is_call(n, ".execute") and "VACUUM" in unparse(n).upper()))
    if not res:
        raise AnalysisError("backup_db: copying call vanished")
    for n, dom in res:
        if dom:
            rr.ok("core.Wtp.backup_db", unparse(n), {"copy": unparse(n), "commit_dominates": True})
        else:
            rr.bad(Finding("C11.R4", CORE, "core.Wtp.backup_db", unparse(n), "copy without a preceding commit", n.lineno))
    return rr


_JOURNAL_FILES = {"WAL": {"-wal", "-shm"}, "DELETE": {"-journal"}, "TRUNCATE": {"-journal"}, "PERSIST": {"-journal"}, "MEMORY": set(), "OFF": set()}


def rule_r5(ctx) -> RuleResult:
    """The restore removes the side files of the abandoned database before the backup takes its place (R2).  *Which* side files
    exist is decided by the journal mode the schema script selects: WAL leaves `-wal`/`-shm`, the rollback-journal modes leave a
    hot `-journal` that SQLite plays back onto whatever file it finds under the database name.  The suffixes the restore
    removes have to cover the files of the selected mode (seed C11-9A: `journal_mode = TRUNCATE` with a restore that still
    removes only -wal/-shm)."""
    from ..core.sqlfacts import SqlFacts

    rr = RuleResult("C11.R5", "the restore removes the side files of the journal mode the database is opened in", min_instances=1)
    sf = SqlFacts(ctx.index)
    modes = []
    for st in sf.statements:
        if st.kind == "PRAGMA":
            import re as _re
            m = _re.search(r"(?i)journal_mode\s*=\s*(\w+)", st.text)
            if m:
                modes.append((m.group(1).upper(), st))
    if not modes:
        raise AnalysisError("no `PRAGMA journal_mode = ...` found in the statements the package executes")
    fn = ctx.fn("core.Wtp.create_db")
    # string constants / folded tuples used to build the unlinked paths on the restore branch
    removed = set()
    for n in ast.walk(fn):
        if isinstance(n, ast.Constant) and isinstance(n.value, str) and n.value.startswith("-") and len(n.value) <= 9:
            removed.add(n.value)
        if isinstance(n, ast.Name):
            try:
                v = ctx.index.const("core", n.id)
            except Exception:  # noqa: BLE001
                continue
            if isinstance(v, (tuple, list)):
                removed |= {x for x in v if isinstance(x, str) and x.startswith("-")}
    globbed = any(isinstance(c, ast.Call) and isinstance(c.func, ast.Attribute) and c.func.attr == "glob" for c in ast.walk(fn))
    for mode, st in modes:
        need = _JOURNAL_FILES.get(mode)
        if need is None:
            raise AnalysisError("journal mode {} not known to the rule".format(mode))
        missing = sorted(need - removed)
        if missing and not globbed:
            rr.bad(Finding("C11.R5", st.relfile, st.function, "PRAGMA journal_mode = {}".format(mode),
                           "the database is opened in journal mode {}, which leaves {} next to it when its owner is killed, but the restore "
                           "in create_db removes only {}: SQLite plays the surviving file back onto the restored backup and post-backup page "
                           "versions reappear".format(mode, ", ".join("<db>" + x for x in sorted(need)), ", ".join(sorted(removed)) or "nothing"),
                           st.call.lineno))
        else:
            rr.ok(st.function, "journal_mode {}: restore removes {}".format(mode, ", ".join(sorted(need)) or "nothing needed"),
                  {"mode": mode, "removed": sorted(removed)})
    return rr


def rule_r6(ctx) -> RuleResult:
    """create_db asks for `backup_db_path` twice -- once to test that the backup exists, once to rename it -- and removes the
    database file in between; backup_db publishes under the same name.  The name therefore has to be a pure function of
    `db_path`: a property that looks at the file system (is_symlink, resolve, exists) can answer differently after the unlink,
    and the restore then renames a path that does not exist, having already deleted the database (seed C11-9B)."""
    rr = RuleResult("C11.R6", "the backup's name is computed from db_path alone, without asking the file system", min_instances=1)
    dotted = "core.Wtp.backup_db_path"
    fn = ctx.fn(dotted)
    fs = [c for c in walk_no_nested(fn) if isinstance(c, ast.Call) and isinstance(c.func, ast.Attribute)
          and c.func.attr in ("is_symlink", "resolve", "exists", "is_file", "is_dir", "stat", "lstat", "readlink", "samefile", "absolute", "cwd", "glob", "iterdir")]
    fs += [c for c in walk_no_nested(fn) if isinstance(c, ast.Call) and unparse(c.func).startswith(("os.path.", "os.readlink", "os.getcwd"))
           and unparse(c.func) not in ("os.path.join", "os.path.basename", "os.path.dirname", "os.path.splitext")]
    if fs:
        for c in fs:
            rr.bad(Finding("C11.R6", CORE, dotted, unparse(c)[:60],
                           "the name of the backup depends on the state of the file system: create_db evaluates it before and after it has "
                           "unlinked the database path, and the two answers can differ -- the restore then fails after the database is gone",
                           c.lineno))
    else:
        rr.ok(dotted, "pure path arithmetic on db_path")
    return rr


def run(ctx) -> list:
    return [rule_r1(ctx), rule_r2(ctx), rule_r3(ctx), rule_r4(ctx), rule_r5(ctx), rule_r6(ctx)]
