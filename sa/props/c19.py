"""C19 -- serialising a parse tree back to wikitext preserves it.

R1  emitter exhaustiveness: to_wikitext handles every NodeKind member.
R2  delimiter agreement: the literal the emitter writes first for each kind is a
    token (or bracket) that opens that kind in the parser; `|}` closes tables;
    argument lists are joined by `|`; node_expand.KIND_TO_LEVEL is the inverse
    of parser.SUBTITLE_TO_KIND.
R3  literal `[[` and `]]` inside text are both neutralised, independently and
    unconditionally; attribute values are always quoted.
R4  a parser function keeps its `:` whenever it has an argument list, even an
    empty one (the guard looks at the number of arguments, not at the rendered
    text).
"""

from __future__ import annotations

import ast
import re

from ..core.flow import Flow
from ..core.index import EnumMember, FuncRef, unparse, walk_no_nested
from ..core.report import AnalysisError, Finding, RuleResult
from . import _expand as X
from . import _parser as P

EXPLANATION = (
    "Writer/reader agreement between to_wikitext's per-kind emitters and the parser: the set of kinds "
    "handled is compared with the NodeKind enumeration; for each kind the first literal emitted is "
    "matched against the tokens whose handlers (resolved through tokenops, the process_text dispatch "
    "and the encoder's bracket regexes) can push that kind; the text arm's bracket protection and the "
    "attribute quoting are checked by shape. Tree equivalence after re-parsing is not decided."
)
ASSUMPTIONS = [
    "a handler 'can open' a kind if a _parser_push of that kind is reachable from it within parser.py",
    "format placeholders and surrounding newlines are not part of the emitted delimiter",
]
NE = "src/wikitextprocessor/node_expand.py"
RECURSE = "node_expand.to_wikitext.recurse"


def _kinds_in_node_expand(ctx, e: ast.AST):
    """kind names of a tuple / set / dict constant defined in node_expand.py"""
    try:
        v = ctx.index.fold("node_expand", e)
    except Exception:  # noqa: BLE001
        return None
    if isinstance(v, EnumMember):
        return frozenset([v.name])
    if isinstance(v, (tuple, list, set, frozenset, dict)) and v and all(isinstance(x, EnumMember) for x in v):
        return frozenset(x.name for x in v)
    return None


def _specialise(ctx, stmts: list, kind: str) -> list:
    """Partial evaluation of an emitter arm shared by several kinds for one kind K:
    * `a, b = TABLE[kind]` with TABLE a module constant keyed by kinds -> a, b become constants;
    * `x = node.largs` / `x = x[1:]` style aliases are inlined;
    * `if kind == NodeKind.X:` / `if kind in (...)` sub-branches are resolved for K.
    The rules then look at the same shape whether the emitters are written one per kind or table-driven."""
    import copy

    from ..core import special

    # table lookups written inline (`{K1: a, K2: b}[kind]`, `TABLE.get(kind)`, rows of tuples) are resolved by the shared
    # specialiser first; what follows handles the tables that need the module's constant folder
    def _same(k_, kind=kind):
        names = P.kind_name(ctx, k_)
        return names == frozenset([kind])

    try:
        stmts = special.specialise(special.normalise_get_dispatch(list(stmts), "kind", X.scopes_of(ctx, ctx.fn(RECURSE))), "kind",
                                   "NodeKind." + kind, X.scopes_of(ctx, ctx.fn(RECURSE)), same_key=_same)
    except Exception:  # noqa: BLE001 -- the shared pass is an optimisation of shape only
        pass

    def subst(e, env):
        class T(ast.NodeTransformer):
            def visit_Name(self, n):
                if isinstance(n.ctx, ast.Load) and n.id in env:
                    return copy.deepcopy(env[n.id])
                return n

            def visit_IfExp(self, n):
                self.generic_visit(n)
                d = kind_test(n.test)
                return n.body if d is True else n.orelse if d is False else n

        return T().visit(copy.deepcopy(e))

    def aliasable(v) -> bool:
        if isinstance(v, ast.Constant):
            return True
        b = v
        while isinstance(b, ast.Subscript):
            b = b.value
        return isinstance(b, ast.Attribute) and isinstance(b.value, ast.Name) and b.value.id == "node"

    def kind_test(t):
        """True/False if the test is decided for K, None otherwise"""
        if isinstance(t, ast.Compare) and len(t.ops) == 1 and unparse(t.left) == "kind":
            ks = P.kind_name(ctx, t.comparators[0]) or _kinds_in_node_expand(ctx, t.comparators[0])
            if ks:
                if isinstance(t.ops[0], (ast.Eq, ast.In)):
                    return kind in ks
                if isinstance(t.ops[0], (ast.NotEq, ast.NotIn)):
                    return kind not in ks
        return None

    def run(stmts, env):
        out = []
        for st in stmts:
            if isinstance(st, ast.Assign) and len(st.targets) == 1:
                tg, v = st.targets[0], subst(st.value, env)
                # table row unpacking
                if isinstance(tg, ast.Tuple) and isinstance(st.value, ast.Subscript) and unparse(st.value.slice) == "kind" \
                        and all(isinstance(x, ast.Name) for x in tg.elts):
                    try:
                        tbl = ctx.index.fold("node_expand", st.value.value)
                    except Exception:  # noqa: BLE001
                        tbl = None
                    row = None
                    if isinstance(tbl, dict):
                        for k_, v_ in tbl.items():
                            if isinstance(k_, EnumMember) and k_.name == kind:
                                row = v_
                    if isinstance(row, (tuple, list)) and len(row) == len(tg.elts):
                        for nm, val in zip(tg.elts, row):
                            env[nm.id] = ast.Constant(value=val)
                        continue
                if isinstance(tg, ast.Name) and aliasable(v):
                    env[tg.id] = v
                    continue
                if isinstance(tg, ast.Name):
                    env.pop(tg.id, None)
                new = copy.copy(st)
                new.value = v
                out.append(new)
                continue
            if isinstance(st, ast.If):
                d = kind_test(st.test)
                if d is True:
                    out.extend(run(st.body, env))
                    continue
                if d is False:
                    out.extend(run(st.orelse, env))
                    continue
                e1, e2 = dict(env), dict(env)
                new = copy.copy(st)
                new.test = subst(st.test, env)
                new.body = run(st.body, e1) or [ast.Pass()]
                new.orelse = run(st.orelse, e2)
                for k_ in list(env):
                    if unparse(e1.get(k_, env[k_])) != unparse(env[k_]) or unparse(e2.get(k_, env[k_])) != unparse(env[k_]) \
                            or k_ not in e1 or k_ not in e2:
                        env.pop(k_, None)
                ast.copy_location(new, st)
                out.append(new)
                continue
            if isinstance(st, (ast.For, ast.While)):
                new = copy.copy(st)
                if isinstance(st, ast.For):
                    new.iter = subst(st.iter, env)
                else:
                    new.test = subst(st.test, env)
                new.body = run(st.body, dict(env)) or [ast.Pass()]
                out.append(new)
                continue
            out.append(subst(st, env))
        return out

    res = run(stmts, {})
    for n in res:
        ast.fix_missing_locations(n)
    return res


def _is_join_parts(e) -> bool:
    return isinstance(e, ast.Call) and isinstance(e.func, ast.Attribute) and e.func.attr == "join" and isinstance(e.func.value, ast.Constant) \
        and e.func.value.value == "" and len(e.args) == 1 and isinstance(e.args[0], ast.Name) and e.args[0].id == "parts"


def _accumulator_form(body: list) -> list:
    """The emitter either accumulates pieces in `parts` and joins them at the end (pinned shape) or returns each kind's text
    from its own arm.  The second form is rewritten to the first, statement by statement, so that the rules read one shape:
    a sequence `if kind ...: ...; return E` becomes one if/elif chain; `return E` -> `parts.append(E)`;
    `return "".join(parts)` -> nothing; `parts = [a, b]` -> appends; `parts += (a, b)` -> appends;
    `parts.extend(map(f, xs))` -> `for x in xs: parts.append(f(x))`.  Every step is an equivalence as long as `parts` is empty
    when the dispatch starts, which holds because the rewritten form only ever creates it inside an arm.  Bodies without a
    returning kind arm are returned unchanged."""
    import copy

    def kind_test(st) -> bool:
        return isinstance(st, ast.If) and isinstance(st.test, ast.Compare) and unparse(st.test.left) == "kind"

    def always_returns(block) -> bool:
        if not block:
            return False
        last = block[-1]
        if isinstance(last, (ast.Return, ast.Raise)):
            return True
        if isinstance(last, ast.If) and last.orelse:
            return always_returns(last.body) and always_returns(last.orelse)
        return False

    start = [i for i, st in enumerate(body) if kind_test(st)]
    if not start or not any(kind_test(st) and not st.orelse and always_returns(st.body) for st in body):
        return body
    # parts must not be live before the dispatch
    first = start[0]
    if any(isinstance(n, ast.Name) and n.id == "parts" for st in body[:first] for n in ast.walk(st)):
        return body

    def app(e, at):
        c = ast.Expr(value=ast.Call(func=ast.Attribute(value=ast.Name(id="parts", ctx=ast.Load()), attr="append", ctx=ast.Load()),
                                    args=[e], keywords=[]))
        ast.copy_location(c, at)
        ast.fix_missing_locations(c)
        return c

    def conv(block) -> list:
        out = []
        for st in block:
            if isinstance(st, ast.Return):
                if st.value is None:
                    raise AnalysisError("to_wikitext: an emitter arm returns None")
                if not _is_join_parts(st.value):
                    out.append(app(st.value, st))
                continue
            tgt = val = None
            if isinstance(st, ast.Assign) and len(st.targets) == 1:
                tgt, val = st.targets[0], st.value
            elif isinstance(st, ast.AnnAssign) and st.value is not None:
                tgt, val = st.target, st.value
            if isinstance(tgt, ast.Name) and tgt.id == "parts" and isinstance(val, (ast.List, ast.Tuple)):
                out.extend(app(e, st) for e in val.elts)
                continue
            if isinstance(st, ast.AugAssign) and isinstance(st.op, ast.Add) and unparse(st.target) == "parts" \
                    and isinstance(st.value, (ast.List, ast.Tuple)):
                out.extend(app(e, st) for e in st.value.elts)
                continue
            if isinstance(st, ast.Expr) and isinstance(st.value, ast.Call) and unparse(st.value.func) == "parts.extend" and len(st.value.args) == 1:
                a = st.value.args[0]
                if isinstance(a, ast.Call) and unparse(a.func) == "map" and len(a.args) == 2:
                    loop = ast.For(target=ast.Name(id="x", ctx=ast.Store()), iter=a.args[1],
                                   body=[app(ast.Call(func=a.args[0], args=[ast.Name(id="x", ctx=ast.Load())], keywords=[]), st)], orelse=[])
                    ast.copy_location(loop, st)
                    ast.fix_missing_locations(loop)
                    out.append(loop)
                    continue
                if isinstance(a, (ast.List, ast.Tuple)):
                    out.extend(app(e, st) for e in a.elts)
                    continue
            if isinstance(st, ast.If):
                st = copy.copy(st)
                st.body = conv(st.body) or [ast.copy_location(ast.Pass(), st)]
                st.orelse = conv(st.orelse)
            elif isinstance(st, (ast.For, ast.While)):
                st = copy.copy(st)
                st.body = conv(st.body)
            out.append(st)
        return out

    # chain the returning arms: `if A: ..return; if B: ..return; REST`  ==  `if A: .. elif B: .. else: REST`
    def chain(stmts) -> list:
        if not stmts:
            return []
        st = stmts[0]
        if kind_test(st) and not st.orelse and always_returns(st.body):
            n = ast.If(test=st.test, body=conv(st.body) or [ast.copy_location(ast.Pass(), st)], orelse=chain(stmts[1:]))
            ast.copy_location(n, st)
            return [n]
        if kind_test(st):
            # an if/elif chain already: convert its arms in place
            def conv_if(n):
                m = ast.If(test=n.test, body=conv(n.body) or [ast.copy_location(ast.Pass(), n)],
                           orelse=[conv_if(n.orelse[0])] if len(n.orelse) == 1 and isinstance(n.orelse[0], ast.If) else conv(n.orelse))
                return ast.copy_location(m, n)
            return [conv_if(st)] + chain(stmts[1:])
        return conv([st]) + chain(stmts[1:])

    return body[:first] + chain(body[first:])


def _emitter_body(ctx) -> list:
    from ..core import special
    fn = ctx.fn(RECURSE)
    body = special.normalise_get_dispatch(list(fn.body), "kind", X.scopes_of(ctx, fn))
    return _accumulator_form(body)


def _emitter_arms(ctx) -> dict:
    fn = ctx.fn(RECURSE)
    arms = {}
    level_arm = None

    def visit(n: ast.If):
        nonlocal level_arm
        t = n.test
        if isinstance(t, ast.Compare) and unparse(t.left) == "kind" and isinstance(t.ops[0], ast.Eq):
            ks = P.kind_name(ctx, t.comparators[0])
            if ks:
                for k in ks:
                    arms[k] = _specialise(ctx, n.body, k) if len(ks) > 1 else n.body
        elif isinstance(t, ast.Compare) and unparse(t.left) == "kind" and isinstance(t.ops[0], ast.In):
            if unparse(t.comparators[0]) == "KIND_TO_LEVEL":
                level_arm = n.body
            else:
                ks = P.kind_name(ctx, t.comparators[0]) or _kinds_in_node_expand(ctx, t.comparators[0])
                if not ks:
                    raise AnalysisError("to_wikitext: cannot determine the kinds of the arm `{}`".format(unparse(t)[:60]))
                for k in ks:
                    arms[k] = _specialise(ctx, n.body, k) if len(ks) > 1 else n.body
        if len(n.orelse) == 1 and isinstance(n.orelse[0], ast.If):
            visit(n.orelse[0])
        elif n.orelse:
            arms["%else"] = n.orelse

    for st in _emitter_body(ctx):
        if isinstance(st, ast.If) and isinstance(st.test, ast.Compare) and unparse(st.test.left) == "kind":
            visit(st)
    return arms, level_arm


def rule_r1(ctx) -> RuleResult:
    rr = RuleResult("C19.R1", "to_wikitext has an emitter for every node kind", min_instances=27)
    arms, level_arm = _emitter_arms(ctx)
    k2l = ctx.index.const("node_expand", "KIND_TO_LEVEL")
    handled = {k for k in arms if not k.startswith("%")}
    if level_arm is not None:
        handled |= {k.name for k in k2l}
    for k in P.all_kinds(ctx):
        if k in handled:
            rr.ok(RECURSE, "kind " + k, {"kind": k})
        else:
            rr.bad(Finding("C19.R1", NE, RECURSE, "NodeKind." + k,
                           "no emitter for this kind: to_wikitext raises RuntimeError('unimplemented') for any tree containing it", 0))
    els = arms.get("%else", [])
    if els and isinstance(els[-1], ast.Raise):
        rr.ok(RECURSE, "unknown kinds raise (no silent drop)")
    return rr


def _kinds_pushed_by(ctx, dotted: str, seen=None) -> set:
    seen = seen if seen is not None else set()
    if dotted in seen or not ctx.index.has_func(dotted):
        return set()
    seen.add(dotted)
    fn = ctx.index.func(dotted)
    out = set()
    for c in walk_no_nested(fn):
        if isinstance(c, ast.Call):
            f = unparse(c.func)
            if f == "_parser_push" and len(c.args) > 1:
                ks = P.kind_name(ctx, c.args[1])
                if ks:
                    out |= set(ks)
                elif unparse(c.args[1]) == "kind":
                    out |= {k.name for k in ctx.index.const("parser", "SUBTITLE_TO_KIND").values()}
            elif isinstance(c.func, ast.Name) and ctx.index.has_func("parser." + f) and f not in ("text_fn", "process_text"):
                out |= _kinds_pushed_by(ctx, "parser." + f, seen)
    return out


def _first_template(arm: list) -> list:
    """template (literal pieces and holes, see core.strtpl) of the first text an emitter arm appends to `parts`"""
    from ..core import strtpl
    for st in arm:
        for n in ast.walk(st):
            if isinstance(n, ast.Call) and unparse(n.func) == "parts.append" and n.args:
                a = n.args[0]
                if isinstance(a, ast.Name):
                    # e.g. first_part = "{{" + recurse(...)
                    vals = [m.value for s2 in arm for m in ast.walk(s2) if isinstance(m, ast.Assign) and unparse(m.targets[0]) == a.id]
                    if vals:
                        a = vals[0]
                return strtpl.template(a)
    return []


def _first_literal(arm: list) -> str:
    """the literal text an emitter arm starts its output with"""
    tpl = _first_template(arm)
    if not tpl:
        return ""
    if isinstance(tpl[0], str):
        return tpl[0]
    raise AnalysisError("to_wikitext: the first text an emitter writes is `{}`, which is not a literal (inconclusive)".format(unparse(tpl[0])[:40]))


def rule_r2(ctx) -> RuleResult:
    rr = RuleResult("C19.R2", "each kind is emitted with a delimiter that opens that kind in the parser", min_instances=15)
    arms, level_arm = _emitter_arms(ctx)
    tokenops = ctx.index.const("parser", "tokenops")
    opens: dict = {}  # delimiter -> kinds
    for tok, ref in tokenops.items():
        if isinstance(ref, FuncRef):
            opens.setdefault(tok, set()).update(_kinds_pushed_by(ctx, "parser." + ref.name))
    opens.setdefault("----", set()).update(_kinds_pushed_by(ctx, "parser.hline_fn"))
    tagk = _kinds_pushed_by(ctx, "parser.tag_fn")
    opens.setdefault("<", set()).update(tagk)
    opens.setdefault("<pre>", set()).update({"PRE"} & tagk)
    # brackets handled by the encoder: cookie kind -> NodeKind pushed by magic_fn
    marms = X.kind_arms(ctx.fn("parser.magic_fn"), ctx=ctx)
    bracket = {"{{": "T", "{{{": "A", "[[": "L", "[": "E"}
    for lit, ck in bracket.items():
        ks = set()
        for st in marms.get(ck, []):
            for c in ast.walk(st):
                if isinstance(c, ast.Call) and unparse(c.func) == "_parser_push":
                    ks |= set(P.kind_name(ctx, c.args[1]) or [])
        if ck == "T":
            ks.add("PARSER_FN")  # a TEMPLATE node is retyped by colon_fn/_parser_pop
        opens.setdefault(lit, set()).update(ks)
    rr.instances["openers"] = {k: sorted(v) for k, v in opens.items() if v}
    expected_delim = {
        "HLINE": "----", "PRE": "<pre>", "LINK": "[[", "TEMPLATE": "{{", "TEMPLATE_ARG": "{{{", "PARSER_FN": "{{", "URL": "[",
        "TABLE": "{|", "TABLE_CAPTION": "|+", "TABLE_ROW": "|-", "TABLE_HEADER_CELL": "!", "TABLE_CELL": "|",
        "BOLD": "'''", "ITALIC": "''", "HTML": "<",
    }
    for kind, _ in expected_delim.items():
        if kind not in arms:
            continue  # R1 reports the missing emitter
        lit = _first_literal(arms[kind])
        stripped = lit.strip("\n")
        # leading delimiter: longest opener that the literal starts with
        cand = [d for d in opens if stripped.startswith(d)]
        if kind in ("TEMPLATE", "TEMPLATE_ARG", "PARSER_FN"):
            cand = [d for d in ("{{{", "{{") if lit.startswith(d)][:1]
        d = max(cand, key=len) if cand else None
        label = "{} emitted as {!r}".format(kind, lit)
        if d is not None and kind in opens.get(d, set()):
            rr.ok(RECURSE, label, {"kind": kind, "emits": lit, "delimiter": d, "opens": sorted(opens[d])})
        else:
            rr.bad(Finding("C19.R2", NE, RECURSE, label,
                           "the emitted text starts with {!r}, which {} in the parser: re-parsing does not give a {} node back".format(
                               d or stripped[:3], "opens " + ",".join(sorted(opens.get(d, []))) if d else "is not a token", kind), arms[kind][0].lineno))
    # table end
    tsrc = "".join(unparse(s) for s in arms.get("TABLE", []))
    if "|}" in tsrc and "table_end_fn" in repr(tokenops.get("|}")):
        rr.ok(RECURSE, "TABLE closed with |}")
    else:
        rr.bad(Finding("C19.R2", NE, RECURSE, "TABLE closing literal", "tables are not closed with the `|}` token", 0))
    # argument joiners
    for kind in ("LINK", "TEMPLATE", "TEMPLATE_ARG", "PARSER_FN"):
        joins = [c for s_ in arms.get(kind, []) for c in ast.walk(s_)
                 if isinstance(c, ast.Call) and isinstance(c.func, ast.Attribute) and c.func.attr == "join"
                 and isinstance(c.func.value, ast.Constant) and c.func.value.value == "|" and c.args
                 and "node.largs" in unparse(c.args[0]) and "recurse" in unparse(c.args[0])]
        if joins:
            rr.ok(RECURSE, kind + " arguments joined by '|'")
        else:
            rr.bad(Finding("C19.R2", NE, RECURSE, kind + " argument joiner", "arguments are not re-emitted joined by `|`", arms[kind][0].lineno if kind in arms else 0))
    # headings
    k2l = ctx.index.const("node_expand", "KIND_TO_LEVEL")
    stk = ctx.index.const("parser", "SUBTITLE_TO_KIND")
    if {v: k for k, v in stk.items()} == dict(k2l):
        rr.ok("node_expand.KIND_TO_LEVEL", "inverse of parser.SUBTITLE_TO_KIND")
    else:
        rr.bad(Finding("C19.R2", NE, "node_expand.KIND_TO_LEVEL", repr(sorted((str(k), v) for k, v in k2l.items())),
                       "heading markers written by the emitter differ from the markers the parser maps to those kinds", 0))
    if level_arm is not None:
        tpl = _first_template(level_arm)
        lit = "".join(p_ if isinstance(p_, str) else "{}" for p_ in tpl)
        if len(tpl) == 7 and [p_ for p_ in tpl if isinstance(p_, str)] == ["\n", " ", " ", "\n"] and unparse(tpl[1]) == unparse(tpl[5]):
            rr.ok(RECURSE, "heading emitted as newline, marker, title, marker, newline")
        else:
            rr.bad(Finding("C19.R2", NE, RECURSE, "heading literal {!r}".format(lit), "a heading is not emitted on its own line between equal markers", level_arm[0].lineno))
    return rr


def rule_r3(ctx) -> RuleResult:
    rr = RuleResult("C19.R3", "literal [[ and ]] in text are neutralised; attribute values are quoted", min_instances=3)
    fn = ctx.fn(RECURSE)
    str_if = [s for s in fn.body if isinstance(s, ast.If) and unparse(s.test) == "isinstance(node, str)"]
    if len(str_if) != 1:
        raise AnalysisError("to_wikitext.recurse: string arm vanished")
    arm = str_if[0].body
    subs = []
    for st in arm:
        if isinstance(st, ast.Assign) and unparse(st.targets[0]) == "node" and isinstance(st.value, ast.Call):
            c = st.value
            f = unparse(c.func)
            if f == "re.sub" and len(c.args) == 3 and isinstance(c.args[0], ast.Constant) and isinstance(c.args[1], ast.Constant) and unparse(c.args[2]) == "node":
                subs.append((c.args[0].value, c.args[1].value, st))
            elif f == "node.replace" and len(c.args) == 2 and all(isinstance(a, ast.Constant) for a in c.args):
                subs.append((re.escape(c.args[0].value), c.args[1].value, st))
    for target in ("[[", "]]"):
        hit = None
        for pat, repl, st in subs:
            try:
                if re.fullmatch(pat, target) and not re.fullmatch(pat, target + "x") and not re.fullmatch(pat, "x" + target):
                    if re.search(pat, "a" + target + "b") and target not in repl:
                        hit = (pat, repl)
            except re.error:
                continue
        if hit:
            rr.ok(RECURSE, "{!r} -> {!r}".format(target, hit[1]), {"protects": target, "pattern": hit[0], "replacement": hit[1]})
        else:
            rr.bad(Finding("C19.R3", NE, RECURSE, "protection of {!r}".format(target),
                           "no unconditional substitution rewrites every literal {!r} of a text node on its own: a `[[` and a `]]` that sit in "
                           "two sibling strings (with an inline node between them) are emitted verbatim and re-parse as a link".format(target),
                           str_if[0].lineno))
    ta = ctx.fn("node_expand.to_attrs")
    from ..core import strtpl
    valued = []
    # to_attrs and the module-level helpers it calls (an extracted `_attr_to_str(k, v)`): texts appended or returned
    m_ne = ctx.index.mod("node_expand")
    helpers = [m_ne.funcs[c.func.id] for c in ast.walk(ta) if isinstance(c, ast.Call) and isinstance(c.func, ast.Name) and c.func.id in m_ne.funcs
               and c.func.id not in ("to_attrs", "to_wikitext", "to_html", "to_text")]
    for fn_ in [ta] + helpers:
        for n in walk_no_nested(fn_):
            texts = []
            if isinstance(n, ast.Call) and isinstance(n.func, ast.Attribute) and n.func.attr in ("append", "extend") and n.args:
                texts.append(n.args[0])
            elif isinstance(n, ast.Return) and n.value is not None and fn_ is not ta:
                texts.append(n.value)
            for tx in texts:
                hs = strtpl.holes(strtpl.template(tx))
                if any(before.endswith(("=", '="', "='")) for before, _, _ in hs):
                    valued.append((n, hs, fn_))
    valued_fn = {id(n): f_ for n, _, f_ in valued}
    valued = [(n, hs) for n, hs, _ in valued]
    if not valued:
        raise AnalysisError("to_attrs: the statement that emits name=value was not recognised")
    for n, hs in valued:
        for before, hole, after in hs:
            if not before.endswith(("=", '="', "='")):
                continue
            q = before[-1]
            quoted = q in "\"'" and after.startswith(q)
            escaped = False
            if isinstance(hole, ast.Call) and unparse(hole.func).endswith(("quote_plus", "quote")):
                escaped = True
            elif isinstance(hole, ast.Name):
                vals = [a_.value for a_ in walk_no_nested(valued_fn.get(id(n), ta)) if isinstance(a_, ast.Assign) and a_.lineno <= n.lineno
                        and any(isinstance(t, ast.Name) and t.id == hole.id for t in a_.targets)]
                escaped = bool(vals) and isinstance(vals[-1], ast.Call) and unparse(vals[-1].func).endswith(("quote_plus", "quote"))
            if quoted and escaped:
                rr.ok("node_expand.to_attrs", 'non-empty values are written as name="quoted value"')
            elif not quoted:
                rr.bad(Finding("C19.R3", NE, "node_expand.to_attrs", unparse(n)[:80], "attribute values are not always quoted", n.lineno))
            else:
                rr.bad(Finding("C19.R3", NE, "node_expand.to_attrs", unparse(n)[:80],
                               "attribute values are written between quotes without percent-encoding: a value containing the quote "
                               "character ends the attribute early", n.lineno))
    return rr


def rule_r4(ctx) -> RuleResult:
    rr = RuleResult("C19.R4", "a parser function keeps its colon whenever it has an argument list", min_instances=1)
    arms, _ = _emitter_arms(ctx)
    arm = arms.get("PARSER_FN")
    if arm is None:
        raise AnalysisError("to_wikitext: PARSER_FN arm vanished")
    ifs = [n for st in arm for n in ast.walk(st) if isinstance(n, ast.If) and "':'" in unparse(n)]
    if len(ifs) != 1:
        raise AnalysisError("PARSER_FN emitter: the guard of the ':' could not be identified (inconclusive)")
    t = ifs[0].test
    ts = unparse(t)
    if ts in ("len(node.largs) > 1", "len(node.largs) >= 2", "node.largs[1:]"):
        rr.ok(RECURSE, "':' emitted iff " + ts, {"guard": ts})
    elif isinstance(t, ast.Name) or "join" in ts or "fn_args" in ts or any(
            isinstance(c, ast.Call) and isinstance(c.func, ast.Name) and c.func.id in ("any", "all", "filter", "sum", "max", "min")
            and "largs" in unparse(c) for c in ast.walk(t)):
        # any()/all()/... over the argument list looks at the *content* of the arguments (an empty argument is
        # falsy), not at whether an argument list is present
        rr.bad(Finding("C19.R4", NE, RECURSE, "':' emitted iff " + ts,
                       "the colon depends on the rendered argument text instead of on the presence of an argument list: `{{PAGENAME:}}` "
                       "(one empty argument) is emitted as `{{PAGENAME}}` and re-parses with zero arguments", ifs[0].lineno))
    else:
        raise AnalysisError("PARSER_FN emitter: unrecognised colon guard `{}` (inconclusive)".format(ts))
    return rr


# kinds whose nodes never receive children: pushed and popped in one step by their handler
LEAF_KINDS = {
    "HLINE": "hline_fn pushes and pops at once; the text is regenerated from the kind",
    "MAGIC_WORD": "magicword_fn pushes and pops at once; the word is kept in sarg",
}


class _Content(Flow):
    """state = (children_known_empty, emitted).  `emitted` becomes true when the arm passes
    node.<field> (whole, or element-wise in a loop over it) to recurse()/map(recurse, ...)."""

    def __init__(self, fld: str):
        self.fld = fld

    def _is_fld(self, e):
        return isinstance(e, ast.Attribute) and e.attr == self.fld and isinstance(e.value, ast.Name) and e.value.id == "node"

    def _emits(self, node) -> bool:
        for c in ast.walk(node):
            if isinstance(c, ast.Call) and isinstance(c.func, ast.Name) and c.func.id == "recurse" and c.args:
                a = c.args[0]
                if self._is_fld(a) or (isinstance(a, ast.Subscript) and self._is_fld(a.value)):
                    return True
            if isinstance(c, ast.Call) and isinstance(c.func, ast.Name) and c.func.id == "map" and len(c.args) == 2 \
                    and unparse(c.args[0]) == "recurse" and (self._is_fld(c.args[1]) or (isinstance(c.args[1], ast.Subscript) and self._is_fld(c.args[1].value))):
                return True
        return False

    def transfer_expr(self, node, state):
        if node is None:
            return [state]
        empty, emitted = state
        if self._emits(node):
            emitted = True
        return [(empty, emitted)]

    def branch(self, test, state):
        (st,) = self.transfer_expr(test, state)
        empty, emitted = st
        t = test
        neg = False
        while True:
            if isinstance(t, ast.UnaryOp) and isinstance(t.op, ast.Not):
                t, neg = t.operand, not neg
            elif isinstance(t, ast.Call) and isinstance(t.func, ast.Name) and t.func.id == "bool" and len(t.args) == 1:
                t = t.args[0]   # bool(x) tests what x tests
            elif isinstance(t, ast.Compare) and len(t.ops) == 1 and isinstance(t.left, ast.Call) and unparse(t.left.func) == "len" \
                    and len(t.left.args) == 1 and isinstance(t.comparators[0], ast.Constant) \
                    and ((isinstance(t.ops[0], (ast.Gt, ast.NotEq)) and t.comparators[0].value == 0) or (isinstance(t.ops[0], ast.GtE) and t.comparators[0].value == 1)):
                t = t.left.args[0]   # len(x) > 0
            elif isinstance(t, ast.Compare) and len(t.ops) == 1 and isinstance(t.left, ast.Call) and unparse(t.left.func) == "len" \
                    and len(t.left.args) == 1 and isinstance(t.comparators[0], ast.Constant) and isinstance(t.ops[0], ast.Eq) and t.comparators[0].value == 0:
                t, neg = t.left.args[0], not neg   # len(x) == 0
            else:
                break
        if self._is_fld(t):
            tr, fa = (False, emitted), (True, emitted)
            return ([fa], [tr]) if neg else ([tr], [fa])
        return [st], [st]

    def run_stmt(self, st, states):
        if isinstance(st, ast.For) and (self._is_fld(st.iter) or (isinstance(st.iter, ast.Subscript) and self._is_fld(st.iter.value))) \
                and isinstance(st.target, ast.Name):
            tgt = st.target.id
            body_emits = any(isinstance(c, ast.Call) and isinstance(c.func, ast.Name) and c.func.id == "recurse" and c.args
                             and isinstance(c.args[0], ast.Name) and c.args[0].id == tgt for b in st.body for c in ast.walk(b))
            if body_emits:
                from ..core.flow import Outcome

                return Outcome(fall={(e, True) for e, _ in states})
        return super().run_stmt(st, states)


def rule_r5(ctx) -> RuleResult:
    """No emitter drops a node's content: on every path through the arm of a kind on which the
    content field (children; largs for the argument-carrying kinds) may be non-empty, the field
    is handed to recurse()."""
    rr = RuleResult("C19.R5", "every emitter writes out the node's content on every path where it may be non-empty", min_instances=20)
    arms, level_arm = _emitter_arms(ctx)
    have_args = ctx.index.const("parser", "HAVE_ARGS_KIND_FLAGS")
    have_args_names = {k.name for k in have_args}
    k2l = ctx.index.const("node_expand", "KIND_TO_LEVEL")
    todo = []
    for k, body in arms.items():
        if k.startswith("%"):
            continue
        if k in LEAF_KINDS:
            continue
        if k in have_args_names:
            todo.append((k, body, "largs"))
            if k == "LINK":
                todo.append((k, body, "children"))  # the link trail
        else:
            todo.append((k, body, "children"))
    if level_arm is not None:
        todo.append(("<heading levels>", level_arm, "largs"))
        todo.append(("<heading levels>", level_arm, "children"))
    for k, body, fld in todo:
        w = _Content(fld)
        out = w.run_block(body, {(False, False)})
        finals = set(out.fall) | {s for _, s in out.ret}
        bad = [s for s in finals if not s[0] and not s[1]]
        if bad:
            rr.bad(Finding("C19.R5", NE, RECURSE, "emitter of {}: node.{}".format(k, fld),
                           "there is a path through this emitter on which node.{} may be non-empty and is not written out: the content of "
                           "such a node disappears from the serialised text".format(fld), body[0].lineno))
        else:
            rr.ok(RECURSE, "emitter of {} writes node.{}".format(k, fld), {"kind": k, "field": fld, "paths": len(finals)})
    for k, why in LEAF_KINDS.items():
        rr.informational.append({"kind": k, "leaf": why})
    return rr


# what to_attrs() can write for a table / row attribute line (R3 checks its shape): names, a bare name
# for an empty value, quote_plus()-ed values in double quotes, joined by single blanks
EMITTED_ATTRS = r'''[A-Za-z][A-Za-z0-9-]*(="[A-Za-z0-9_.%+~-]+")?( [A-Za-z][A-Za-z0-9-]*(="[A-Za-z0-9_.%+~-]+")?)*'''


def rule_r6(ctx) -> RuleResult:
    """Writer/reader agreement for attribute lines (`{| ...`, `|- ...`): the serialised attribute
    string is a single text child, which check_for_attributes() hands to parse_attrs().  Whatever
    regex gates that single-string path must accept every string to_attrs() can emit -- including a
    bare name for an empty value -- otherwise the re-parse loses the whole attribute map."""
    from ..core import rx

    rr = RuleResult("C19.R6", "every attribute line the emitter can write is accepted as attributes by the table parser", min_instances=1)
    fn = ctx.fn("parser.check_for_attributes")
    blocks = [n for n in fn.body if isinstance(n, ast.If) and "len(node.children) == 1" in unparse(n.test) and "isinstance" in unparse(n.test)]
    if len(blocks) != 1:
        raise AnalysisError("check_for_attributes: the single-string path vanished")
    gates = [c for st in blocks[0].body for c in ast.walk(st)
             if isinstance(c, ast.Call) and unparse(c.func) in ("re.match", "re.fullmatch", "re.search") and c.args]
    gates += [c for c in ast.walk(blocks[0].test)
              if isinstance(c, ast.Call) and unparse(c.func) in ("re.match", "re.fullmatch", "re.search") and c.args]
    gates = [(g, "parser.check_for_attributes") for g in gates]
    # every other place where a text child is taken for an attribute section: a regex test on the very
    # value that is then passed to parse_attrs()
    for dotted, m, f in ctx.index.all_functions():
        if not dotted.startswith("parser.") or dotted == "parser.check_for_attributes":
            continue
        passed = {unparse(c.args[1]) for c in walk_no_nested(f) if isinstance(c, ast.Call) and unparse(c.func) == "parse_attrs" and len(c.args) == 2
                  and isinstance(c.args[1], ast.Name)}
        if not passed:
            continue
        for c in walk_no_nested(f):
            if not isinstance(c, ast.Call):
                continue
            fn_ = unparse(c.func)
            if fn_ in ("re.match", "re.fullmatch", "re.search") and len(c.args) >= 2 and unparse(c.args[1]) in passed:
                gates.append((c, dotted))
            elif isinstance(c.func, ast.Attribute) and c.func.attr in ("match", "fullmatch", "search") and c.args and unparse(c.args[0]) in passed \
                    and isinstance(c.func.value, ast.Name):
                # compiled pattern: normalise to the re.<method>(pattern, value) shape
                g2 = ast.Call(func=ast.Attribute(value=ast.Name(id="re", ctx=ast.Load()), attr=c.func.attr, ctx=ast.Load()),
                              args=[c.func.value, c.args[0]], keywords=[])
                ast.copy_location(g2, c)
                ast.fix_missing_locations(g2)
                gates.append((g2, dotted))
    if not gates:
        rr.ok("parser.check_for_attributes", "a single text child is accepted as attribute text unconditionally", {"gates": 0})
        return rr
    for g, where in gates:
        try:
            pat = ctx.index.fold("parser", g.args[0])
        except Exception:  # noqa: BLE001
            raise AnalysisError("check_for_attributes: gate pattern {} not foldable".format(unparse(g.args[0])))
        emitted = EMITTED_ATTRS if where == "parser.check_for_attributes" else r"\s*" + EMITTED_ATTRS + r"\s*"
        if unparse(g.func) == "re.search":
            continue  # a search() gate accepts supersets; its anchoring is C03.R11's concern
        cex = rx.included_in_prefix(emitted, str(pat), thorough=ctx.thorough, full=(unparse(g.func) == "re.fullmatch"))
        if cex is None:
            rr.ok(where, "gate {} accepts every emitted attribute line".format(unparse(g.args[0])), {"gate": str(pat)[:80]})
        else:
            rr.bad(Finding("C19.R6", "src/wikitextprocessor/parser.py", where, unparse(g)[:80],
                           "to_attrs() can write the attribute line {!r} (a bare name for an empty value) but this test rejects it: after a "
                           "round trip the row/table has no attributes and the text shows up as content".format(cex), g.lineno))
    return rr


def rule_r8(ctx) -> RuleResult:
    """Writer/reader agreement on empty elements: to_wikitext() writes a childless non-void HTML node
    as `<tag attrs />` and relies on the parser closing such an element at once.  In tag_fn the flag
    computed from the token's trailing `/>` must reach the `_parser_pop` decision unchanged (it is
    assigned once, from the token, and the closing test reads it)."""
    rr = RuleResult("C19.R8", "an element written as `<tag />` is closed by the parser as soon as it is opened", min_instances=2)
    # writer side: the HTML arm emits ' />' for a childless non-void element
    arms, _ = _emitter_arms(ctx)
    html_arm = arms.get("HTML")
    if html_arm is None:
        raise AnalysisError("to_wikitext: HTML arm vanished")
    writes_selfclosing = any(isinstance(c, ast.Constant) and isinstance(c.value, str) and c.value.strip() == "/>" for st in html_arm for c in ast.walk(st))
    if not writes_selfclosing:
        rr.ok(RECURSE, "the emitter never writes the self-closing form")
        return rr
    rr.ok(RECURSE, "childless non-void elements are written as `<tag />`")
    # which tags does the emitter write as a bare `<tag>`?  The condition is evaluated by the constant folder for every tag of
    # the table; each such tag must be one the parser closes by itself (`no-end-tag`), otherwise the element stays open
    # after a round trip and swallows what follows
    import copy as _copy
    def _appends(block, pred) -> bool:   # a direct statement of the block appends a literal satisfying pred
        return any(isinstance(b, ast.Expr) and isinstance(b.value, ast.Call) and unparse(b.value.func) == "parts.append" and b.value.args
                   and isinstance(b.value.args[0], ast.Constant) and isinstance(b.value.args[0].value, str) and pred(b.value.args[0].value) for b in block)

    bare_ifs = [n for st in html_arm for n in ast.walk(st) if isinstance(n, ast.If) and n.orelse
                and _appends(n.body, lambda v: v == ">") and _appends(n.orelse, lambda v: v.strip() == "/>")]
    table = ctx.index.const("wikihtml", "ALLOWED_HTML_TAGS")
    if len(bare_ifs) != 1:
        raise AnalysisError("to_wikitext: the test that chooses between `>` and ` />` for a childless element was not recognised")
    bare_by_tag: dict = {}
    if isinstance(table, dict):
        test = bare_ifs[0].test
        wrong, undecided = [], 0
        for tag, data in sorted(table.items()):
            class T(ast.NodeTransformer):
                def visit_Attribute(self, n):
                    if unparse(n) == "node.sarg":
                        return ast.copy_location(ast.Constant(value=tag), n)
                    return self.generic_visit(n)
            e = T().visit(_copy.deepcopy(test))
            ast.fix_missing_locations(e)
            try:
                bare = bool(ctx.index.fold("node_expand", e))
            except Exception:  # noqa: BLE001
                undecided += 1
                continue
            bare_by_tag[tag] = bare
            if bare and not (isinstance(data, dict) and data.get("no-end-tag")):
                wrong.append(tag)
        if undecided:
            raise AnalysisError("to_wikitext: the condition `{}` under which a childless element is written as a bare start tag cannot be "
                                "folded for {} tags (inconclusive)".format(unparse(test)[:60], undecided))
        if wrong:
            rr.bad(Finding("C19.R8", NE, RECURSE, unparse(test)[:80],
                           "a childless <{}> is written as a bare start tag, but the parser closes an element by itself only when the tag "
                           "table marks it `no-end-tag`: after a round trip the element stays open and takes the following siblings as "
                           "children (also: {})".format(wrong[0], ", ".join(wrong[1:6])), bare_ifs[0].lineno))
        else:
            rr.ok(RECURSE, "bare start tags are written only for tags the parser closes by itself", {"tags_checked": len(table)})
    fn = ctx.fn("parser.tag_fn")
    flag_assigns = [n for n in walk_no_nested(fn) if isinstance(n, ast.Assign) and len(n.targets) == 1 and isinstance(n.targets[0], ast.Name)
                    and isinstance(n.value, ast.Call) and isinstance(n.value.func, ast.Attribute) and n.value.func.attr == "endswith"
                    and n.value.args and isinstance(n.value.args[0], ast.Constant) and n.value.args[0].value == "/>"]
    if len(flag_assigns) != 1:
        raise AnalysisError("tag_fn: the flag computed from the token's trailing '/>' was not found")
    flag = flag_assigns[0].targets[0].id
    others = [n for n in walk_no_nested(fn) if isinstance(n, (ast.Assign, ast.AugAssign, ast.AnnAssign)) and n is not flag_assigns[0]
              and any(isinstance(t, ast.Name) and t.id == flag for t in (n.targets if isinstance(n, ast.Assign) else [n.target]))]
    for n in others:
        rr.bad(Finding("C19.R8", "src/wikitextprocessor/parser.py", "parser.tag_fn", unparse(n)[:70],
                       "the self-closing flag `{}` is recomputed after it was read from the token: for some tags `<tag />` no longer closes the "
                       "element, but the serialiser writes every childless element that way -- after a round trip the element swallows what follows".format(flag),
                       n.lineno))
    pops = [n for n in walk_no_nested(fn) if isinstance(n, ast.If) and any(isinstance(x, ast.Name) and x.id == flag for x in ast.walk(n.test))
            and any(isinstance(c, ast.Call) and unparse(c.func) == "_parser_pop" for st in n.body for c in ast.walk(st))]
    plain = [n for n in pops if isinstance(n.test, ast.BoolOp) and isinstance(n.test.op, ast.Or) and any(isinstance(v, ast.Name) and v.id == flag for v in n.test.values)
             or (isinstance(n.test, ast.Name) and n.test.id == flag)]
    # the element pushed on the general path: the test that closes it at once, evaluated for every tag that the emitter writes
    # as `<tag />`, with the flag set -- it has to hold for each of them
    pushes = [n for n in walk_no_nested(fn) if isinstance(n, (ast.Assign, ast.Expr)) and isinstance(n.value, ast.Call)
              and unparse(n.value.func) == "_parser_push" and len(n.value.args) > 1 and unparse(n.value.args[1]) == "NodeKind.HTML"]
    if bare_by_tag and pushes:
        push = pushes[-1]
        blk = next((b for b in ([fn.body] + [getattr(x, f_) for x in walk_no_nested(fn) for f_ in ("body", "orelse") if isinstance(getattr(x, f_, None), list)])
                    if any(y is push for y in b)), None)
        after = blk[[i for i, y in enumerate(blk) if y is push][0] + 1:] if blk else []
        closing = [n for n in after if isinstance(n, ast.If) and any(isinstance(c, ast.Call) and unparse(c.func) == "_parser_pop" for st in n.body for c in ast.walk(st))]
        if len(closing) != 1:
            raise AnalysisError("tag_fn: the test that closes a just-opened element was not recognised")
        ctest = closing[0].test
        # locals assigned once between the push and the test are replaced by their values
        local_vals = {n.targets[0].id: n.value for n in after if isinstance(n, ast.Assign) and len(n.targets) == 1 and isinstance(n.targets[0], ast.Name)
                      and n.lineno < closing[0].lineno}
        # the variable that holds the tag name: what is stored into the new node's sarg
        tagvars = [unparse(n.value) for n in after if isinstance(n, ast.Assign) and len(n.targets) == 1 and unparse(n.targets[0]).endswith(".sarg")
                   and isinstance(n.value, ast.Name)]
        tagvar = tagvars[0] if tagvars else "name"
        special = {c.value for n in walk_no_nested(fn) if isinstance(n, ast.Compare) and n.lineno < push.lineno and unparse(n.left) == tagvar
                   for c in ast.walk(n) if isinstance(c, ast.Constant) and isinstance(c.value, str)}
        stay_open, undecided = [], 0
        for tag, data in sorted(table.items()):
            if bare_by_tag.get(tag) or tag in special:
                continue
            class T2(ast.NodeTransformer):
                def visit_Name(self, n):
                    if n.id == flag:
                        return ast.copy_location(ast.Constant(value=True), n)
                    if n.id == tagvar:
                        return ast.copy_location(ast.Constant(value=tag), n)
                    if n.id in local_vals:
                        return self.visit(_copy.deepcopy(local_vals[n.id]))
                    return n
                def visit_Attribute(self, n):
                    if unparse(n) in ("ctx.allowed_html_tags", "ctx.ALLOWED_HTML_TAGS"):
                        return ast.copy_location(ast.Name(id="TAGS__", ctx=ast.Load()), n)
                    return self.generic_visit(n)
            e = T2().visit(_copy.deepcopy(ctest))
            ast.fix_missing_locations(e)
            try:
                closes = bool(ctx.index.fold("parser", e, {"TAGS__": table}))
            except Exception:  # noqa: BLE001
                undecided += 1
                continue
            if not closes:
                stay_open.append(tag)
        if undecided:
            raise AnalysisError("tag_fn: the closing test `{}` cannot be folded for {} tags (inconclusive)".format(unparse(ctest)[:60], undecided))
        if stay_open:
            rr.bad(Finding("C19.R8", "src/wikitextprocessor/parser.py", "parser.tag_fn", unparse(ctest)[:80],
                           "the serialiser writes a childless <{}> as `<{} />`, but for that tag the parser does not close the element on the "
                           "trailing slash: after a round trip the element stays open and takes the following siblings as children (also: {})".format(
                               stay_open[0], stay_open[0], ", ".join(stay_open[1:8])), closing[0].lineno))
        else:
            rr.ok("parser.tag_fn", "`<tag />` closes the element for every tag the emitter writes that way", {"test": unparse(ctest)[:80]})
    if plain and not others:
        rr.ok("parser.tag_fn", "`{}` alone suffices to close the element: {}".format(flag, unparse(plain[-1].test)), {"test": unparse(plain[-1].test)})
    elif not plain:
        rr.bad(Finding("C19.R8", "src/wikitextprocessor/parser.py", "parser.tag_fn", "if ... {} ...: _parser_pop".format(flag),
                       "no closing test in which the self-closing flag alone is sufficient", fn.lineno))
    return rr


def rule_r7(ctx) -> RuleResult:
    """Serialiser state (a nesting depth, an 'inside an argument list' count) is back at its entry value
    on every exit of the function that changes it (the package-wide paired-counter lint of C16.R5,
    restricted to node_expand)."""
    from . import c16

    return c16.paired_counter_findings(ctx, "C19.R7", only_module="node_expand")


def rule_r9(ctx) -> RuleResult:
    """Writer/reader agreement on the separator between a cell's (or caption's) attributes and its content.  The reader is the
    branch of table_cell_fn that, on a mid-line token equal to a constant, takes the single text child collected so far as the
    attribute section of a caption / header cell / data cell; the writer is the emitter arm of those kinds.  Whatever text the
    emitter writes between `to_attrs(node)` and the content has to be that token -- for every kind, the header cell included
    (`! a="1" | x`, not `! a="1" ! x`)."""
    from ..core import strtpl

    rr = RuleResult("C19.R9", "attributes of cells and captions are separated from the content by the token the table parser splits at", min_instances=2)
    fn = ctx.fn("parser.table_cell_fn")
    reader = None
    for n in walk_no_nested(fn):
        if isinstance(n, ast.If) and any(isinstance(c, ast.Call) and unparse(c.func) == "parse_attrs" for b in n.body for c in ast.walk(b)):
            toks = [c.comparators[0].value for c in ast.walk(n.test) if isinstance(c, ast.Compare) and len(c.ops) == 1 and isinstance(c.ops[0], ast.Eq)
                    and unparse(c.left) == "token" and isinstance(c.comparators[0], ast.Constant)]
            kinds = set()
            for c in [x for b in n.body for x in ast.walk(b)]:
                if isinstance(c, ast.Compare) and unparse(c.left) == "node.kind" and isinstance(c.ops[0], ast.In):
                    kinds |= set(P.kind_name(ctx, c.comparators[0]) or [])
            if toks and kinds:
                reader = (toks[0], kinds)
    if reader is None:
        raise AnalysisError("table_cell_fn: the branch that takes the text before a mid-line token as the attribute section was not recognised")
    sep, kinds = reader
    rr.instances["reader"] = {"separator": sep, "kinds": sorted(kinds)}
    arms, _ = _emitter_arms(ctx)
    for kind in sorted(kinds):
        arm = arms.get(kind)
        if arm is None:
            continue
        seen = 0
        for st in arm:
            for n in ast.walk(st):
                if not (isinstance(n, ast.Call) and unparse(n.func) == "parts.append" and n.args):
                    continue
                tpl = strtpl.template(n.args[0])
                is_attrs = lambda h: not isinstance(h, str) and "to_attrs" in unparse(h)  # noqa: E731
                idx = [i for i, p_ in enumerate(tpl) if is_attrs(p_)]
                for i in idx:
                    nxt = [j for j in range(i + 1, len(tpl)) if not isinstance(tpl[j], str)]
                    if not nxt:
                        continue
                    between = "".join(p_ for p_ in tpl[i + 1:nxt[0]] if isinstance(p_, str))
                    seen += 1
                    if between.strip(" ") == sep:
                        rr.ok(RECURSE, "{}: attributes {!r} content".format(kind, between), {"kind": kind, "between": between})
                    else:
                        rr.bad(Finding("C19.R9", NE, RECURSE, "emitter of {}: {!r} between the attributes and the content".format(kind, between),
                                       "the table parser takes the text before a mid-line {!r} as the attribute section of a {}; the emitter writes "
                                       "{!r} there, so after re-parsing the attributes are gone and their text is part of the content".format(
                                           sep, kind, between.strip(" ")), n.lineno))
        if seen == 0:
            rr.informational.append({"kind": kind, "note": "attributes and content are not written by one append; not judged"})
    if not rr.cases and not rr.findings:
        raise AnalysisError("no emitter writes attributes and content in one text; the separator rule has nothing to decide")
    return rr


TEXT_ALTERING = {"strip", "lstrip", "rstrip", "replace", "lower", "upper", "title", "capitalize", "casefold", "swapcase", "removeprefix", "removesuffix",
                 "expandtabs", "translate", "splitlines", "split"}


def rule_r10(ctx) -> RuleResult:
    """The serialised text of a node's children and arguments goes into the output as produced: nothing between
    `recurse(<content>)` and `parts.append(...)` trims, replaces or re-cases it.  (White space at the start of a cell, a
    caption or a link label is content; `| a= 1 |  x` and `| a= 1 |x` are different cells.)"""
    rr = RuleResult("C19.R10", "serialised content is written out unaltered", min_instances=10)
    fn = ctx.fn(RECURSE)
    str_if = [s_ for s_ in fn.body if isinstance(s_, ast.If) and unparse(s_.test) == "isinstance(node, str)"]
    skip = {id(n) for s_ in str_if for n in ast.walk(s_)}   # the string arm escapes [[ and ]] on purpose (R3)
    produced = set()
    for n in walk_no_nested(fn):
        if isinstance(n, ast.Assign) and len(n.targets) == 1 and isinstance(n.targets[0], ast.Name) and id(n) not in skip:
            if any(isinstance(c, ast.Call) and unparse(c.func) in ("recurse", "map") and (unparse(c.func) == "recurse" or unparse(c.args[0]) == "recurse")
                   for c in ast.walk(n.value) if isinstance(c, ast.Call) and c.args):
                produced.add(n.targets[0].id)

    def is_content(e) -> bool:
        if isinstance(e, ast.Name) and e.id in produced:
            return True
        if isinstance(e, ast.Call) and unparse(e.func) == "recurse":
            return True
        if isinstance(e, ast.Call) and isinstance(e.func, ast.Attribute) and e.func.attr == "join" and e.args:
            return any(isinstance(c, ast.Call) and (unparse(c.func) == "recurse" or (unparse(c.func) == "map" and c.args and unparse(c.args[0]) == "recurse"))
                       for c in ast.walk(e.args[0]))
        return False

    n_uses = 0
    for n in walk_no_nested(fn):
        if id(n) in skip:
            continue
        if isinstance(n, ast.Call) and isinstance(n.func, ast.Attribute) and is_content(n.func.value):
            if n.func.attr in TEXT_ALTERING:
                rr.bad(Finding("C19.R10", NE, RECURSE, unparse(n)[:80],
                               "the serialised content is altered by .{}() before it is written: white space / text that belongs to the node's "
                               "content is missing after a round trip".format(n.func.attr), n.lineno))
            continue
        if isinstance(n, ast.Call) and unparse(n.func) == "recurse":
            n_uses += 1
            rr.ok(RECURSE, "recurse(...) result used as produced (line {})".format(n.lineno))
    if n_uses == 0:
        raise AnalysisError("to_wikitext.recurse: no recursive serialisation call found")
    return rr


def rule_r11(ctx) -> RuleResult:
    """recurse() accepts strings, lists and nodes and raises RuntimeError("invalid WikiNode") for anything else -- None
    included.  The fields the node constructor initialises to None (declared Optional there: `definition`, `temp_head`) may be
    handed to recurse() only where the path conditions establish that the field is set.  The parser itself serialises subtrees
    while it parses (check_for_attributes), so an unguarded use is also an exception out of parse() (seed C01-7B: the
    definition of a `;term` item written out unconditionally)."""
    rr = RuleResult("C19.R11", "fields that may be None are serialised only under a test that they are set", min_instances=1)
    init = ctx.fn("parser.WikiNode.__init__")
    optional = set()
    for n in walk_no_nested(init):
        tgt = val = None
        if isinstance(n, ast.AnnAssign):
            tgt, val, ann = n.target, n.value, unparse(n.annotation)
        elif isinstance(n, ast.Assign) and len(n.targets) == 1:
            tgt, val, ann = n.targets[0], n.value, ""
        if isinstance(tgt, ast.Attribute) and isinstance(tgt.value, ast.Name) and tgt.value.id == "self" \
                and ((isinstance(val, ast.Constant) and val.value is None) or ann.startswith("Optional")):
            optional.add(tgt.attr)
    if not optional:
        raise AnalysisError("WikiNode.__init__: no field initialised to None found (2 confirmed by hand)")
    rr.instances["optional_fields"] = sorted(optional)
    m = ctx.index.mod("node_expand")
    n_uses = 0
    for q, fn in m.funcs.items():
        for c in walk_no_nested(fn):
            if not (isinstance(c, ast.Call) and c.args):
                continue
            f = unparse(c.func)
            args = []
            if f.split(".")[-1] == "recurse":
                args = [c.args[0]]
            elif f == "map" and len(c.args) == 2 and unparse(c.args[0]).split(".")[-1] == "recurse":
                args = [c.args[1]]
            for a in args:
                if isinstance(a, ast.Attribute) and a.attr in optional and isinstance(a.value, ast.Name):
                    n_uses += 1
                    conds = X.path_conditions(m.parents, c)
                    fld = unparse(a)
                    guarded = any((unparse(t) == fld and truth) or
                                  (isinstance(t, ast.Compare) and unparse(t.left) == fld and isinstance(t.comparators[0], ast.Constant)
                                   and t.comparators[0].value is None and ((isinstance(t.ops[0], ast.IsNot) and truth) or (isinstance(t.ops[0], ast.Is) and not truth)))
                                  for t, truth in conds)
                    # the call may sit inside an expression statement: take the conditions of its statement
                    if not guarded:
                        st = c
                        while st in m.parents and not isinstance(st, ast.stmt):
                            st = m.parents[st]
                        conds = X.path_conditions(m.parents, st)
                        guarded = any((unparse(t) == fld and truth) or
                                      (isinstance(t, ast.Compare) and unparse(t.left) == fld and isinstance(t.comparators[0], ast.Constant)
                                       and t.comparators[0].value is None and ((isinstance(t.ops[0], ast.IsNot) and truth) or (isinstance(t.ops[0], ast.Is) and not truth)))
                                      for t, truth in conds)
                    if guarded:
                        rr.ok("node_expand." + q, "{} serialised under a test that it is set".format(fld))
                    else:
                        rr.bad(Finding("C19.R11", NE, "node_expand." + q, unparse(c)[:70],
                                       "`{}` is None unless the parser filled it in, and recurse(None) raises RuntimeError: serialising such a node "
                                       "fails -- also inside parse(), which serialises table attribute candidates while parsing".format(fld), c.lineno))
    if n_uses == 0:
        rr.ok("node_expand", "no Optional field of WikiNode is handed to recurse()", {"optional_fields": sorted(optional)})
    return rr


def rule_r12(ctx) -> RuleResult:
    """Content the parser keeps outside `children`/`largs`: a field of WikiNode that starts as None and that the parser fills
    with node content when it closes a node of some kind (today: `definition` of a `;term:definition` list item; `temp_head`
    is only a scratch field, reset to None in the same place) has to be written out by the emitter arm of that kind,
    otherwise the content is gone after a round trip."""
    rr = RuleResult("C19.R12", "content fields the parser fills besides children/largs are written out by the emitter of that kind", min_instances=1)
    init = ctx.fn("parser.WikiNode.__init__")
    optional = {n.target.attr for n in walk_no_nested(init) if isinstance(n, ast.AnnAssign) and isinstance(n.target, ast.Attribute)
                and isinstance(n.value, ast.Constant) and n.value.value is None}
    optional |= {n.targets[0].attr for n in walk_no_nested(init) if isinstance(n, ast.Assign) and len(n.targets) == 1
                 and isinstance(n.targets[0], ast.Attribute) and isinstance(n.value, ast.Constant) and n.value.value is None}
    pm = ctx.index.mod("parser")
    filled = {}   # field -> set of kinds
    scratch = set()
    for q, fn in pm.funcs.items():
        for n in walk_no_nested(fn):
            if isinstance(n, ast.Assign) and len(n.targets) == 1 and isinstance(n.targets[0], ast.Attribute) and n.targets[0].attr in optional \
                    and isinstance(n.targets[0].value, ast.Name) and n.targets[0].value.id == "node":
                fld = n.targets[0].attr
                if isinstance(n.value, ast.Constant) and n.value.value is None:
                    if q == "_parser_pop":
                        scratch.add(fld)   # cleared when the node is closed: never visible in a finished tree
                    continue
                kinds = set()
                for t, truth in X.path_conditions(pm.parents, n):
                    for c in ast.walk(t):
                        if truth and isinstance(c, ast.Compare) and unparse(c.left) == "node.kind" and isinstance(c.ops[0], (ast.Eq, ast.In)):
                            kinds |= set(P.kind_name(ctx, c.comparators[0]) or [])
                filled.setdefault(fld, set()).update(kinds or {"?"})
    arms, _ = _emitter_arms(ctx)
    judged = 0
    for fld, kinds in sorted(filled.items()):
        if fld in scratch:
            rr.informational.append({"field": fld, "note": "scratch field: set back to None when the node is closed"})
            continue
        if "?" in kinds:
            raise AnalysisError("parser: the kind of node whose `{}` is filled could not be read from the guards around the store".format(fld))
        for k in sorted(kinds):
            arm = arms.get(k)
            if arm is None:
                continue
            judged += 1
            if any(isinstance(a, ast.Attribute) and a.attr == fld for st in arm for a in ast.walk(st)):
                rr.ok(RECURSE, "{}: node.{} is written out".format(k, fld))
            else:
                rr.bad(Finding("C19.R12", NE, RECURSE, "emitter of {}: node.{} is never read".format(k, fld),
                               "the parser moves part of the node's content into `{}` (for `;term:definition` items the definition), and the "
                               "emitter of {} never writes it: `;term:def` is serialised as `;term`".format(fld, k), arm[0].lineno))
    if judged == 0:
        rr.ok("parser", "the parser fills no content field besides children/largs")
    return rr


def rule_r13(ctx) -> RuleResult:
    """`Wtp.node_to_wikitext` is the public entry of the serialiser.  Whatever it is given -- a node, a list of children, a bare
    string -- has to go through to_wikitext(), because that is where literal `[[`/`]]` in text are protected from being read
    back as a link.  A wrapper that answers some inputs itself bypasses that (seed C19-9B: a bare `str` returned unchanged)."""
    rr = RuleResult("C19.R13", "node_to_wikitext hands every input to to_wikitext", min_instances=1)
    dotted = "core.Wtp.node_to_wikitext"
    fn = ctx.fn(dotted)
    first = fn.args.args[1].arg if len(fn.args.args) > 1 else "node"
    rets = [r for r in walk_no_nested(fn) if isinstance(r, ast.Return)]
    if not rets:
        raise AnalysisError("node_to_wikitext: no return found")
    for r in rets:
        v = r.value
        if isinstance(v, ast.Name):
            defs = [n.value for n in walk_no_nested(fn) if isinstance(n, ast.Assign) and len(n.targets) == 1 and unparse(n.targets[0]) == v.id]
            if len(defs) == 1:
                v = defs[0]
        if isinstance(v, ast.Call) and unparse(v.func).split(".")[-1] == "to_wikitext":
            rr.ok(dotted, "return to_wikitext(...)")
        elif v is not None and any(isinstance(x, ast.Name) and x.id == first for x in ast.walk(v)) \
                and not any(isinstance(c, ast.Call) and unparse(c.func).split(".")[-1] == "to_wikitext" for c in ast.walk(v)):
            rr.bad(Finding("C19.R13", "src/wikitextprocessor/core.py", dotted, unparse(r)[:70],
                           "this path returns (part of) the input without passing it through to_wikitext(): text handed to the public "
                           "serialiser keeps its literal `[[...]]` unprotected and is read back as a link", r.lineno))
        else:
            raise AnalysisError("node_to_wikitext: return `{}` not recognised".format(unparse(r)[:50]))
    return rr


def rule_r14(ctx) -> RuleResult:
    """The round trip parses twice on one page context: `parse(to_wikitext(parse(x)))`.  The second parse reads the tree of the
    first only if it starts from the same parser state -- a mode flag the first parse left set (an unclosed `<pre>` sets
    `pre_parse`) makes the re-parse return plain text where the first returned nodes (seed C19-10B).  Shared with C01.R7."""
    from ..core.report import shared
    from . import c01

    return shared(c01.rule_r7(ctx), "C19.R14", "the re-parse of the serialised text starts from the same parser state as the first parse (shared with C01.R7)",
                  "the second parse of the round trip runs in the mode the first one ended in and returns a different tree", min_instances=5)


def run(ctx) -> list:
    return [rule_r1(ctx), rule_r2(ctx), rule_r3(ctx), rule_r4(ctx), rule_r5(ctx), rule_r6(ctx), rule_r7(ctx), rule_r8(ctx), rule_r9(ctx), rule_r10(ctx), rule_r11(ctx), rule_r12(ctx), rule_r13(ctx), rule_r14(ctx)]
