"""C20 -- concurrent worker contexts on one database.

Interleavings are not enumerated.  Four effect/race rules are decided on the
code reachable from the worker entry points (constructor, start_page, expand,
parse, node_to_*):

R1  every statement that writes table `pages` is (a) guarded by an absence test
    of the same key, (b) the guard is *effective*: the constant part of the key
    is a fixed point of the lookup's title normalisation, otherwise the test
    never succeeds and every worker rewrites the row, and (c) followed by a
    commit on every path to the function's exit (an open write transaction
    holds SQLite's write lock for the worker's lifetime).
R2  no check-then-act on a shared file path at start-up without a lock.
R3  no explicit/deferred transaction that spans a read and a later write on the
    worker path (SQLITE_BUSY_SNAPSHOT on upgrade cannot be waited out).
R4  the connection is opened with check_same_thread=False semantics unchanged
    and the schema is created idempotently (CREATE ... IF NOT EXISTS).
"""

from __future__ import annotations

import ast

from ..core.callgraph import CallGraph
from ..core.flow import Flow
from ..core.index import Unfoldable, unparse, walk_no_nested
from ..core.report import AnalysisError, Finding, RuleResult
from ..core.sqlfacts import SqlFacts

EXPLANATION = (
    "Effect analysis over the call-graph closure of the worker entry points: which reachable "
    "statements write the shared database or shared files, under which guard, inside which "
    "transaction scope, and whether the write is committed before the function returns. "
    "Thin with respect to the property: schedules are not enumerated; the rules decide "
    "necessary conditions for workers not to disturb each other or the stored pages."
)
ASSUMPTIONS = [
    "worker entry points are Wtp.__init__, start_page, expand, parse, node_to_wikitext/html/text",
    "python's sqlite3 opens an implicit transaction at the first DML statement and holds the write lock until commit",
    "calls are resolved by the name-based call graph of the package (callbacks supplied by users are not followed)",
]
ENTRIES = [
    "core.Wtp.__init__", "core.Wtp.start_page", "core.Wtp.expand", "core.Wtp.parse",
    "core.Wtp.node_to_wikitext", "core.Wtp.node_to_html", "core.Wtp.node_to_text",
]
WRITER_METHODS = {"add_page", "set_template_pre_expand"}


def _lookup_normalisation(ctx) -> list:
    """[(old, new)] for `title = title.replace(old, new)` statements of get_page"""
    gp = ctx.fn("core.Wtp.get_page")
    out = []
    for n in walk_no_nested(gp):
        if isinstance(n, ast.Assign) and len(n.targets) == 1 and unparse(n.targets[0]) == "title" \
                and isinstance(n.value, ast.Call) and isinstance(n.value.func, ast.Attribute) \
                and n.value.func.attr == "replace" and unparse(n.value.func.value) == "title" \
                and len(n.value.args) == 2 and all(isinstance(a, ast.Constant) for a in n.value.args):
            out.append((n.value.args[0].value, n.value.args[1].value))
    return out


def _const_parts(e: ast.AST) -> list:
    return [n.value for n in ast.walk(e) if isinstance(n, ast.Constant) and isinstance(n.value, str)]


class Committed(Flow):
    """state: dirty (uncommitted write) bool"""

    def __init__(self, write_pred):
        self.write_pred = write_pred

    def transfer_expr(self, node, state):
        if node is None:
            return [state]
        calls = [n for n in ast.walk(node) if isinstance(n, ast.Call)]
        calls.sort(key=lambda n: (n.end_lineno, n.end_col_offset))
        for c in calls:
            if self.write_pred(c):
                state = True
            elif unparse(c.func).endswith("db_conn.commit"):
                state = False
        return [state]


def rule_r1(ctx, cg: CallGraph, sf: SqlFacts) -> RuleResult:
    rr = RuleResult("C20.R1", "writes to `pages` on the worker path are guarded, effectively, and committed", min_instances=3)
    closure = cg.closure(ENTRIES)
    rr.instances["worker_closure_functions"] = len(closure)
    writers_sql = {s.function for s in sf.on_table("pages") if s.writes}
    norm = _lookup_normalisation(ctx)
    rr.instances["lookup_normalisation"] = norm
    sites = []
    for dotted in sorted(closure):
        if dotted in writers_sql:
            continue  # the writer primitive itself; its callers carry the obligation
        mn = dotted.split(".")[0]
        f = ctx.index.func(dotted)
        for n in walk_no_nested(f):
            if isinstance(n, ast.Call) and isinstance(n.func, ast.Attribute) and n.func.attr in WRITER_METHODS:
                sites.append((dotted, f, n))
    # direct SQL writes in closure functions other than the writer primitives' own bodies
    for s in sf.on_table("pages"):
        if s.writes and s.function in closure and s.function.split(".")[-1] not in WRITER_METHODS:
            rr.bad(Finding("C20.R1", s.relfile, s.function, s.text[:80],
                           "a worker-path function writes table pages with its own SQL", s.call.lineno))
    if not sites:
        raise AnalysisError("C20.R1: no writer call on the worker path (1 confirmed by hand: add_empty_sandbox_lua_module)")
    for dotted, f, call in sites:
        relfile = ctx.index.mod(dotted.split(".")[0]).relpath
        ctx.touched(dotted, relfile)
        # (a) enclosing `if not <x>.page_exists(K...)` with the same key
        guard = None
        parents = ctx.index.mod(dotted.split(".")[0]).parents
        n = call
        while n in parents:
            n = parents[n]
            if isinstance(n, ast.If) and isinstance(n.test, ast.UnaryOp) and isinstance(n.test.op, ast.Not) \
                    and isinstance(n.test.operand, ast.Call) and unparse(n.test.operand.func).endswith(".page_exists"):
                guard = n
                break
            if isinstance(n, (ast.FunctionDef, ast.AsyncFunctionDef)):
                break
        label = unparse(call)[:70]
        if guard is None:
            rr.bad(Finding("C20.R1", relfile, dotted, label, "this write on the worker path is not guarded by an absence test", call.lineno))
            continue
        gk = [unparse(a) for a in guard.test.operand.args[:2]]
        wk = [unparse(a) for a in call.args[:2]]
        if gk == wk:
            rr.ok(dotted, "guard key == write key " + repr(gk), {"fn": dotted, "guard": unparse(guard.test), "write": label})
        else:
            rr.bad(Finding("C20.R1", relfile, dotted, label,
                           "the absence test looks up {} but the write stores {}".format(gk, wk), call.lineno))
        # (b) effectiveness: constant parts of the key survive the lookup normalisation
        consts = _const_parts(guard.test.operand.args[0]) if guard.test.operand.args else []
        broken = [(c, o, nw) for c in consts for (o, nw) in norm if o in c]
        if broken:
            c, o, nw = broken[0]
            rr.bad(Finding("C20.R1", relfile, dotted, "page_exists key constant {!r}".format(c),
                           "the lookup rewrites {!r} to {!r} in titles but add_page stores the title verbatim, so this absence test "
                           "never finds the row it guards: every worker context rewrites and commits the page on its first Lua use".format(o, nw),
                           guard.lineno, {"constant": c, "normalisation": [o, nw]}))
        else:
            rr.ok(dotted, "guard key is a fixed point of the lookup normalisation")
        # (c) committed on every path to exit
        w = Committed(lambda c2: isinstance(c2.func, ast.Attribute) and c2.func.attr in WRITER_METHODS)
        o = w.run_function(f, [False])
        dirty_exits = [nd for nd, st in o.ret if st]
        if dirty_exits:
            rr.bad(Finding("C20.R1", relfile, dotted, "exit after {} without commit".format(label),
                           "the function can return with an uncommitted write; the worker keeps SQLite's write lock until it closes "
                           "and other workers fail with 'database is locked'", getattr(dirty_exits[0], "lineno", f.lineno)))
        else:
            rr.ok(dotted, "write is committed before every exit")
    return rr


def rule_r2(ctx, cg: CallGraph) -> RuleResult:
    rr = RuleResult("C20.R2", "no unlocked check-then-act on a shared file path at start-up", min_instances=1)
    closure = cg.closure(ENTRIES)
    for dotted in sorted(closure):
        f = ctx.index.func(dotted)
        relfile = ctx.index.mod(dotted.split(".")[0]).relpath
        for n in walk_no_nested(f):
            if not isinstance(n, ast.If):
                continue
            t = n.test
            if isinstance(t, ast.UnaryOp) and isinstance(t.op, ast.Not):
                t = t.operand
            if not (isinstance(t, ast.Call) and isinstance(t.func, ast.Attribute) and t.func.attr in ("exists", "is_file")):
                continue
            subject = unparse(t.func.value)
            if "db_path" not in subject:
                continue  # only paths other processes operate on
            acts = [c for b in n.body for c in ast.walk(b) if isinstance(c, ast.Call) and isinstance(c.func, ast.Attribute)
                    and c.func.attr in ("rename", "replace", "unlink") and "db_path" in unparse(c)]
            locked = any(isinstance(c, ast.Call) and any(k in unparse(c.func) for k in ("flock", "lockf", "FileLock", "O_EXCL"))
                         for c in ast.walk(f))
            ctx.touched(dotted, relfile)
            if acts and not locked:
                rr.bad(Finding("C20.R2", relfile, dotted,
                               "if {}: {} on db paths".format(unparse(n.test), "/".join(sorted({a.func.attr for a in acts}))),
                               "check-then-act on a path shared by all workers without inter-process locking: two workers that both "
                               "see the backup race on unlink/rename (the loser fails with FileNotFoundError after deleting the "
                               "database the winner has just restored)", n.lineno))
            elif acts:
                rr.ok(dotted, unparse(n.test), {"fn": dotted, "locked": True})
    if rr.obligations == 0:
        rr.ok("core.Wtp.create_db", "no check-then-act on db paths at start-up")
    return rr


def rule_r3(ctx, cg: CallGraph, sf: SqlFacts) -> RuleResult:
    rr = RuleResult("C20.R3", "no transaction scope spans a read and a later write on the worker path", min_instances=1)
    closure = cg.closure(ENTRIES)
    readers = cg.reaches({"core.Wtp.get_page"}) | {"core.Wtp.get_page"}
    n_scopes = 0
    for dotted in sorted(closure):
        f = ctx.index.func(dotted)
        relfile = ctx.index.mod(dotted.split(".")[0]).relpath
        scopes = []
        for n in walk_no_nested(f):
            if isinstance(n, ast.With):
                for it in n.items:
                    if unparse(it.context_expr).endswith("db_conn"):
                        scopes.append((n, n.body, "with " + unparse(it.context_expr)))
        # explicit BEGIN: scope = rest of the function after the statement
        for s in sf.in_function(dotted):
            if s.text.upper().startswith("BEGIN") and "IMMEDIATE" not in s.text.upper() and "EXCLUSIVE" not in s.text.upper():
                scopes.append((s.call, [st for st in f.body], "BEGIN (deferred)"))
        for node, body, label in scopes:
            n_scopes += 1
            has_read = has_write = False
            for b in body:
                for c in ast.walk(b):
                    if isinstance(c, ast.Call):
                        callees = cg.callees_in(dotted, c)
                        if callees & readers or (isinstance(c.func, ast.Attribute) and c.func.attr == "execute"
                                                 and c.args and "SELECT" in unparse(c.args[0]).upper()):
                            has_read = True
                        if isinstance(c.func, ast.Attribute) and c.func.attr in WRITER_METHODS:
                            has_write = True
                        if isinstance(c.func, ast.Attribute) and c.func.attr == "execute" and c.args \
                                and any(k in unparse(c.args[0]).upper() for k in ("INSERT", "UPDATE", "DELETE")):
                            has_write = True
            if has_read and has_write:
                rr.bad(Finding("C20.R3", relfile, dotted, label,
                               "a deferred transaction that first reads and then writes must upgrade its snapshot; if another worker "
                               "commits in between, SQLite fails at once with 'database is locked' (busy timeout does not apply)",
                               node.lineno))
            else:
                rr.ok(dotted, label)
    rr.instances["transaction_scopes_on_worker_path"] = n_scopes
    if n_scopes == 0:
        rr.ok("worker path", "no explicit transaction scope on the worker path", {"scopes": 0})
    return rr


def rule_r4(ctx, sf: SqlFacts) -> RuleResult:
    rr = RuleResult("C20.R4", "schema creation at start-up is idempotent", min_instances=2)
    for s in sf.statements:
        if s.kind == "CREATE TABLE" and s.function in ("core.Wtp.create_db", "wikidata.init_wikidata_cache", "interwiki.init_interwiki_map"):
            ctx.touched(s.function, s.relfile)
            if "IF NOT EXISTS" in s.text.upper():
                rr.ok(s.function, "CREATE TABLE IF NOT EXISTS " + s.table, {"table": s.table})
            else:
                rr.bad(Finding("C20.R4", s.relfile, s.function, s.text[:60],
                               "a second worker opening the same file fails with 'table already exists'", s.call.lineno))
    return rr


SHARED_FILE_CLASSES = {"DB", "WAL", "SHM", "JOURNAL", "GLOB"}


def rule_r5(ctx) -> RuleResult:
    """A worker that finishes must not take files away from the workers still running: outside
    create_db's restore branch (C11 / C20.R2) the database file and its -wal/-shm side files are
    deleted only when the database is a private one in the temporary directory.  (Unlinking the
    -wal of a database other connections still have open discards their committed pages.)"""
    from . import c11

    rr = RuleResult("C20.R5", "database files are deleted only for private temp-dir databases", min_instances=1)
    n_sites = 0
    for dotted, m, f in ctx.index.all_functions():
        if dotted == "core.Wtp.create_db" or not dotted.startswith("core."):
            continue
        paths = c11.Paths(f)

        def visit(stmts, guarded):
            nonlocal n_sites
            for st in stmts:
                if isinstance(st, ast.If):
                    t = unparse(st.test)
                    g = guarded or ("gettempdir" in t and "samefile" in t and not (isinstance(st.test, ast.UnaryOp)))
                    for ev in c11._path_events(paths, st.test):
                        judge(ev, guarded)
                    visit(st.body, g)
                    visit(st.orelse, guarded)
                    continue
                if isinstance(st, (ast.For, ast.While, ast.With, ast.Try)):
                    for fld in ("body", "orelse", "finalbody"):
                        visit(getattr(st, fld, []) or [], guarded)
                    for h in getattr(st, "handlers", []) or []:
                        visit(h.body, guarded)
                    continue
                if isinstance(st, (ast.FunctionDef, ast.AsyncFunctionDef, ast.ClassDef)):
                    continue
                for ev in c11._path_events(paths, st):
                    judge(ev, guarded)

        def judge(ev, guarded):
            nonlocal n_sites
            op, a, b, n = ev
            if op != "delete" or not (a & SHARED_FILE_CLASSES):
                return
            n_sites += 1
            if guarded:
                rr.ok(dotted, unparse(n)[:60] + " under the temp-dir test", {"fn": dotted, "deletes": sorted(a)})
            else:
                rr.bad(Finding("C20.R5", m.relpath, dotted, unparse(n)[:80],
                               "deletes {} of the database without testing that it is a private temp-dir database: another worker "
                               "connected to the same file loses the pages in the write-ahead log / its file".format("/".join(sorted(a & SHARED_FILE_CLASSES))),
                               n.lineno))

        visit(f.body, False)
    if n_sites == 0:
        raise AnalysisError("no deletion of database files found outside create_db (close_db_conn's temp-dir cleanup confirmed by hand)")
    return rr


_BUSY_RE = __import__("re").compile(r"(?i)pragma\s+busy_timeout\s*=\s*(\d+)")


def rule_r6(ctx) -> RuleResult:
    """Workers wait for each other's short write transactions through SQLite's busy handler
    (python default 5 s).  Nothing in the package may shorten that wait."""
    rr = RuleResult("C20.R6", "the busy timeout of the shared connection is never lowered below sqlite3's default", min_instances=1)
    assert _BUSY_RE.search("PRAGMA busy_timeout = 60;").group(1) == "60"  # positive control of the matcher
    n_connect = 0
    for dotted, m, f in ctx.index.all_functions():
        for n in walk_no_nested(f):
            if isinstance(n, ast.Constant) and isinstance(n.value, str):
                for mm in _BUSY_RE.finditer(n.value):
                    ms = int(mm.group(1))
                    if ms < 5000:
                        rr.bad(Finding("C20.R6", m.relpath, dotted, mm.group(0),
                                       "busy_timeout is set to {} ms (sqlite3's default is 5000 ms): a worker whose write meets another "
                                       "worker's write transaction for longer than that fails with 'database is locked'".format(ms), n.lineno))
                    else:
                        rr.ok(dotted, mm.group(0))
            if isinstance(n, ast.Call) and unparse(n.func) == "sqlite3.connect":
                n_connect += 1
                bad = None
                for kw in n.keywords:
                    if kw.arg == "timeout":
                        if isinstance(kw.value, ast.Constant) and isinstance(kw.value.value, (int, float)) and kw.value.value >= 5:
                            continue
                        bad = unparse(kw.value)
                if len(n.args) >= 2:
                    a = n.args[1]
                    if not (isinstance(a, ast.Constant) and isinstance(a.value, (int, float)) and a.value >= 5):
                        bad = unparse(a)
                if bad is not None:
                    rr.bad(Finding("C20.R6", m.relpath, dotted, unparse(n)[:80],
                                   "the connection is opened with timeout={} (default 5 s)".format(bad), n.lineno))
                else:
                    rr.ok(dotted, unparse(n)[:60] + " keeps the default busy timeout", {"fn": dotted})
    if n_connect == 0:
        raise AnalysisError("sqlite3.connect call vanished")
    return rr


def rule_r7(ctx, sf: SqlFacts) -> RuleResult:
    """Two workers that both find the bootstrap page missing both call add_page for it.  That is harmless only because add_page
    is ONE statement, `INSERT ... ON CONFLICT(<primary key>) DO UPDATE`: SQLite serialises the two upserts.  Split into
    "look, then INSERT or UPDATE" it is a check-then-act pair across processes, and the loser's INSERT fails with
    IntegrityError out of expand() (seed C20-9B).  Shared with C10.R2 (upsert completeness)."""
    from ..core.report import shared
    from . import c10

    return shared(c10.rule_r2(ctx, sf), "C20.R7", "add_page writes with one atomic upsert on the primary key (shared with C10.R2)",
                  "two workers adding the same page concurrently: the second one's write fails or silently loses", min_instances=6)


def run(ctx) -> list:
    cg = CallGraph(ctx.index)
    sf = SqlFacts(ctx.index)
    results = [rule_r1(ctx, cg, sf), rule_r2(ctx, cg), rule_r3(ctx, cg, sf), rule_r4(ctx, sf), rule_r5(ctx), rule_r6(ctx), rule_r7(ctx, sf)]
    if ctx.thorough:
        from ..core.cgcheck import crosscheck

        results.append(crosscheck(ctx, cg, "C20.CG"))
    return results
