"""C10 -- the page store returns the latest version of every page.

R1  memo invalidation: every function that writes table `pages` leaves no
    memoised reader stale -- after the last write on every normal path to its
    exit, <ctx>.get_page.cache_clear() has been called.
R2  upsert completeness: add_page's INSERT has ON CONFLICT(<primary key>) DO
    UPDATE SET <every non-key column> = excluded.<same column>, unconditionally.
R3  column/value alignment of INSERT and of SELECT -> Page(...).
R4  one lookup path: the lookup helpers contain no SQL on `pages` of their own
    and reach get_page; the redirect hop does not follow a second redirect.
R5  commit before close / before backup copy.
"""

from __future__ import annotations

import ast

from ..core.flow import Flow, dominating_calls
from ..core.index import unparse, walk_no_nested
from ..core.report import AnalysisError, Finding, RuleResult
from ..core.sqlfacts import SqlFacts

EXPLANATION = (
    "SQL statements are recovered from the string constants reaching execute()/executescript(); "
    "writers and memoised readers of table `pages` are identified from them. A flow walk over "
    "every writer proves the memo of get_page is invalidated after the last write on all normal "
    "paths; the upsert, the INSERT tuple and the SELECT->Page(...) mapping are compared column by "
    "column with the CREATE TABLE text; lookup helpers are shown to go through get_page. Decides "
    "the store/lookup plumbing for all histories; does not decide the title-spelling matrix."
)
ASSUMPTIONS = [
    "SQL text reaches the connection only through <x>.db_conn.execute/executescript with (foldable) string constants",
    "functools.lru_cache/cache are the only memoisation decorators",
    "SQLite executes the recovered statements as written",
]

CORE = "src/wikitextprocessor/core.py"
LOOKUP_HELPERS = [
    "core.Wtp.page_exists",
    "core.Wtp.get_page_body",
    "core.Wtp.get_page_resolve_redirect",
    "core.Wtp.check_template_need_expand",
    "luaexec.lua_loader",
    "luaexec.get_page_info",
    "luaexec.get_page_content",
]


def memoised(fn: ast.FunctionDef) -> bool:
    for d in fn.decorator_list:
        t = unparse(d)
        if t.split("(")[0].split(".")[-1] in ("lru_cache", "cache"):
            return True
    return False


def is_cache_clear(c: ast.Call, reader_names: set) -> bool:
    f = c.func
    return (
        isinstance(f, ast.Attribute)
        and f.attr == "cache_clear"
        and isinstance(f.value, ast.Attribute)
        and f.value.attr in reader_names
    )


class Dirty(Flow):
    """state = frozenset of memoised readers whose memo may hold rows older than the last write"""

    def __init__(self, write_calls: set, reader_names: set):
        self.write_calls = write_calls
        self.reader_names = reader_names
        self.writes_seen = 0
        self.clears_seen = 0

    def transfer_expr(self, node, state):
        if node is None:
            return [state]
        evs = []
        for n in ast.walk(node):
            if isinstance(n, ast.Call):
                if n in self.write_calls:
                    evs.append((n.end_lineno, n.end_col_offset, "w", None))
                else:
                    for r in self.reader_names:
                        if is_cache_clear(n, {r}):
                            evs.append((n.end_lineno, n.end_col_offset, "c", r))
        for _, _, k, r in sorted(evs, key=lambda x: (x[0], x[1], x[2], x[3] or "")):
            if k == "w":
                state = frozenset(self.reader_names)
                self.writes_seen += 1
            else:
                state = frozenset(state) - {r}
                self.clears_seen += 1
        return [state]


def rule_r1(ctx, sf: SqlFacts) -> RuleResult:
    rr = RuleResult("C10.R1", "memoised readers of `pages` are invalidated after every writer", min_instances=3)
    pages = sf.on_table("pages")
    readers = {}
    # a memoised function is a reader of `pages` when it executes a SELECT on it or reaches (through the call graph) one
    # that does: memoising page_exists() on top of get_page() is a second memo that every writer has to invalidate as well
    from ..core.callgraph import CallGraph
    direct = {s.function for s in pages if s.reads}
    upstream = CallGraph(ctx.index).reaches(direct)
    for dotted, m_, f in ctx.index.all_functions():
        if dotted in upstream and memoised(f):
            readers[dotted] = f
    rr.instances["memoised_readers"] = sorted(readers)
    writers = {}
    for s in pages:
        if s.writes:
            writers.setdefault(s.function, []).append(s)
    rr.instances["writers"] = {k: [x.kind for x in v] for k, v in writers.items()}
    if len(writers) < 3:
        raise AnalysisError("C10.R1: only {} writer functions of table pages found (3 confirmed by hand)".format(len(writers)))
    if not readers:
        # nothing memoised: nothing can be stale
        for w in writers:
            rr.ok(w, "no memoised reader of pages exists", {"writer": w, "memoised_readers": []})
        rr.notes.append("no reader of table pages is memoised; invalidation obligations are vacuous")
        return rr
    reader_names = {r.split(".")[-1] for r in readers}
    for w, stmts in sorted(writers.items()):
        fn = ctx.fn(w)
        fl = Dirty({s.call for s in stmts}, reader_names)
        o = fl.run_function(fn, [frozenset()])
        exits = {}
        for node, st in o.ret:
            exits.setdefault(node, set()).update(st)
        for node, sts in exits.items():
            label = "end of function" if isinstance(node, ast.FunctionDef) else unparse(node)
            if sts:
                rr.bad(Finding(
                    "C10.R1", ctx.index.mod(w.split(".")[0]).relpath, w,
                    "exit `{}` after {}".format(label, " / ".join(sorted({s.kind + " " + s.table for s in stmts}))),
                    "this writer can return after writing `pages` without calling {}.cache_clear(); "
                    "a lookup memoised before the write keeps returning the old row".format("/".join(sorted(sts))),
                    getattr(node, "lineno", fn.lineno),
                    {"writes": fl.writes_seen, "clears": fl.clears_seen},
                ))
            else:
                rr.ok(w, label, {"writer": w, "exit": label, "stale_possible": False})
    return rr


def rule_r2(ctx, sf: SqlFacts) -> RuleResult:
    rr = RuleResult("C10.R2", "add_page upsert replaces every non-key column", min_instances=6)
    creates = [s for s in sf.on_table("pages") if s.kind == "CREATE TABLE"]
    if len(creates) != 1:
        raise AnalysisError("expected exactly one CREATE TABLE pages, found {}".format(len(creates)))
    cr = creates[0]
    ctx.touched(cr.function, cr.relfile)
    ins = [s for s in sf.in_function("core.Wtp.add_page") if s.kind == "INSERT" and s.table == "pages"]
    if len(ins) != 1:
        raise AnalysisError("expected exactly one INSERT INTO pages in add_page, found {}".format(len(ins)))
    s = ins[0]
    ctx.fn("core.Wtp.add_page")
    fn = "core.Wtp.add_page"
    if s.dynamic:
        raise AnalysisError("add_page's INSERT text is not a foldable constant any more")
    rr.instances["create_cols"] = cr.create_cols
    rr.instances["pk"] = cr.pk_cols
    if sorted(s.conflict_cols) == sorted(cr.pk_cols):
        rr.ok(fn, "ON CONFLICT(" + ", ".join(s.conflict_cols) + ")", {"conflict_target": s.conflict_cols, "primary_key": cr.pk_cols})
    else:
        rr.bad(Finding("C10.R2", CORE, fn, "ON CONFLICT({})".format(", ".join(s.conflict_cols)),
                       "conflict target is not the primary key {} -- a second add_page of the same page is not an overwrite".format(cr.pk_cols),
                       s.call.lineno))
    if re_search_or(s.text):
        rr.bad(Finding("C10.R2", CORE, fn, "INSERT OR ...", "INSERT OR IGNORE/REPLACE changes overwrite semantics", s.call.lineno))
    nonkey = [c for c in cr.create_cols if c not in cr.pk_cols]
    setmap = dict(s.set_pairs)
    for c in nonkey:
        rhs = setmap.get(c)
        if rhs is None:
            rr.bad(Finding("C10.R2", CORE, fn, "DO UPDATE SET ... ({} missing)".format(c),
                           "column {} keeps its old value when a page is added again".format(c), s.call.lineno))
        elif rhs.replace(" ", "").lower() != "excluded." + c:
            rr.bad(Finding("C10.R2", CORE, fn, "{}={}".format(c, rhs),
                           "column {} is not updated from excluded.{}".format(c, c), s.call.lineno))
        else:
            rr.ok(fn, "{}=excluded.{}".format(c, c), {"column": c, "rhs": rhs})
    for c in setmap:
        if c not in nonkey:
            rr.bad(Finding("C10.R2", CORE, fn, "{}={}".format(c, setmap[c]), "upsert sets unknown/key column " + c, s.call.lineno))
    if s.upsert_where:
        rr.bad(Finding("C10.R2", CORE, fn, "DO UPDATE ... WHERE " + s.upsert_where,
                       "the overwrite is conditional; when the condition is not true (NULL compares as not true) the old row survives",
                       s.call.lineno))
    else:
        rr.ok(fn, "upsert is unconditional")
    return rr


def re_search_or(text: str) -> bool:
    import re

    return re.match(r"\s*INSERT\s+OR\s+", text, re.I) is not None or re.match(r"\s*REPLACE\b", text, re.I) is not None


def _row_index(f: ast.AST, value: ast.AST, reader: str):
    """position in the result row that `value` is computed from: `row[i]` inside it, or a local bound by unpacking the row
    (`a, b, c = row`) or by `x = row[i]`; None when the value does not depend on the row at all (a positive finding);
    a local of unknown origin makes the rule inconclusive"""
    for n in ast.walk(value):
        if isinstance(n, ast.Subscript) and isinstance(n.slice, ast.Constant) and isinstance(n.slice.value, int):
            return n.slice.value
    names = [n.id for n in ast.walk(value) if isinstance(n, ast.Name) and isinstance(n.ctx, ast.Load)]
    for nm in names:
        for st in walk_no_nested(f):
            if not isinstance(st, ast.Assign) or len(st.targets) != 1:
                continue
            tg = st.targets[0]
            if isinstance(tg, (ast.Tuple, ast.List)) and all(isinstance(x, ast.Name) for x in tg.elts) and isinstance(st.value, ast.Name) \
                    and nm in [x.id for x in tg.elts]:
                return [x.id for x in tg.elts].index(nm)
            if isinstance(tg, ast.Name) and tg.id == nm and isinstance(st.value, ast.Subscript) \
                    and isinstance(st.value.slice, ast.Constant) and isinstance(st.value.slice.value, int):
                return st.value.slice.value
    for nm in names:
        # `for title, namespace_id, ... in conn.execute(...)`: the row is unpacked by the loop target
        for st in walk_no_nested(f):
            if isinstance(st, ast.For) and isinstance(st.target, (ast.Tuple, ast.List)) and all(isinstance(x, ast.Name) for x in st.target.elts) \
                    and nm in [x.id for x in st.target.elts]:
                return [x.id for x in st.target.elts].index(nm)
    if names:
        raise AnalysisError("{}: where `{}` (an argument of Page(...)) comes from was not recognised".format(reader, names[0]))
    return None


def rule_r3(ctx, sf: SqlFacts) -> RuleResult:
    rr = RuleResult("C10.R3", "INSERT columns align with bound values; SELECT columns align with Page(...)", min_instances=18)
    ins = [s for s in sf.in_function("core.Wtp.add_page") if s.kind == "INSERT"][0]
    fn = "core.Wtp.add_page"
    b = ins.bound
    if not isinstance(b, ast.Tuple):
        raise AnalysisError("add_page: bound values are no longer a tuple display")
    if len(b.elts) != len(ins.insert_cols) or ins.n_placeholders != len(ins.insert_cols):
        rr.bad(Finding("C10.R3", CORE, fn, "VALUES arity", "{} columns, {} placeholders, {} bound values".format(
            len(ins.insert_cols), ins.n_placeholders, len(b.elts)), ins.call.lineno))
    else:
        rr.ok(fn, "arity {}".format(len(b.elts)))
    for col, e in zip(ins.insert_cols, b.elts):
        if isinstance(e, ast.Name) and e.id == col:
            rr.ok(fn, "{} <- {}".format(col, e.id), {"column": col, "value": e.id})
        else:
            rr.bad(Finding("C10.R3", CORE, fn, "{} <- {}".format(col, unparse(e)),
                           "column {} is bound to `{}`".format(col, unparse(e)), e.lineno))
    # Page dataclass fields
    page_cls = ctx.index.cls("core.Page")
    fields = [s.target.id for s in page_cls.body if isinstance(s, ast.AnnAssign)]
    cr = [s for s in sf.on_table("pages") if s.kind == "CREATE TABLE"][0]
    if set(fields) == set(cr.create_cols):
        rr.ok("core.Page", "fields == table columns")
    else:
        rr.bad(Finding("C10.R3", CORE, "core.Page", "fields " + repr(fields),
                       "Page fields differ from table columns {}".format(cr.create_cols), page_cls.lineno))
    for reader in ("core.Wtp.get_page", "core.Wtp.get_all_pages"):
        f = ctx.fn(reader)
        sels = [s for s in sf.in_function(reader) if s.kind == "SELECT" and s.table == "pages"]
        if len(sels) != 1:
            raise AnalysisError("{}: expected one SELECT on pages, found {}".format(reader, len(sels)))
        cols = sels[0].select_cols
        ctors = [n for n in walk_no_nested(f) if isinstance(n, ast.Call) and isinstance(n.func, ast.Name) and n.func.id == "Page"]
        if not ctors:
            raise AnalysisError(reader + ": Page(...) constructor vanished")
        for c in ctors:
            if c.args:
                raise AnalysisError(reader + ": positional Page(...) arguments are not supported by the rule")
            seen = set()
            for kw in c.keywords:
                idx = _row_index(f, kw.value, reader)
                if idx is None or idx >= len(cols):
                    rr.bad(Finding("C10.R3", CORE, reader, "{}={}".format(kw.arg, unparse(kw.value)),
                                   "field is not taken from a result column", kw.value.lineno))
                    continue
                seen.add(kw.arg)
                if cols[idx] == kw.arg:
                    rr.ok(reader, "{} <- result[{}] ({})".format(kw.arg, idx, cols[idx]))
                else:
                    rr.bad(Finding("C10.R3", CORE, reader, "{}={}".format(kw.arg, unparse(kw.value)),
                                   "Page.{} is filled from column `{}`".format(kw.arg, cols[idx]), kw.value.lineno))
            missing = set(fields) - seen
            if missing:
                rr.bad(Finding("C10.R3", CORE, reader, "Page(...) missing " + ",".join(sorted(missing)),
                               "fields {} are not filled from the row".format(sorted(missing)), c.lineno))
    return rr


def _calls_method(fn: ast.AST, names: set) -> list:
    out = []
    for n in walk_no_nested(fn):
        if isinstance(n, ast.Call) and isinstance(n.func, ast.Attribute) and n.func.attr in names:
            out.append(n)
    return out


def rule_r4(ctx, sf: SqlFacts) -> RuleResult:
    rr = RuleResult("C10.R4", "lookup helpers have no SQL of their own and reach get_page", min_instances=7)
    reach = {"get_page"}
    # helper -> helper closure
    short = {h.split(".")[-1]: h for h in LOOKUP_HELPERS}
    changed = True
    while changed:
        changed = False
        for h in LOOKUP_HELPERS:
            f = ctx.index.func(h)
            if h.split(".")[-1] in reach:
                continue
            if _calls_method(f, reach):
                reach.add(h.split(".")[-1])
                changed = True
    for h in LOOKUP_HELPERS:
        f = ctx.fn(h)
        relfile = ctx.index.mod(h.split(".")[0]).relpath
        own = [s for s in sf.in_function(h)]
        if own:
            rr.bad(Finding("C10.R4", relfile, h, own[0].text[:80], "lookup helper issues its own SQL instead of going through get_page", own[0].call.lineno))
        elif h.split(".")[-1] in reach:
            rr.ok(h, "reaches get_page without own SQL", {"helper": h})
        else:
            rr.bad(Finding("C10.R4", relfile, h, "no call to get_page", "lookup helper does not reach get_page", f.lineno))
    # existence check agrees with lookup: page_exists returns `get_page(...) is not None`
    pe = ctx.fn("core.Wtp.page_exists")
    rets = [n for n in walk_no_nested(pe) if isinstance(n, ast.Return)]
    good = (
        len(rets) == 1
        and isinstance(rets[0].value, ast.Compare)
        and len(rets[0].value.ops) == 1
        and isinstance(rets[0].value.ops[0], ast.IsNot)
        and isinstance(rets[0].value.left, ast.Call)
        and unparse(rets[0].value.left.func).endswith(".get_page")
        and isinstance(rets[0].value.comparators[0], ast.Constant)
        and rets[0].value.comparators[0].value is None
    )
    if good:
        call = rets[0].value.left
        params = [a.arg for a in pe.args.args[1:]]
        passed = [unparse(a) for a in call.args]
        if passed == params:
            rr.ok("core.Wtp.page_exists", "get_page(title, namespace_id) is not None")
        else:
            rr.bad(Finding("C10.R4", CORE, "core.Wtp.page_exists", unparse(rets[0]), "existence check does not pass its own (title, namespace_id) to get_page", rets[0].lineno))
    else:
        rr.bad(Finding("C10.R4", CORE, "core.Wtp.page_exists", unparse(rets[0]) if rets else "return",
                       "existence check is not `get_page(...) is not None`", pe.lineno))
    # redirect hop: one hop only
    rf = ctx.fn("core.Wtp.get_page_resolve_redirect")
    hops = [c for c in _calls_method(rf, {"get_page"})]
    redirect_hops = [c for c in hops if any("redirect_to" in unparse(a) for a in c.args)]
    if len(redirect_hops) != 1:
        rr.bad(Finding("C10.R4", CORE, "core.Wtp.get_page_resolve_redirect", "get_page(page.redirect_to, ...)",
                       "expected exactly one redirect hop, found {}".format(len(redirect_hops)), rf.lineno))
    else:
        c = redirect_hops[0]
        no_redirect = (len(c.args) >= 3 and isinstance(c.args[2], ast.Constant) and c.args[2].value is True) or any(
            k.arg == "no_redirect" and isinstance(k.value, ast.Constant) and k.value.value is True for k in c.keywords
        )
        same_ns = len(c.args) >= 2 and isinstance(c.args[1], ast.Name) and c.args[1].id == "namespace_id"
        if no_redirect and same_ns:
            rr.ok("core.Wtp.get_page_resolve_redirect", unparse(c), {"hop": unparse(c)})
        else:
            rr.bad(Finding("C10.R4", CORE, "core.Wtp.get_page_resolve_redirect", unparse(c),
                           "the redirect hop must look the target up in the same namespace with no_redirect=True", c.lineno))
    # get_page_body returns the resolved page's body
    gb = ctx.fn("core.Wtp.get_page_body")
    if _calls_method(gb, {"get_page_resolve_redirect"}):
        rr.ok("core.Wtp.get_page_body", "body read goes through redirect resolution")
    else:
        rr.bad(Finding("C10.R4", CORE, "core.Wtp.get_page_body", "get_page_resolve_redirect(...)",
                       "get_page_body no longer resolves redirects", gb.lineno))
    return rr


def rule_r5(ctx, sf: SqlFacts) -> RuleResult:
    rr = RuleResult("C10.R5", "commit precedes close and precedes the backup copy", min_instances=2)

    def is_call(n, suffix):
        return isinstance(n, ast.Call) and unparse(n.func).endswith(suffix)

    for fnname, target_suffix in (("core.Wtp.close_db_conn", "db_conn.close"), ("core.Wtp.backup_db", "db_conn.backup")):
        f = ctx.fn(fnname)
        res = dominating_calls(f, lambda n: is_call(n, "db_conn.commit"),
                               lambda n, t=target_suffix: is_call(n, t) or (t == "db_conn.backup" and isinstance(n, ast.Call)
                                                                            and unparse(n.func).startswith("shutil.copy")))
        if not res:
            raise AnalysisError("{}: call of {} vanished".format(fnname, target_suffix))
        for n, dom in res:
            if dom:
                rr.ok(fnname, unparse(n), {"fn": fnname, "target": unparse(n), "commit_dominates": True})
            else:
                rr.bad(Finding("C10.R5", CORE, fnname, unparse(n), "reachable without a preceding db_conn.commit()", n.lineno))
    return rr


def rule_r6(ctx, sf: SqlFacts) -> RuleResult:
    """Writer and reader normalise the stored key the same way."""
    rr = RuleResult("C10.R6", "add_page and get_page agree on the stored title form and key the lookup on (title, namespace)", min_instances=4)
    ap = ctx.fn("core.Wtp.add_page")
    gp = ctx.fn("core.Wtp.get_page")

    def main_strip(fn):
        """the construct that removes a leading 'Main:' from the title: `if t.startswith('Main:'): t = t[5:]` or
        `t.removeprefix('Main:')`"""
        for n in walk_no_nested(fn):
            if isinstance(n, ast.If) and isinstance(n.test, ast.Call) and isinstance(n.test.func, ast.Attribute) \
                    and n.test.func.attr == "startswith" and len(n.test.args) == 1 and isinstance(n.test.args[0], ast.Constant) \
                    and n.test.args[0].value == "Main:" and len(n.body) == 1 and isinstance(n.body[0], ast.Assign):
                v = n.body[0].value
                recv = unparse(n.test.func.value)
                if isinstance(v, ast.Subscript) and unparse(v.value) == recv and isinstance(v.slice, ast.Slice) and v.slice.upper is None \
                        and unparse(v.slice.lower) in ("5", "len('Main:')") and unparse(n.body[0].targets[0]) == recv:
                    return n
            if isinstance(n, ast.Call) and isinstance(n.func, ast.Attribute) and n.func.attr == "removeprefix" and len(n.args) == 1 \
                    and isinstance(n.args[0], ast.Constant) and n.args[0].value == "Main:":
                return n
        return None

    a, g = main_strip(ap), main_strip(gp)
    if (a is None) == (g is None):
        rr.ok("core.Wtp.add_page", "'Main:' prefix handled identically in writer and reader")
    else:
        rr.bad(Finding("C10.R6", CORE, "core.Wtp.add_page" if a is None else "core.Wtp.get_page", "if title.startswith('Main:'): title = title[5:]",
                       "only one of add_page/get_page strips the 'Main:' prefix; pages stored under one form are looked up under the other",
                       (gp if a is None else ap).lineno))
    # both build the prefix from LOCAL_NS_NAME_BY_ID[namespace_id] + ':'
    for fnname, fn in (("core.Wtp.add_page", ap), ("core.Wtp.get_page", gp)):
        uses = [n for n in walk_no_nested(fn) if isinstance(n, ast.Attribute) and n.attr == "LOCAL_NS_NAME_BY_ID"]
        if uses:
            rr.ok(fnname, "namespace prefix from LOCAL_NS_NAME_BY_ID")
        else:
            rr.bad(Finding("C10.R6", CORE, fnname, "LOCAL_NS_NAME_BY_ID", "namespace prefix is no longer derived from LOCAL_NS_NAME_BY_ID", fn.lineno))
    # lookup WHERE clause keys on title (=) and, when given, namespace_id (=)
    sel = [s for s in sf.in_function("core.Wtp.get_page") if s.kind == "SELECT"][0]
    w = sel.where.replace(" ", "").lower()
    if w.startswith("title=?"):
        rr.ok("core.Wtp.get_page", "WHERE title = ?")
    else:
        rr.bad(Finding("C10.R6", CORE, "core.Wtp.get_page", "WHERE " + sel.where, "lookup is not an exact match on title (titles are case-sensitive)", sel.call.lineno))
    frag = [n.value for n in walk_no_nested(gp) if isinstance(n, ast.Constant) and isinstance(n.value, str) and "namespace_id" in n.value and "AND" in n.value]
    if any(x.replace(" ", "").lower() == "andnamespace_id=?" for x in frag):
        rr.ok("core.Wtp.get_page", "AND namespace_id = ?")
    else:
        rr.bad(Finding("C10.R6", CORE, "core.Wtp.get_page", "AND namespace_id = ?", "namespace restriction of the lookup changed: " + repr(frag), gp.lineno))
    return rr


CASE_METHODS = {"lower", "upper", "capitalize", "title", "casefold", "swapcase"}


def _short_slice(e: ast.AST) -> bool:
    """x[0], x[:1], x[0:1] -- at most the first character."""
    if not isinstance(e, ast.Subscript):
        return False
    sl = e.slice
    if isinstance(sl, ast.Constant) and sl.value == 0:
        return True
    if isinstance(sl, ast.Slice):
        lo = sl.lower.value if isinstance(sl.lower, ast.Constant) else (0 if sl.lower is None else None)
        hi = sl.upper.value if isinstance(sl.upper, ast.Constant) else None
        return lo == 0 and hi == 1 and sl.step is None
    return False


def _case_altering(e: ast.AST):
    """first call inside e that changes letter case of more than the first
    character of its receiver and whose value is part of e's value"""
    for n in ast.walk(e):
        if isinstance(n, ast.Call) and isinstance(n.func, ast.Attribute) and n.func.attr in CASE_METHODS:
            if not _short_slice(n.func.value):
                return n
    return None


def rule_r7(ctx, sf: SqlFacts) -> RuleResult:
    """Titles are case-sensitive except for the first letter: the values that
    are bound into the lookup/insert statements derive from `title` only through
    operations that do not change the case of characters after the first."""
    rr = RuleResult("C10.R7", "stored and looked-up titles are case-preserving beyond the first letter", min_instances=4)
    for fnname in ("core.Wtp.get_page", "core.Wtp.add_page"):
        fn = ctx.fn(fnname)
        stmts = [s for s in sf.in_function(fnname) if s.table == "pages" and s.bound is not None]
        if not stmts:
            raise AnalysisError(fnname + ": no parameterised statement on pages")
        assigns: dict = {}
        for n in walk_no_nested(fn):
            if isinstance(n, ast.Assign):
                for t in n.targets:
                    if isinstance(t, ast.Name):
                        assigns.setdefault(t.id, []).append(n.value)
            elif isinstance(n, ast.AnnAssign) and isinstance(n.target, ast.Name) and n.value is not None:
                assigns.setdefault(n.target.id, []).append(n.value)
            elif isinstance(n, ast.AugAssign) and isinstance(n.target, ast.Name):
                assigns.setdefault(n.target.id, []).append(n.value)
            elif isinstance(n, ast.Call) and isinstance(n.func, ast.Attribute) and n.func.attr in ("append", "extend", "insert") \
                    and isinstance(n.func.value, ast.Name):
                for a in n.args:
                    assigns.setdefault(n.func.value.id, []).append(a)
        seen, work = set(), []
        for s in stmts:
            work.extend(x.id for x in ast.walk(s.bound) if isinstance(x, ast.Name))
        while work:
            v = work.pop()
            if v in seen:
                continue
            seen.add(v)
            for e in assigns.get(v, []):
                bad = _case_altering(e)
                if bad is not None:
                    rr.bad(Finding("C10.R7", CORE, fnname, "{} = {}".format(v, unparse(e)),
                                   "`{}` changes letter case beyond the first character of a value that reaches the SQL "
                                   "statement; titles differing only in later letters would collide or be missed".format(unparse(bad)),
                                   e.lineno))
                else:
                    rr.ok(fnname, "{} = {}".format(v, unparse(e))[:90], {"fn": fnname, "var": v, "expr": unparse(e)[:80]})
                work.extend(x.id for x in ast.walk(e) if isinstance(x, ast.Name))
    return rr


def rule_r8(ctx) -> RuleResult:
    """NAMESPACE_DATA is keyed by the *canonical* (English) namespace name, LOCAL_NS_NAME_BY_ID
    yields / NS_ID_BY_LOCAL_NAME is keyed by the *local* name.  In the shipped data the two
    differ (en: Project -> Wiktionary; most other editions: nearly every namespace), so an
    index of one table with a key from the other key space silently misses and the lookup
    path no longer recognises the namespace prefix of a stored page."""
    from ..core.data import DataFiles

    rr = RuleResult("C10.R8", "namespace tables are indexed with keys of their own key space", min_instances=15)
    sd = DataFiles(ctx.index)
    differing = sorted(lang for lang, d in sd.namespaces.items() if any(k != v.get("name") for k, v in d.items()))
    rr.instances["editions_with_local_name_differing_from_key"] = len(differing)
    if not differing:
        rr.ok("data", "canonical and local names coincide in every shipped edition")
        return rr

    def local_name_valued(e: ast.AST, fn, line, depth=0) -> bool:
        """does the expression denote a local namespace name?"""
        for n in ast.walk(e):
            if isinstance(n, ast.Attribute) and n.attr == "LOCAL_NS_NAME_BY_ID":
                return True
        if isinstance(e, ast.Subscript) and isinstance(e.slice, ast.Constant) and e.slice.value == "name":
            return True
        if isinstance(e, ast.Name) and depth < 3:
            best = None
            for a in walk_no_nested(fn):
                if isinstance(a, ast.Assign) and len(a.targets) == 1 and isinstance(a.targets[0], ast.Name) and a.targets[0].id == e.id \
                        and a.lineno < line and (best is None or a.lineno > best.lineno):
                    best = a
            if best is not None:
                return local_name_valued(best.value, fn, best.lineno, depth + 1)
        return False

    for dotted, m, f in ctx.index.all_functions():
        for n in walk_no_nested(f):
            table = key = None
            if isinstance(n, ast.Subscript) and isinstance(n.value, ast.Attribute) and n.value.attr in ("NAMESPACE_DATA", "NS_ID_BY_LOCAL_NAME"):
                table, key = n.value.attr, n.slice
            elif isinstance(n, ast.Call) and isinstance(n.func, ast.Attribute) and n.func.attr == "get" and n.args \
                    and isinstance(n.func.value, ast.Attribute) and n.func.value.attr in ("NAMESPACE_DATA", "NS_ID_BY_LOCAL_NAME"):
                table, key = n.func.value.attr, n.args[0]
            elif isinstance(n, ast.Compare) and len(n.ops) == 1 and isinstance(n.ops[0], (ast.In, ast.NotIn)) \
                    and isinstance(n.comparators[0], ast.Attribute) and n.comparators[0].attr in ("NAMESPACE_DATA", "NS_ID_BY_LOCAL_NAME"):
                table, key = n.comparators[0].attr, n.left
            if table is None:
                continue
            site = unparse(n)[:70]
            if table == "NAMESPACE_DATA":
                if isinstance(key, ast.Constant):
                    rr.ok(dotted, site, {"fn": dotted, "site": site, "key": "canonical constant"})
                elif local_name_valued(key, f, n.lineno):
                    rr.bad(Finding("C10.R8", m.relpath, dotted, site,
                                   "NAMESPACE_DATA (keyed by canonical name) is indexed with a *local* namespace name; the two differ in "
                                   "{} shipped editions (e.g. {}), where this lookup misses".format(len(differing), ", ".join(differing[:4])), n.lineno))
                else:
                    rr.informational.append({"fn": dotted, "site": site, "key": "not classified"})
            else:
                if isinstance(key, ast.Constant) and isinstance(key.value, str):
                    rr.bad(Finding("C10.R8", m.relpath, dotted, site,
                                   "NS_ID_BY_LOCAL_NAME (keyed by local name) is indexed with a canonical name constant", n.lineno))
                else:
                    rr.ok(dotted, site, {"fn": dotted, "site": site, "key": "local name"})
    return rr


def rule_r9(ctx) -> RuleResult:
    """'Committed content is identical when read through a new context on the same file': closing one
    context must not take the write-ahead log away from under the others (shared with C20.R5)."""
    from . import c20

    r = c20.rule_r5(ctx)
    rr = RuleResult("C10.R9", "closing a context deletes database files only for private temp-dir databases (shared with C20.R5)", min_instances=1)
    for f in r.findings:
        rr.bad(Finding("C10.R9", f.file, f.function, f.construct,
                       f.message + "; pages committed by a context that is still open are absent for every context opened afterwards", f.line))
    rr.cases = set(r.cases)
    rr.obligations = r.obligations
    rr.discharged = r.discharged
    rr.samples = list(r.samples)
    return rr


NORMALISERS = {"normalize", "unescape", "unquote", "unquote_plus", "quote", "quote_plus", "strip", "lstrip", "rstrip", "casefold",
               "translate", "expandtabs", "sub", "encode", "decode"}
# replacements that only the reader applies, with the reason they are tolerated
READER_ONLY_REPLACE = {("_", " "): "Lua code writes module names with underscores (comment in get_page); its one bad consequence is the C20.R1 known finding"}


def rule_r11(ctx, sf: SqlFacts) -> RuleResult:
    """Writer and reader normalise titles the same way: a normalising operation (Unicode
    normalisation, unescaping, unquoting, stripping, case folding, regex substitution, a literal
    replacement) applied to the value that reaches the SQL statement in one of add_page/get_page
    and not in the other makes the reader look for a key the writer never stored."""
    rr = RuleResult("C10.R11", "add_page and get_page apply the same normalising operations to the title", min_instances=1)
    ops = {}
    for fnname in ("core.Wtp.get_page", "core.Wtp.add_page"):
        fn = ctx.fn(fnname)
        stmts = [s_ for s_ in sf.in_function(fnname) if s_.table == "pages" and s_.bound is not None]
        assigns: dict = {}
        for n in walk_no_nested(fn):
            if isinstance(n, ast.Assign):
                for t in n.targets:
                    if isinstance(t, ast.Name):
                        assigns.setdefault(t.id, []).append(n.value)
            elif isinstance(n, (ast.AnnAssign, ast.AugAssign)) and isinstance(n.target, ast.Name) and n.value is not None:
                assigns.setdefault(n.target.id, []).append(n.value)
            elif isinstance(n, ast.Call) and isinstance(n.func, ast.Attribute) and n.func.attr in ("append", "extend", "insert") \
                    and isinstance(n.func.value, ast.Name):
                for a in n.args:
                    assigns.setdefault(n.func.value.id, []).append(a)
        seen, work, found = set(), [], {}
        for s_ in stmts:
            # only the title-typed positions matter: follow every name bound into the statement
            work.extend(x.id for x in ast.walk(s_.bound) if isinstance(x, ast.Name))
        while work:
            v = work.pop()
            if v in seen:
                continue
            seen.add(v)
            for e in assigns.get(v, []):
                for c in ast.walk(e):
                    if isinstance(c, ast.Call) and isinstance(c.func, ast.Attribute):
                        if c.func.attr in NORMALISERS:
                            found.setdefault(c.func.attr, c)
                        elif c.func.attr == "replace" and len(c.args) == 2 and all(isinstance(a, ast.Constant) for a in c.args):
                            found.setdefault(("replace", c.args[0].value, c.args[1].value), c)
                work.extend(x.id for x in ast.walk(e) if isinstance(x, ast.Name))
        ops[fnname] = found
    g, a = ops["core.Wtp.get_page"], ops["core.Wtp.add_page"]
    for k in sorted(set(g) | set(a), key=str):
        if k in g and k in a:
            rr.ok("core.Wtp.get_page", "{} in both".format(k), {"op": str(k)})
            continue
        if isinstance(k, tuple) and (k[1], k[2]) in READER_ONLY_REPLACE and k in g:
            rr.ok("core.Wtp.get_page", "reader-only replace {!r}->{!r}: {}".format(k[1], k[2], READER_ONLY_REPLACE[(k[1], k[2])][:60]), {"op": str(k)})
            continue
        where, node = ("core.Wtp.get_page", g[k]) if k in g else ("core.Wtp.add_page", a[k])
        rr.bad(Finding("C10.R11", CORE, where, unparse(node)[:80],
                       "{} normalises the title with `{}` but {} does not: pages stored under a title this operation changes "
                       "can no longer be found (or are stored under a key no lookup produces)".format(
                           where.split(".")[-1], unparse(node)[:50], "add_page" if k in g else "get_page"), node.lineno))
    if not g and not a:
        rr.ok("core.Wtp.get_page", "no normalising operation in either function")
    return rr


def rule_r12(ctx, sf: SqlFacts) -> RuleResult:
    """Sibling agreement among the writers of table `pages`: in-memory state that one writer keeps
    in step with the table (a memo, a set of marked titles, a cache of bodies) must be kept in step
    by every writer -- add_page resets need_pre_expand and replaces the body, so a mirror that only
    set_template_pre_expand() updates is stale after the next add_page()."""
    from . import c09

    rr = RuleResult("C10.R12", "every writer of `pages` maintains the same in-memory mirrors of the table", min_instances=3)
    writers = sorted({s_.function for s_ in sf.statements if s_.table == "pages" and s_.writes and s_.function.startswith("core.Wtp.")})
    if len(writers) < 3:
        raise AnalysisError("fewer than 3 writers of `pages` found (add_page, set_template_pre_expand, analyze_templates confirmed by hand)")
    touched = {}
    for w in writers:
        fn = ctx.fn(w)
        attrs = {a for a, n, k in c09._mutations(fn, True, False)}
        for c in ast.walk(fn):
            if isinstance(c, ast.Call) and isinstance(c.func, ast.Attribute) and c.func.attr in ("cache_clear",) \
                    and isinstance(c.func.value, ast.Attribute):
                attrs.add(c.func.value.attr + ".cache_clear")
        # a writer that calls another writer inherits what that one maintains
        for c in ast.walk(fn):
            if isinstance(c, ast.Call) and isinstance(c.func, ast.Attribute) and "core.Wtp." + c.func.attr in writers:
                attrs.add("->" + c.func.attr)
        touched[w] = attrs
    for w in writers:
        for a in list(touched[w]):
            if a.startswith("->"):
                touched[w] |= {x for x in touched["core.Wtp." + a[2:]] if not x.startswith("->")}
    union = {a for v in touched.values() for a in v if not a.startswith("->")}
    for w in writers:
        missing = sorted(union - touched[w])
        if missing:
            others = sorted(x.split(".")[-1] for x in writers if set(missing) & touched[x])
            rr.bad(Finding("C10.R12", CORE, w, "{} does not update {}".format(w.split(".")[-1], ", ".join(missing)),
                           "{} keep(s) `{}` in step with table `pages`, this writer does not: after it runs the in-memory copy and the "
                           "table disagree (e.g. a title still counted as marked although add_page reset its flag)".format(
                               ", ".join(others), ", ".join(missing)), ctx.fn(w).lineno))
        else:
            rr.ok(w, "maintains " + (", ".join(sorted(union)) or "nothing"), {"writer": w, "mirrors": sorted(union)})
    return rr


def _memo_returning(ctx) -> set:
    """dotted names of functions that hand out an object owned by a memo: functions decorated with
    lru_cache/cache, and functions every/any return of which is (a name bound to) a call of one"""
    memo = set()
    for dotted, m, f in ctx.index.all_functions():
        if any(("lru_cache" in unparse(d)) or unparse(d) in ("cache", "functools.cache") for d in f.decorator_list):
            memo.add(dotted)
    names = {d.split(".")[-1] for d in memo}
    changed = True
    while changed:
        changed = False
        for dotted, m, f in ctx.index.all_functions():
            if dotted in memo:
                continue
            bound = set()
            for n in walk_no_nested(f):
                if isinstance(n, ast.Assign) and len(n.targets) == 1 and isinstance(n.targets[0], ast.Name) and isinstance(n.value, ast.Call) \
                        and isinstance(n.value.func, ast.Attribute) and n.value.func.attr in names:
                    bound.add(n.targets[0].id)
            for r in walk_no_nested(f):
                if isinstance(r, ast.Return) and r.value is not None:
                    v = r.value
                    if (isinstance(v, ast.Call) and isinstance(v.func, ast.Attribute) and v.func.attr in names) or \
                            (isinstance(v, ast.Name) and v.id in bound):
                        memo.add(dotted)
                        names.add(dotted.split(".")[-1])
                        changed = True
                        break
    return memo


def rule_r10(ctx) -> RuleResult:
    """What a memoised reader returns is the memo's own object: the next lookup with the same
    arguments gets the very same object back.  So nothing may assign to (or mutate) a field of a
    value obtained from get_page() or from a helper that passes its result on -- otherwise a
    lookup returns text that was never stored (stripped, preprocessed, with another page's cookies)."""
    rr = RuleResult("C10.R10", "objects handed out by the memoised page lookup are never modified", min_instances=5)
    memo = _memo_returning(ctx)
    names = {d.split(".")[-1] for d in memo}
    rr.instances["memo_returning_functions"] = sorted(memo)
    for dotted, m, f in ctx.index.all_functions():
        bound = {}
        for n in walk_no_nested(f):
            tgt = val = None
            if isinstance(n, ast.Assign) and len(n.targets) == 1 and isinstance(n.targets[0], ast.Name):
                tgt, val = n.targets[0].id, n.value
            elif isinstance(n, ast.AnnAssign) and isinstance(n.target, ast.Name) and n.value is not None:
                tgt, val = n.target.id, n.value
            elif isinstance(n, ast.NamedExpr) and isinstance(n.target, ast.Name):
                tgt, val = n.target.id, n.value
            if tgt and isinstance(val, ast.Call) and isinstance(val.func, ast.Attribute) and val.func.attr in names:
                bound.setdefault(tgt, n)
        if not bound:
            continue
        hit = False
        for n in walk_no_nested(f):
            tgs = n.targets if isinstance(n, ast.Assign) else [n.target] if isinstance(n, (ast.AugAssign, ast.AnnAssign)) else []
            for t in tgs:
                base = t
                while isinstance(base, (ast.Attribute, ast.Subscript)):
                    base = base.value
                    if isinstance(base, ast.Name) and base.id in bound and t is not base and isinstance(t, (ast.Attribute, ast.Subscript)):
                        hit = True
                        rr.bad(Finding("C10.R10", m.relpath, dotted, unparse(n)[:80],
                                       "`{}` was obtained from the memoised page lookup (`{}`); this statement changes the memo's own object, so "
                                       "later lookups with the same arguments return the changed text instead of what was stored".format(
                                           base.id, unparse(bound[base.id].value)[:50]), n.lineno))
                        break
        if not hit:
            rr.ok(dotted, "uses {} read-only".format(", ".join(sorted(bound))), {"fn": dotted, "values": sorted(bound)})
    return rr


def rule_r13(ctx) -> RuleResult:
    """Pages added but not yet committed live in the open transaction; nothing on the ingestion path may
    roll that transaction back behind the caller's back (shared with C12.R7)."""
    from ..core.report import shared
    from . import c12

    return shared(c12.rule_r7(ctx), "C10.R13", "no rollback scope can discard added pages before the first commit (shared with C12.R7)",
                  "pages that add_page() reported as stored are absent afterwards (and still served from the memo under one spelling)",
                  min_instances=2)


def rule_r14(ctx) -> RuleResult:
    """get_page and the parser match `title.lower()` against namespace_prefixes(ns): with lower=True every returned prefix has
    to be lower-cased, the canonical (English) key included -- otherwise `Template:foo` on a non-English edition is not
    recognised and the local prefix is prepended a second time.  Decided by a two-point abstraction (all strings lowered /
    possibly not) over the function specialised for lower=True."""
    rr = RuleResult("C10.R14", "with lower=True every prefix namespace_prefixes returns has been lower-cased", min_instances=1)
    dotted = "core.Wtp.namespace_prefixes"
    fn = ctx.fn(dotted)
    params = [a.arg for a in fn.args.args]
    if "lower" not in params:
        raise AnalysisError("namespace_prefixes: parameter `lower` vanished")
    neutral = {a for a in params if a not in ("self", "lower", "ns_id")}  # the suffix parameter: punctuation
    L_, U_ = True, False

    class Unknown(Exception):
        pass

    def ev(e, env) -> bool:
        if isinstance(e, ast.Constant):
            return not isinstance(e.value, str) or e.value == e.value.lower()
        if isinstance(e, ast.Name):
            if e.id in neutral:
                return L_
            return env.get(e.id, U_)
        if isinstance(e, ast.Call):
            if isinstance(e.func, ast.Attribute) and e.func.attr in ("lower", "casefold") and not e.args:
                return L_
            if isinstance(e.func, ast.Name) and e.func.id in ("tuple", "list", "set", "sorted", "reversed", "frozenset") and len(e.args) == 1:
                return ev(e.args[0], env)
            if isinstance(e.func, ast.Name) and e.func.id == "map" and len(e.args) == 2 and isinstance(e.args[0], ast.Lambda) \
                    and len(e.args[0].args.args) == 1:
                env2 = dict(env)
                env2[e.args[0].args.args[0].arg] = ev(e.args[1], env)
                return ev(e.args[0].body, env2)
            if isinstance(e.func, ast.Attribute) and e.func.attr in ("strip", "lstrip", "rstrip", "removesuffix", "removeprefix", "replace"):
                return ev(e.func.value, env) and all(ev(a, env) for a in e.args)
            if isinstance(e.func, ast.Attribute) and e.func.attr == "join" and len(e.args) == 1:
                return ev(e.func.value, env) and ev(e.args[0], env)
            return U_
        if isinstance(e, ast.BinOp) and isinstance(e.op, ast.Add):
            return ev(e.left, env) and ev(e.right, env)
        if isinstance(e, (ast.Tuple, ast.List, ast.Set)):
            return all(ev(x.value if isinstance(x, ast.Starred) else x, env) for x in e.elts)
        if isinstance(e, ast.IfExp):
            if isinstance(e.test, ast.Name) and e.test.id == "lower":
                return ev(e.body, env)
            if isinstance(e.test, ast.UnaryOp) and isinstance(e.test.op, ast.Not) and isinstance(e.test.operand, ast.Name) and e.test.operand.id == "lower":
                return ev(e.orelse, env)
            return ev(e.body, env) and ev(e.orelse, env)
        if isinstance(e, (ast.ListComp, ast.GeneratorExp, ast.SetComp)) and len(e.generators) == 1 and isinstance(e.generators[0].target, ast.Name):
            env2 = dict(env)
            env2[e.generators[0].target.id] = ev(e.generators[0].iter, env)
            return ev(e.elt, env2)
        if isinstance(e, ast.JoinedStr):
            return all(ev(v.value, env) if isinstance(v, ast.FormattedValue) else ev(v, env) for v in e.values)
        if isinstance(e, ast.Subscript):
            return ev(e.value, env) if isinstance(e.value, ast.Name) and e.value.id in env else U_
        return U_

    returns = []

    def run(stmts, env) -> bool:
        """interpret a block; True when every path through it has left the block (return / continue / break / raise)"""
        for st in stmts:
            if isinstance(st, ast.Assign) and len(st.targets) == 1 and isinstance(st.targets[0], ast.Name):
                env[st.targets[0].id] = ev(st.value, env)
            elif isinstance(st, ast.AugAssign) and isinstance(st.target, ast.Name):
                env[st.target.id] = env.get(st.target.id, U_) and ev(st.value, env)
            elif isinstance(st, ast.Expr) and isinstance(st.value, ast.Call) and isinstance(st.value.func, ast.Attribute) \
                    and st.value.func.attr in ("append", "extend", "add", "insert") and isinstance(st.value.func.value, ast.Name):
                nm = st.value.func.value.id
                env[nm] = env.get(nm, U_) and all(ev(a, env) for a in st.value.args[-1:])
            elif isinstance(st, ast.If):
                t = st.test
                if isinstance(t, ast.Name) and t.id == "lower":
                    if run(st.body, env):
                        return True
                elif isinstance(t, ast.UnaryOp) and isinstance(t.op, ast.Not) and isinstance(t.operand, ast.Name) and t.operand.id == "lower":
                    if run(st.orelse, env):
                        return True
                else:
                    e1, e2 = dict(env), dict(env)
                    t1, t2 = run(st.body, e1), run(st.orelse, e2)
                    if t1 and t2:
                        return True
                    live = [e_ for e_, t_ in ((e1, t1), (e2, t2)) if not t_]
                    for k in set().union(*[set(e_) for e_ in live]):
                        env[k] = all(e_.get(k, U_) for e_ in live)
            elif isinstance(st, ast.For):
                # loop variables over unknown data are unlowered; two passes reach the fixed point of this two-point domain
                for nm in [n.id for n in ast.walk(st.target) if isinstance(n, ast.Name)]:
                    env[nm] = ev(st.iter, env) if isinstance(st.target, ast.Name) else U_
                run(st.body, env)
                run(st.body, env)
            elif isinstance(st, ast.Return):
                if st.value is not None:
                    returns.append((st, ev(st.value, env)))
                return True
            elif isinstance(st, (ast.Continue, ast.Break, ast.Raise)):
                return True
            elif isinstance(st, (ast.With, ast.Try, ast.While)):
                raise AnalysisError("namespace_prefixes: statement kind {} outside the interpreted fragment".format(type(st).__name__))
        return False

    run([s_ for s_ in fn.body if not (isinstance(s_, ast.Expr) and isinstance(s_.value, ast.Constant))], {})
    nonempty = [(r, ok) for r, ok in returns if not (isinstance(r.value, (ast.Tuple, ast.List)) and not r.value.elts)]
    if not nonempty:
        raise AnalysisError("namespace_prefixes: no return of prefixes found")
    for r, ok in nonempty:
        if ok:
            rr.ok(dotted, "every string reaching `{}` is lower-cased when lower=True".format(unparse(r)[:60]))
        else:
            rr.bad(Finding("C10.R14", CORE, dotted, unparse(r)[:80],
                           "with lower=True a prefix can be returned in its original case, but get_page and the parser match the result "
                           "against title.lower(): the canonical English prefix on a non-English edition (`Template:foo` under lang_code='fr') "
                           "is not recognised and the page is looked up as `Modèle:Template:foo`", r.lineno))
    return rr


def rule_r15(ctx) -> RuleResult:
    """Lookups spell titles with `_` or blanks interchangeably; get_page makes that so by replacing `_` with a blank.  The
    replacement has to come before the title is compared with anything that can contain a blank -- the namespace prefixes
    ("Template talk:", "Reconstruction talk:") -- otherwise `Template_talk:X` does not match its own prefix and is looked up
    as `Template talk:Template_talk:X`.  Two-point abstraction (underscores replaced / possibly not) over get_page: a prefix
    test, a comparison or a bound SQL value must not see a possibly-unreplaced title, constants without blank or underscore
    excepted."""
    rr = RuleResult("C10.R15", "get_page replaces `_` before the title meets a namespace prefix or the database", min_instances=2)
    dotted = "core.Wtp.get_page"
    fn = ctx.fn(dotted)
    N_, R_ = True, False
    if not any(isinstance(c, ast.Call) and isinstance(c.func, ast.Attribute) and c.func.attr == "replace" and len(c.args) == 2
               and isinstance(c.args[0], ast.Constant) and c.args[0].value == "_" for c in ast.walk(fn)):
        raise AnalysisError("get_page: the `_` -> blank replacement was not found (not this rule's concern how else it is done)")

    def ev(e, env) -> bool:
        if isinstance(e, ast.Constant):
            return N_
        if isinstance(e, ast.Name):
            return env.get(e.id, N_)
        if isinstance(e, ast.Call) and isinstance(e.func, ast.Attribute):
            if e.func.attr == "replace" and len(e.args) == 2 and isinstance(e.args[0], ast.Constant) and e.args[0].value == "_" \
                    and isinstance(e.args[1], ast.Constant) and e.args[1].value == " ":
                return N_
            return ev(e.func.value, env) and all(ev(a, env) for a in e.args)
        if isinstance(e, ast.Call):
            return all(ev(a, env) for a in e.args)
        if isinstance(e, (ast.BinOp,)):
            return ev(e.left, env) and ev(e.right, env)
        if isinstance(e, (ast.Subscript, ast.Attribute, ast.Starred)):
            return ev(e.value, env)
        if isinstance(e, (ast.Tuple, ast.List)):
            return all(ev(x, env) for x in e.elts)
        if isinstance(e, ast.IfExp):
            return ev(e.body, env) and ev(e.orelse, env)
        if isinstance(e, ast.JoinedStr):
            return all(ev(v.value, env) if isinstance(v, ast.FormattedValue) else True for v in e.values)
        return N_

    def harmless(c) -> bool:
        return isinstance(c, ast.Constant) and isinstance(c.value, str) and " " not in c.value and "_" not in c.value

    def uses(e, env, where):
        for n in ast.walk(e):
            if isinstance(n, ast.Call) and isinstance(n.func, ast.Attribute) and n.func.attr in ("startswith", "endswith", "removeprefix", "removesuffix", "index", "find") \
                    and n.args and not harmless(n.args[0]):
                recv = n.func.value
                while isinstance(recv, ast.Call) and isinstance(recv.func, ast.Attribute) and recv.func.attr in ("lower", "upper", "casefold", "strip"):
                    recv = recv.func.value
                if not ev(recv, env):
                    rr.bad(Finding("C10.R15", CORE, dotted, unparse(n)[:80],
                                   "the title is compared with a namespace prefix before `_` has been replaced by a blank on this path: a "
                                   "lookup that spells a multi-word namespace with `_` (`Template_talk:X`) does not match its prefix and the page "
                                   "is reported absent", n.lineno))
                else:
                    rr.ok(dotted, "prefix test on the replaced title: " + unparse(n)[:50])
            if isinstance(n, ast.Call) and isinstance(n.func, ast.Attribute) and n.func.attr in ("execute", "executemany") and len(n.args) > 1:
                if not ev(n.args[1], env):
                    rr.bad(Finding("C10.R15", CORE, dotted, unparse(n)[:80],
                                   "a title in which `_` may not have been replaced is bound into the lookup", n.lineno))
                else:
                    rr.ok(dotted, "values bound into the lookup have `_` replaced")

    def run(stmts, env) -> bool:
        for st in stmts:
            if isinstance(st, ast.Assign):
                uses(st.value, env, st)
                v = ev(st.value, env)
                for t in st.targets:
                    if isinstance(t, ast.Name):
                        env[t.id] = v
                    elif isinstance(t, (ast.Tuple, ast.List)) and isinstance(st.value, (ast.Tuple, ast.List)) and len(t.elts) == len(st.value.elts):
                        for tt, vv in zip(t.elts, st.value.elts):
                            if isinstance(tt, ast.Name):
                                env[tt.id] = ev(vv, env)
                    else:
                        for x in ast.walk(t):
                            if isinstance(x, ast.Name):
                                env[x.id] = v
            elif isinstance(st, ast.AugAssign) and isinstance(st.target, ast.Name):
                uses(st.value, env, st)
                env[st.target.id] = env.get(st.target.id, N_) and ev(st.value, env)
            elif isinstance(st, ast.Expr):
                uses(st.value, env, st)
                c = st.value
                if isinstance(c, ast.Call) and isinstance(c.func, ast.Attribute) and c.func.attr in ("append", "extend", "insert") and isinstance(c.func.value, ast.Name):
                    env[c.func.value.id] = env.get(c.func.value.id, N_) and all(ev(a, env) for a in c.args)
            elif isinstance(st, ast.If):
                uses(st.test, env, st)
                e1, e2 = dict(env), dict(env)
                t1, t2 = run(st.body, e1), run(st.orelse, e2)
                if t1 and t2:
                    return True
                live = [e_ for e_, t_ in ((e1, t1), (e2, t2)) if not t_]
                for k in set().union(*[set(e_) for e_ in live]):
                    env[k] = all(e_.get(k, N_) for e_ in live)
            elif isinstance(st, (ast.For, ast.While)):
                uses(st.iter if isinstance(st, ast.For) else st.test, env, st)
                run(st.body, env)
                run(st.body, env)
            elif isinstance(st, ast.Try):
                run(st.body, env)
                for h in st.handlers:
                    run(h.body, dict(env))
                run(st.finalbody, env)
            elif isinstance(st, ast.Return):
                if st.value is not None:
                    uses(st.value, env, st)
                return True
            elif isinstance(st, (ast.Raise, ast.Continue, ast.Break)):
                return True
        return False

    params = [a.arg for a in fn.args.args]
    env0 = {params[1]: R_} if len(params) > 1 else {}
    run([s_ for s_ in fn.body if not (isinstance(s_, ast.Expr) and isinstance(s_.value, ast.Constant))], env0)
    if not rr.cases and not rr.findings:
        raise AnalysisError("get_page: no prefix test or bound lookup value recognised")
    return rr


def rule_r16(ctx, sf: SqlFacts) -> RuleResult:
    """A context attribute that is filled, keyed by or with values computed from a looked-up page (`self.X[page.title] =
    f(page.body)`), is a second copy of part of the page store.  Like the lookup memo (R1) it has to be invalidated by every
    writer of `pages`; a reset in start_page() alone leaves the read-overwrite-read history on one page stale (seed C10-7A: a
    per-page cache of encoded template bodies)."""
    rr = RuleResult("C10.R16", "caches derived from looked-up pages are invalidated by every writer of `pages`", min_instances=1)
    readers = ("get_page", "get_page_resolve_redirect", "get_page_body", "read_by_title")
    caches = {}   # attr -> (function, node)
    for dotted, m, f in ctx.index.all_functions():
        if not dotted.startswith("core.Wtp."):
            continue
        tainted = set()
        changed = True
        while changed:
            changed = False
            for n in walk_no_nested(f):
                if isinstance(n, ast.Assign) and len(n.targets) == 1 and isinstance(n.targets[0], ast.Name) and n.targets[0].id not in tainted:
                    v = n.value
                    src = any(isinstance(c, ast.Call) and isinstance(c.func, ast.Attribute) and c.func.attr in readers for c in ast.walk(v)) \
                        or any(isinstance(x, ast.Name) and x.id in tainted for x in ast.walk(v))
                    if src:
                        tainted.add(n.targets[0].id)
                        changed = True
        if not tainted:
            continue
        for n in walk_no_nested(f):
            if isinstance(n, ast.Assign) and len(n.targets) == 1 and isinstance(n.targets[0], ast.Subscript):
                t = n.targets[0]
                if isinstance(t.value, ast.Attribute) and isinstance(t.value.value, ast.Name) and t.value.value.id == "self":
                    if any(isinstance(x, ast.Name) and x.id in tainted for x in list(ast.walk(t.slice)) + list(ast.walk(n.value))):
                        caches.setdefault(t.value.attr, (dotted, n))
    writers = sorted({s_.function for s_ in sf.on_table("pages") if s_.writes and s_.kind in ("INSERT", "UPDATE", "DELETE")})
    if len(writers) < 3:
        raise AnalysisError("C10.R16: only {} writer functions of table pages found (3 confirmed by hand)".format(len(writers)))
    rr.instances["page_derived_caches"] = sorted(caches)
    if not caches:
        rr.ok("core.Wtp", "no context attribute is filled from looked-up pages", {"writers": writers})
        return rr
    for attr, (where, node) in sorted(caches.items()):
        for w in writers:
            fn = ctx.index.func(w)
            cleared = any((isinstance(c, ast.Call) and isinstance(c.func, ast.Attribute) and c.func.attr in ("clear", "pop", "popitem")
                           and unparse(c.func.value).endswith("." + attr))
                          or (isinstance(c, ast.Assign) and any(unparse(t).endswith("self." + attr) for t in c.targets))
                          or (isinstance(c, ast.Delete) and any(("self." + attr) in unparse(t) for t in c.targets))
                          for c in ast.walk(fn))
            if cleared:
                rr.ok(w, "invalidates self." + attr)
            else:
                rr.bad(Finding("C10.R16", CORE, w, "self.{} (filled in {})".format(attr, where.split(".")[-1]),
                               "`self.{}` holds data computed from looked-up pages ({}), and this writer of `pages` does not invalidate it: "
                               "after the page is overwritten the old content keeps being used".format(attr, unparse(node)[:60]),
                               fn.lineno))
    return rr


def rule_r17(ctx, sf: SqlFacts) -> RuleResult:
    """add_page is an overwrite: afterwards every spelling returns what was passed.  A return in front of the upsert is
    compatible with that only if the row would not change, i.e. its condition establishes that *every* column the upsert
    writes already holds the new value.  An "unchanged page" test that compares some columns but not others keeps the old
    value of the columns it forgot (seed C10-8B: body, redirect and flag compared, the content model not)."""
    rr = RuleResult("C10.R17", "add_page skips the write only when every upserted column is unchanged", min_instances=1)
    dotted = "core.Wtp.add_page"
    fn = ctx.fn(dotted)
    ins = [s_ for s_ in sf.in_function(dotted) if s_.kind == "INSERT" and s_.table == "pages"]
    if len(ins) != 1:
        raise AnalysisError("expected exactly one INSERT INTO pages in add_page, found {}".format(len(ins)))
    cols = [c for c, _ in ins[0].set_pairs]
    if not cols:
        raise AnalysisError("add_page: the upsert's DO UPDATE SET list was not recognised")
    parents = {c: p_ for p_ in ast.walk(fn) for c in ast.iter_child_nodes(p_)}
    wline = ins[0].call.lineno
    early = [r for r in walk_no_nested(fn) if isinstance(r, ast.Return) and r.lineno < wline]
    n_unchanged = 0
    for r in early:
        conds = _p().path_conditions(parents, r)
        compared = set()
        for t, truth in conds:
            if not truth:
                continue
            def conjuncts(e):
                if isinstance(e, ast.BoolOp) and isinstance(e.op, ast.And):
                    for v in e.values:
                        yield from conjuncts(v)
                else:
                    yield e
            for c in [x for x in conjuncts(t) if isinstance(x, ast.Compare)]:
                if len(c.ops) == 1 and isinstance(c.ops[0], (ast.Eq, ast.Is)):
                    for side in (c.left, c.comparators[0]):
                        if isinstance(side, ast.Attribute) and isinstance(side.value, ast.Name) and side.attr in cols + ["title", "namespace_id"]:
                            compared.add(side.attr)
        if not compared - {"title", "namespace_id"}:
            continue   # not an "unchanged row" test (argument validation etc.)
        n_unchanged += 1
        missing = [c for c in cols if c not in compared]
        if missing:
            rr.bad(Finding("C10.R17", CORE, dotted, "return before the upsert when {} are unchanged".format(", ".join(sorted(compared))),
                           "add_page returns without writing when the stored row agrees in {} -- but the upsert also writes {}: a page added "
                           "again with only that changed keeps the old value under every spelling".format(
                               ", ".join(sorted(compared)), ", ".join(missing)), r.lineno))
        else:
            rr.ok(dotted, "skip-if-unchanged compares every upserted column (line {})".format(r.lineno))
    if n_unchanged == 0:
        rr.ok(dotted, "no return in front of the upsert depends on the stored row ({} early returns examined)".format(len(early)))
    return rr


def rule_r18(ctx) -> RuleResult:
    """get_page() replaces `_` by a blank in the requested title before it compares the title with the namespace names and
    aliases (R15).  A name or alias that itself contains an underscore can therefore never match: the lookup prepends the
    local name a second time and misses the page (seed C10-9A: `"Image_talk"` in data/en/namespaces.json, "as MediaWiki spells
    it").  Decided from the shipped data files."""
    from ..core.data import DataFiles

    rr = RuleResult("C10.R18", "no shipped namespace name or alias contains an underscore", min_instances=50)
    data = DataFiles(ctx.index)
    for lang, d in sorted(data.namespaces.items()):
        bad = []
        for key, e in d.items():
            for n in [key, e.get("name", "")] + list(e.get("aliases", []) or []):
                if isinstance(n, str) and "_" in n:
                    bad.append(n)
        if bad:
            rr.bad(Finding("C10.R18", "src/wikitextprocessor/data/{}/namespaces.json".format(lang), "data", "alias {!r}".format(bad[0]),
                           "get_page() turns `_` into a blank before comparing with this list, so `{}` (and {} more) can never match: a page of "
                           "that namespace looked up through the alias -- in either spelling -- is not found".format(bad[0], len(bad) - 1), 0))
        else:
            rr.ok("data/" + lang, "names and aliases free of `_`")
    return rr


def rule_r19(ctx) -> RuleResult:
    """Callers test `name.startswith(namespace_prefixes(ns))` and then cut the name at `name.index(":")` (the parser's
    template_name, get_page): that is safe only because every prefix ends with the separator passed as `suffix`.  Every string
    that enters the returned collection therefore has the form `<something> + suffix` (seed C01-9B: the canonical English key
    appended bare -- `{{templatefoo}}` under lang_code="fr" raises ValueError out of parse())."""
    rr = RuleResult("C10.R19", "every prefix namespace_prefixes returns ends with the separator it was given", min_instances=1)
    dotted = "core.Wtp.namespace_prefixes"
    fn = ctx.fn(dotted)
    params = [a.arg for a in fn.args.args]
    sfx = [a for a in params if a not in ("self", "lower", "ns_id")]
    if len(sfx) != 1:
        raise AnalysisError("namespace_prefixes: the separator parameter was not identified")
    sfx = sfx[0]

    def suffixed(e) -> bool:
        if isinstance(e, ast.BinOp) and isinstance(e.op, ast.Add):
            return isinstance(e.right, ast.Name) and e.right.id == sfx or suffixed(e.right)
        if isinstance(e, ast.IfExp):
            return suffixed(e.body) and suffixed(e.orelse)
        if isinstance(e, ast.JoinedStr) and e.values:
            last = e.values[-1]
            return isinstance(last, ast.FormattedValue) and isinstance(last.value, ast.Name) and last.value.id == sfx
        if isinstance(e, ast.Call) and isinstance(e.func, ast.Attribute) and e.func.attr in ("lower", "casefold") and not e.args:
            return suffixed(e.func.value)
        if isinstance(e, ast.Call) and isinstance(e.func, ast.Attribute) and e.func.attr == "format" and False:
            return False
        return False

    def elements(e):
        """element-producing expressions of a collection-valued expression (None when not recognised)"""
        if isinstance(e, ast.Call) and isinstance(e.func, ast.Name) and e.func.id in ("tuple", "list", "sorted", "set", "frozenset") and len(e.args) == 1:
            return elements(e.args[0])
        if isinstance(e, (ast.Tuple, ast.List, ast.Set)):
            if any(isinstance(x, ast.Starred) for x in e.elts):
                return None
            return list(e.elts)
        if isinstance(e, (ast.ListComp, ast.GeneratorExp, ast.SetComp)):
            return [e.elt]
        if isinstance(e, ast.Call) and isinstance(e.func, ast.Name) and e.func.id == "map" and len(e.args) == 2 and isinstance(e.args[0], ast.Lambda):
            return [e.args[0].body]
        if isinstance(e, ast.BinOp) and isinstance(e.op, ast.Add):
            a, b = elements(e.left), elements(e.right)
            return None if a is None or b is None else a + b
        if isinstance(e, ast.Name):
            return "name:" + e.id
        return None

    returned = set()
    checked = 0
    work = []
    for r in [n for n in walk_no_nested(fn) if isinstance(n, ast.Return) and n.value is not None]:
        el = elements(r.value)
        if isinstance(el, str):
            returned.add(el[5:])
        elif el is not None:
            work.extend((x, r) for x in el)
    for n in walk_no_nested(fn):
        tgt = val = None
        if isinstance(n, ast.Assign) and len(n.targets) == 1 and isinstance(n.targets[0], ast.Name) and n.targets[0].id in returned:
            tgt, val = n.targets[0].id, n.value
        elif isinstance(n, ast.AugAssign) and isinstance(n.target, ast.Name) and n.target.id in returned and isinstance(n.op, ast.Add):
            tgt, val = n.target.id, n.value
        elif isinstance(n, ast.Expr) and isinstance(n.value, ast.Call) and isinstance(n.value.func, ast.Attribute) \
                and n.value.func.attr in ("append", "add") and isinstance(n.value.func.value, ast.Name) and n.value.func.value.id in returned and n.value.args:
            work.append((n.value.args[0], n))
            continue
        if val is None:
            continue
        el = elements(val)
        if isinstance(el, list):
            work.extend((x, n) for x in el)
    for e, at in work:
        if isinstance(e, ast.Name) and not suffixed(e):
            continue   # a string computed elsewhere: not decided here
        checked += 1
        if suffixed(e):
            rr.ok(dotted, "`{}` ends with `{}`".format(unparse(e)[:50], sfx))
        elif not any(isinstance(x, ast.Name) and x.id == sfx for x in ast.walk(e)):
            rr.bad(Finding("C10.R19", CORE, dotted, unparse(e)[:70],
                           "this string enters the returned prefixes without the separator `{}`: callers cut a name that starts with one of the "
                           "prefixes at `name.index(':')`, which raises ValueError for a name that merely starts with the bare word "
                           "(`{{{{templatefoo}}}}` on a non-English edition)".format(sfx), at.lineno))
    if checked == 0:
        raise AnalysisError("namespace_prefixes: how the returned prefixes are built was not recognised")
    return rr


def _p():
    from . import _expand

    return _expand


def run(ctx) -> list:
    sf = SqlFacts(ctx.index)
    return [rule_r1(ctx, sf), rule_r2(ctx, sf), rule_r3(ctx, sf), rule_r4(ctx, sf), rule_r5(ctx, sf), rule_r6(ctx, sf),
            rule_r7(ctx, sf), rule_r8(ctx), rule_r9(ctx), rule_r10(ctx), rule_r11(ctx, sf), rule_r12(ctx, sf), rule_r13(ctx), rule_r14(ctx), rule_r15(ctx), rule_r16(ctx, sf), rule_r17(ctx, sf), rule_r18(ctx), rule_r19(ctx)]
